"""C31 -- an EventLoopScheduler runs its actions serially on one thread, in order.

Theorems (Props/C31.v) over ALL schedules of any number of scheduling threads, the loop
threads and the clock, on the transition system Core/EventLoop.v.
Tie: K3 with time (harness/k3_time.py): the real EventLoopScheduler with controlled
Condition/Lock/Thread/clock, scheduling threads + clock thread + the loop thread(s) under all
schedules up to a preemption bound and seeded random ones; in coarse mode one scheduled step is
one step of the model and the observable logs must be equal; in fine mode (every source line and
every lock operation is a yield point) the oracle alone judges.  The AST pass of eldrv.py
re-derives the atomicity structure of the class on every run.
Oracle (eldrv.oracle): thread identity of every action, overlap, run-once, not-early,
submission order, due order, cancelled-never (strict reading -> known finding for the dispatch
window), nothing after dispose, nothing lost at quiescence, exit_if_empty."""
from __future__ import annotations

import hashlib
import json
import sys
import time

import eldrv as E
import k3
import k3_time as kt
import lib

_REPLAY_CACHE = {}
if "--replay" in sys.argv[:-1]:
    _p = sys.argv[sys.argv.index("--replay") + 1]
    try:
        _REPLAY_CACHE[_p] = open(_p).read()
    except OSError:
        pass

FIXED = [
    # the dispatch window: cancel() between is_cancelled() and invoke()
    {"eie": False, "t0": 0, "progs": [[["now", 1], ["cancel", 1]]], "bodies": {}, "ticks": []},
    # two submitters, FIFO
    {"eie": False, "t0": 0, "progs": [[["now", 1], ["now", 2]], [["now", 3]]], "bodies": {}, "ticks": []},
    # timed, due order, clock thread
    {"eie": False, "t0": 0, "progs": [[["rel", 2000, 1], ["rel", 1000, 2]], [["abs", 1000, 3]]], "bodies": {},
     "ticks": [1000, 1000]},
    # dispose racing schedule
    {"eie": False, "t0": 0, "progs": [[["now", 1], ["rel", 1000, 2]], [["dispose"], ["now", 3]]], "bodies": {},
     "ticks": [1000]},
    # exit_if_empty: the thread exits when idle, a later schedule starts a new one
    {"eie": True, "t0": 0, "progs": [[["now", 1]], [["rel", 1000, 2]]], "bodies": {}, "ticks": [2000]},
    {"eie": True, "t0": 0, "progs": [[["now", 1], ["now", 2]], [["now", 3]]], "bodies": {}, "ticks": []},
    # re-entrant: an action schedules, cancels, disposes
    {"eie": False, "t0": 0, "progs": [[["now", 1]], [["now", 3]]], "bodies": {"1": [["now", 2]]}, "ticks": []},
    {"eie": False, "t0": 0, "progs": [[["now", 1], ["now", 2]]], "bodies": {"1": [["dispose"]]}, "ticks": []},
    {"eie": True, "t0": 0, "progs": [[["now", 1]]], "bodies": {"1": [["rel", 1000, 2]], "2": [["now", 3]]},
     "ticks": [500]},
    # timed item becoming due while the loop waits for a later one
    {"eie": False, "t0": 0, "progs": [[["rel", 3000, 1]], [["rel", 1000, 2]]], "bodies": {}, "ticks": [1000, 3000]},
    # equal due times: queue item and ready item
    {"eie": False, "t0": 0, "progs": [[["abs", 1000, 1], ["abs", 1000, 2]], [["abs", 0, 3]]], "bodies": {},
     "ticks": [1000]},
]


def gen_case(rng):
    labels = iter(range(1, 60))
    t0 = rng.choice([0, 5000])
    scheduled = []

    def sched_op():
        a = next(labels)
        k = rng.choice(["now", "now", "rel", "rel", "abs"])
        if k == "now":
            return ["now", a]
        if k == "rel":
            return ["rel", rng.choice([-1000, 0, 1000, 1000, 2000, 3000]), a]
        return ["abs", t0 + rng.choice([-1000, 0, 1000, 2000, 3000]), a]
    progs = []
    for _ in range(rng.choice([1, 2, 2, 3])):
        p, mine = [], []
        for _ in range(rng.randint(1, 3)):
            x = rng.random()
            if x < 0.65 or not mine:
                op = sched_op()
                mine.append(op[-1])
                scheduled.append(op[-1])
            elif x < 0.87:
                op = ["cancel", rng.choice(mine)]
            else:
                op = ["dispose"]
            p.append(op)
        progs.append(p)
    bodies = {}
    for a in list(scheduled):
        if rng.random() < 0.25:
            x = rng.random()
            if x < 0.7:
                op = sched_op()
                scheduled.append(op[-1])
            elif x < 0.85:
                op = ["cancel", a]
            else:
                op = ["dispose"]
            bodies[str(a)] = [op]
    ticks = [rng.choice([500, 1000, 1000, 2000]) for _ in range(rng.choice([0, 0, 1, 2]))]
    return {"eie": rng.random() < 0.4, "t0": t0, "progs": progs, "bodies": bodies, "ticks": ticks}


def case_size(case, sched):
    return sum(len(p) for p in case["progs"]) * 100 + len(sched)


def run(chk):
    chk.build_and_prove()
    quick = chk.tier == "quick"
    broken_scope = bool(chk.broken)
    t_budget = (32 if quick else 420) * (3 if broken_scope and quick else 1)
    t_start = time.time()
    diffs = E.shape_check()
    if diffs:
        chk.tie_broken("atomicity-structure of EventLoopScheduler differs from the model's step list", diffs)
    ok_st, st_facts = kt.self_test(2)
    if not ok_st:
        chk.tie_broken("k3_time self-test failed", st_facts)
    bound = 2 if quick else 3
    cases = list(FIXED) + [gen_case(chk.rng) for _ in range(40 if quick else 400)]
    coq_cases, coq_meta = [], []
    hist = {"coarse": 0, "fine": 0, "random": 0}
    distinct = set()
    nontrivial = set()
    samples = []
    windows = 0
    evals = 0
    notes = {}
    per_case_limit = 12 if quick else 400
    fixed_limit = 60 if quick else 3000

    def judge(case, r, fine, sched):
        nonlocal windows, evals
        evals += 1
        bad = E.oracle(case, r)
        h = hashlib.sha1(json.dumps([case, r.log], default=str).encode()).hexdigest()
        distinct.add(h)
        if any(e[2] == "start" for e in r.log) and k3.preemptions(r.trace) > 0:
            nontrivial.add(h)
        for sig, msg in bad:
            if sig.startswith("NOTE "):
                notes[sig] = notes.get(sig, 0) + 1
                continue
            if sig == E.WINDOW_SIG:
                windows += 1
            chk.violation(sig, {"case": case, "schedule": sched, "fine": fine, "what": msg,
                                "implementation_log": [list(map(str, e)) for e in r.log]},
                          size=case_size(case, sched))
        return bad

    with E.rebound():
        for ci, case in enumerate(cases):
            if time.time() - t_start > t_budget:
                chk.notes.append(f"time budget reached after {ci} of {len(cases)} cases")
                break
            lim = fixed_limit if ci < len(FIXED) else per_case_limit
            box = {}

            def once(chooser, fine):
                r = E.run_case(case, chooser, fine=fine)
                box["r"] = r
                return r.trace, None
            # coarse: model granularity
            n = 0
            for sched, _ in k3.explore(lambda ch: once(ch, False), bound, limit=lim):
                r = box["r"]
                n += 1
                hist["coarse"] += 1
                judge(case, r, False, sched)
                if not r.error:
                    inp, out = E.g_case(case, r)
                    coq_cases.append((inp, out))
                    coq_meta.append((case, sched))
                if len(samples) < 4 and n == 3:
                    samples.append({"case": case, "schedule": sched,
                                    "log": [list(map(str, e)) for e in r.log][:40]})
            for _ in range(4 if quick else 40):
                r = E.run_case(case, k3.random_chooser(chk.rng), fine=False)
                hist["random"] += 1
                judge(case, r, False, r.schedule)
                if not r.error:
                    inp, out = E.g_case(case, r)
                    coq_cases.append((inp, out))
                    coq_meta.append((case, r.schedule))
            # fine: every line and every lock operation
            for sched, _ in k3.explore(lambda ch: once(ch, True), 1 if quick else 2,
                                       limit=max(6, lim // 3)):
                hist["fine"] += 1
                judge(case, box["r"], True, sched)
            for _ in range(2 if quick else 20):
                r = E.run_case(case, k3.random_chooser(chk.rng), fine=True)
                hist["fine"] += 1
                judge(case, r, True, r.schedule)
    # correspondence in Coq
    bad, logs = lib.correspondence("C31", "el", E.IMPORTS, E.CASE_TY, E.MODEL_FN, "outcome_eqb", coq_cases,
                                   shard=150)
    for b in bad[:5]:
        if b < 0:
            chk.tie_broken("correspondence shard failed to evaluate", logs[:1])
        else:
            case, sched = coq_meta[b]
            shown = lib.coq_show("C31", E.IMPORTS, f"{E.MODEL_FN} ({coq_cases[b][0]})")
            chk.tie_broken("correspondence EventLoopScheduler vs Core/EventLoop.v",
                           {"case": case, "schedule": sched, "implementation": coq_cases[b][1],
                            "model": shown[-3000:]})
    chk.cov["evaluations"] = evals
    chk.cov["distinct_nontrivial"] = len(nontrivial)
    chk.cov["rule"] = ("a case = exit_if_empty flag, 1-3 scheduling threads with 1-3 calls each "
                       "(schedule/relative/absolute/cancel/dispose), optional one-call action bodies, a clock "
                       "thread; every case is run under all schedules with <= %d preemptions (coarse, capped "
                       "per case), seeded random schedules, and fine-grained schedules; distinct = distinct "
                       "(case, implementation log); non-trivial = at least one action started and at least "
                       "one preemption" % bound)
    chk.cov["input_distribution"] = dict(hist, cases=len(cases), distinct_logs=len(distinct),
                                         exit_if_empty=sum(1 for c in cases if c["eie"]),
                                         with_dispose=sum(1 for c in cases if "dispose" in json.dumps(c)),
                                         with_bodies=sum(1 for c in cases if c["bodies"]),
                                         with_clock_thread=sum(1 for c in cases if c["ticks"]))
    chk.cov["traces_validated_against_impl"] = len(coq_cases)
    chk.cov["disagreements_checked"] = len([b for b in bad if b >= 0])
    chk.cov["dispatch_window_hits"] = windows
    chk.cov["observations_outside_the_property"] = notes
    chk.cov["k3_time_self_test"] = "ok" if ok_st else "FAILED"
    chk.cov["atomicity_structure"] = "as assumed by the model" if not diffs else "DIFFERS"
    chk.add_samples(samples)
    return chk.finish(
        trusted_extra=[
            "harness/k3.py + harness/k3_time.py: baton controller, controlled Lock/Condition/Thread/clock "
            "(self-test run on every check); CPython executes one traced source line without handing control to "
            "another controlled thread",
            "threading.Condition semantics as implemented by k3_time.CCondition (wait releases the lock, wakes on "
            "notify or when the controlled clock reaches the timeout, no spurious wake-ups); heapq",
            "harness/eldrv.py: AST pass, driver, Gallina printer, oracle"],
        assumptions=[
            "preemption only at the yield points of the chosen granularity (coarse = the model's steps; fine = "
            "every source line of EventLoopScheduler's methods, every lock operation, every clock read)",
            "actions do not raise; the disposable an action returns is ignored",
            "'cancelled before it starts' is read strictly by the oracle (known finding for the dispatch window) "
            "and as 'before the loop thread's is_cancelled() test' by the theorem"])


def replay(chk, path):
    data = json.loads(_REPLAY_CACHE.get(path) or open(path).read())
    case, sched, fine = data["case"], data["schedule"], data.get("fine", False)
    with E.rebound():
        r = E.run_case(case, k3.follow(sched, lenient=True), fine=fine)
    bad = E.oracle(case, r)
    print(json.dumps({"case": case, "schedule_followed": r.schedule, "log": [list(map(str, e)) for e in r.log],
                      "oracle": bad}, indent=1))
    for sig, msg in bad:
        if sig.startswith("NOTE "):
            continue
        chk.violation(sig, {"case": case, "schedule": r.schedule, "fine": fine, "what": msg,
                            "implementation_log": [list(map(str, e)) for e in r.log]},
                      size=case_size(case, r.schedule))
    chk.cov["evaluations"] = 1
    chk.cov["rule"] = "replay of one recorded (case, schedule)"
    chk.add_samples([{"case": case, "schedule": sched}])
    return chk.finish()
