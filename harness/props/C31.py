"""C31 -- an EventLoopScheduler runs its actions serially on one thread, in order.

Theorems (Props/C31.v) over ALL schedules of any number of scheduling threads, the loop
threads and the clock, on the transition system Core/EventLoop.v.
Tie: K3 with time (harness/k3_time.py): the real EventLoopScheduler with controlled
Condition/Lock/Thread/clock, scheduling threads + clock thread + the loop thread(s) under all
schedules up to a preemption bound and seeded random ones; in coarse mode one scheduled step is
one step of the model and the observable logs must be equal; in fine mode (every source line and
every lock operation is a yield point) the oracle alone judges.  The AST pass of eldrv.py
re-derives the atomicity structure of the class on every run.
Oracle (eldrv.oracle): thread identity of every action, overlap, run-once, not-early,
submission order, due order, cancelled-never (strict reading -> known finding for the dispatch
window), nothing after dispose, nothing lost at quiescence, exit_if_empty.

The dispatch-window class of violations ("dispose() returned after the victim's last is_cancelled()
test, the action started all the same") carries in its signature WHAT HAPPENED INSIDE THE WINDOW:
whether other actions of the scheduler were tested / started / ended there, and who called the
dispose() (a scheduling thread, an earlier action of the same batch, an action of another batch).
The unchanged code has exactly one such signature (nothing else ran in the window, dispose() by a
scheduling thread -- Props/C31.v: C31_test_right_before_invoke shows the others impossible); it is
the known finding.  Any other history of the class is a different violation and is reported.
Cases with two or more items due in the same cycle, the later one disposed by an earlier one of the
batch (single-threaded, deterministic) or by a scheduling thread while an earlier one runs, are
among the fixed and the generated cases."""
from __future__ import annotations

import hashlib
import json
import sys
import time

import eldrv as E
import k3
import k3_time as kt
import lib

_REPLAY_CACHE = {}
if "--replay" in sys.argv[:-1]:
    _p = sys.argv[sys.argv.index("--replay") + 1]
    try:
        _REPLAY_CACHE[_p] = open(_p).read()
    except OSError:
        pass

FIXED = [
    # the dispatch window: cancel() between is_cancelled() and invoke()
    {"eie": False, "t0": 0, "progs": [[["now", 1], ["cancel", 1]]], "bodies": {}, "ticks": []},
    # two submitters, FIFO
    {"eie": False, "t0": 0, "progs": [[["now", 1], ["now", 2]], [["now", 3]]], "bodies": {}, "ticks": []},
    # timed, due order, clock thread
    {"eie": False, "t0": 0, "progs": [[["rel", 2000, 1], ["rel", 1000, 2]], [["abs", 1000, 3]]], "bodies": {},
     "ticks": [1000, 1000]},
    # dispose racing schedule
    {"eie": False, "t0": 0, "progs": [[["now", 1], ["rel", 1000, 2]], [["dispose"], ["now", 3]]], "bodies": {},
     "ticks": [1000]},
    # exit_if_empty: the thread exits when idle, a later schedule starts a new one
    {"eie": True, "t0": 0, "progs": [[["now", 1]], [["rel", 1000, 2]]], "bodies": {}, "ticks": [2000]},
    {"eie": True, "t0": 0, "progs": [[["now", 1], ["now", 2]], [["now", 3]]], "bodies": {}, "ticks": []},
    # re-entrant: an action schedules, cancels, disposes
    {"eie": False, "t0": 0, "progs": [[["now", 1]], [["now", 3]]], "bodies": {"1": [["now", 2]]}, "ticks": []},
    {"eie": False, "t0": 0, "progs": [[["now", 1], ["now", 2]]], "bodies": {"1": [["dispose"]]}, "ticks": []},
    {"eie": True, "t0": 0, "progs": [[["now", 1]]], "bodies": {"1": [["rel", 1000, 2]], "2": [["now", 3]]},
     "ticks": [500]},
    # timed item becoming due while the loop waits for a later one
    {"eie": False, "t0": 0, "progs": [[["rel", 3000, 1]], [["rel", 1000, 2]]], "bodies": {}, "ticks": [1000, 3000]},
    # equal due times: queue item and ready item
    {"eie": False, "t0": 0, "progs": [[["abs", 1000, 1], ["abs", 1000, 2]], [["abs", 0, 3]]], "bodies": {},
     "ticks": [1000]},
    # ---- one batch, a later item disposed before its turn ----
    # single-threaded and deterministic: action 0 (on the loop thread) schedules 1, 2, 3, which are gathered in the
    # same cycle; action 1 disposes 2 before 2's turn; 2 must not run, 3 must
    {"eie": False, "t0": 0, "progs": [[["now", 0]]],
     "bodies": {"0": [["now", 1], ["now", 2], ["now", 3]], "1": [["cancel", 2]]}, "ticks": []},
    # the same with timed items of one due time (submitted by action 0, so that all three disposables exist before
    # any of them runs), the last one disposed by the first
    {"eie": False, "t0": 0, "progs": [[["now", 0]]],
     "bodies": {"0": [["abs", 1000, 1], ["abs", 1000, 2], ["abs", 1000, 3]], "1": [["cancel", 3]]}, "ticks": [1000]},
    # three items of one due time, the second disposed by a scheduling thread while the first runs
    # ("pri": exploration hint only -- the order in which threads are preferred when the running one cannot go on:
    #  submitter, clock, loop thread(s), and the disposing thread last, so that deviating once, inside action 1,
    #  gives the schedule of interest)
    {"eie": False, "t0": 0, "progs": [[["abs", 1000, 1], ["abs", 1000, 2], ["abs", 1000, 3]], [["cancel", 2]]],
     "bodies": {}, "ticks": [1000], "pri": [0, 2, 3, 1]},
    # immediate items submitted by the loop thread itself, the second disposed by a scheduling thread meanwhile
    {"eie": True, "t0": 0, "progs": [[["now", 0]], [["cancel", 2]]],
     "bodies": {"0": [["now", 1], ["now", 2]]}, "ticks": [], "pri": [0, 2, 1]},
]

# ---- oracle-only families (outside the vocabulary of Core/EventLoop.v): EventLoopScheduler.schedule_periodic (the
# class's own override: disposed pre-check, then the generic self-rescheduling closure of PeriodicScheduler, whose
# ticks are ordinary timed items of the loop), actions that raise, scheduling threads that wait for the clock
PFIXED = [
    # three ticks, stopped by the last tick itself
    {"eie": False, "t0": 0, "progs": [[["periodic", 1000, 1]]], "bodies": {}, "ticks": [],
     "pspec": {"1": {"fn": "count", "st0": 0, "max": 3}}},
    # exit_if_empty, float period, a None in the state chain, stopped from another thread between two ticks
    {"eie": True, "t0": 0, "progs": [[["periodic", 1000, 1]], [["sleep", 1500], ["cancel", 1]]], "bodies": {},
     "ticks": [500], "pspec": {"1": {"fn": "jump", "st0": 0, "max": 4, "as": "float"}}},
    # dispose() of the scheduler while the subscription is alive; schedule_periodic afterwards must raise
    {"eie": False, "t0": 0, "progs": [[["periodic", 1000, 1], ["sleep", 2500], ["dispose"], ["periodic", 1000, 2]]],
     "bodies": {}, "ticks": [], "pspec": {"1": {"fn": "count", "st0": 0, "max": 9},
                                          "2": {"fn": "count", "st0": 0, "max": 2}}},
    # dispose() racing schedule_periodic and a running tick
    {"eie": False, "t0": 0, "progs": [[["periodic", 1000, 1]], [["sleep", 1000], ["dispose"], ["periodic", 500, 2]]],
     "bodies": {}, "ticks": [1000], "pspec": {"1": {"fn": "count", "st0": 0, "max": 3},
                                              "2": {"fn": "same", "st0": 4, "max": 2}}},
    # ticks interleaved with one-shot items (serial, one thread), a tick that schedules and one that takes time
    {"eie": False, "t0": 0, "progs": [[["periodic", 1000, 1], ["rel", 1000, 5], ["now", 6]], [["abs", 2000, 7]]],
     "bodies": {"5": [["now", 8]]}, "ticks": [1000],
     "pspec": {"1": {"fn": "cycle3", "st0": 0, "max": 3, "durs": [0, 1500, 0], "bodies": {"0": [["rel", 500, 9]]}}}},
    # a periodic subscription made by an action on the loop thread, cancelled by a later action
    {"eie": True, "t0": 0, "progs": [[["now", 1], ["rel", 2500, 2]]], "bodies": {"1": [["periodic", 1000, 3]],
                                                                             "2": [["cancel", 3]]},
     "ticks": [], "pspec": {"3": {"fn": "count", "st0": 0, "max": 6}}},
    # reactivex.interval on the scheduler: through the factory argument and through subscribe(scheduler=)
    {"eie": False, "t0": 0, "progs": [[["periodic", 1000, 1]]], "bodies": {}, "ticks": [],
     "pspec": {"1": {"via": "interval_factory", "max": 3}}},
    {"eie": True, "t0": 5000, "progs": [[["periodic", 2000, 1]], [["now", 2]]], "bodies": {}, "ticks": [1000],
     "pspec": {"1": {"via": "interval_subscribe", "max": 2, "as": "float"}}},
    # a tick raises: the subscription stops (the loop thread dies with it -- coverage only, see DESIGN)
    {"eie": False, "t0": 0, "progs": [[["periodic", 1000, 1], ["now", 5]]], "bodies": {}, "ticks": [],
     "pspec": {"1": {"fn": "count", "st0": 0, "max": 5, "raise_at": 1}}},
    # an action raises: coverage only (nothing the statement says is contradicted by what still runs)
    {"eie": False, "t0": 0, "progs": [[["now", 1], ["now", 2]], [["rel", 1000, 4]]], "bodies": {"1": [["rel", 1000, 3]]},
     "ticks": [1000], "raises": [1]},
    {"eie": True, "t0": 0, "progs": [[["rel", 1000, 1], ["now", 2]], [["now", 3], ["cancel", 3]]], "bodies": {},
     "ticks": [1000], "raises": [2]},
    # bodies three deep, two calls each
    {"eie": False, "t0": 0, "progs": [[["now", 1]], [["rel", 1000, 9]]],
     "bodies": {"1": [["now", 2], ["rel", 1000, 3]], "2": [["now", 4], ["cancel", 3]], "4": [["abs", 500, 5], ["now", 6]]},
     "ticks": [1000]},
]


def oracle_only(case):
    """outside the vocabulary of the model"""
    return bool(case.get("pspec") or case.get("raises")
                or any(op[0] in ("periodic", "sleep") for op in E.all_ops(case)))


def gen_periodic(rng, labels, t0):
    """-> (ops of a new scheduling thread, pspec entry, label)"""
    a = next(labels)
    p = rng.choice([500, 1000, 1000, 2000, 15625])
    via = rng.choice(["direct", "direct", "direct", "interval_factory", "interval_subscribe"])
    fn = rng.choice(["count", "cycle3", "jump", "none", "same"]) if via == "direct" else "count"
    from ntpdrv import ST0
    spec = {"fn": fn, "st0": ST0[fn] if via == "direct" else 0, "max": rng.choice([2, 3, 3, 4]),
            "as": rng.choice(["timedelta", "float"]), "via": via}
    if rng.random() < 0.3:
        spec["durs"] = [rng.choice([0, p // 2, p, p + p // 2]) for _ in range(3)]
    if via == "direct" and rng.random() < 0.2:
        spec["raise_at"] = rng.randrange(spec["max"])
    return a, p, spec


def gen_case(rng):
    labels = iter(range(1, 90))
    t0 = rng.choice([0, 5000])
    scheduled = []

    def sched_op():
        a = next(labels)
        k = rng.choice(["now", "now", "rel", "rel", "abs"])
        if k == "now":
            return ["now", a]
        if k == "rel":
            return ["rel", rng.choice([-1000, 0, 1000, 1000, 2000, 3000]), a]
        return ["abs", t0 + rng.choice([-1000, 0, 1000, 2000, 3000]), a]
    progs = []
    for _ in range(rng.choice([1, 2, 2, 3])):
        p, mine = [], []
        for _ in range(rng.randint(1, 3)):
            x = rng.random()
            if x < 0.65 or not mine:
                op = sched_op()
                mine.append(op[-1])
                scheduled.append(op[-1])
            elif x < 0.87:
                op = ["cancel", rng.choice(mine)]
            else:
                op = ["dispose"]
            p.append(op)
        progs.append(p)
    bodies = {}
    # action bodies: one or two calls, nested up to three deep (an action scheduled from a body may have a body)
    depth = {a: 0 for a in scheduled}
    work = list(scheduled)
    while work:
        a = work.pop(0)
        if depth[a] >= 3 or rng.random() >= (0.25 if depth[a] == 0 else 0.5):
            continue
        ops = []
        for _ in range(rng.choice([1, 1, 2])):
            x = rng.random()
            if x < 0.7:
                op = sched_op()
                scheduled.append(op[-1])
                depth[op[-1]] = depth[a] + 1
                work.append(op[-1])
            elif x < 0.85:
                op = ["cancel", rng.choice([a] + [b for b in scheduled if b != a][:3])]
            else:
                op = ["dispose"]
            ops.append(op)
        bodies[str(a)] = ops
    ticks = [rng.choice([500, 1000, 1000, 2000]) for _ in range(rng.choice([0, 0, 1, 2]))]
    if rng.random() < 0.35:
        # a batch: 2-3 items that become due in the same cycle (submitted by one action from the loop thread, or
        # timed with one due time), a later one disposed before its turn by an earlier one of the batch and/or
        # by a scheduling thread
        n = rng.choice([2, 3, 3])
        batch = [next(labels) for _ in range(n)]
        if rng.random() < 0.5:
            setup = next(labels)
            bodies[str(setup)] = [["now", b] for b in batch]
            progs[0].append(["now", setup])
        else:
            due = t0 + rng.choice([0, 1000])
            if rng.random() < 0.5:
                progs[0] += [["abs", due, b] for b in batch]
            else:
                setup = next(labels)
                bodies[str(setup)] = [["abs", due, b] for b in batch]
                progs[0].append(["now", setup])
            if due > t0 and 1000 not in ticks:
                ticks.append(1000)
        i = rng.randrange(n - 1)
        victim = rng.choice(batch[i + 1:])
        x = rng.random()
        if x < 0.7:
            bodies[str(batch[i])] = [["cancel", victim]]
        if x > 0.5:
            progs.append([["cancel", rng.choice(batch[1:])]])
    case = {"eie": rng.random() < 0.4, "t0": t0, "progs": progs, "bodies": bodies, "ticks": ticks}
    # representation of the due times and the scheduler the bodies call: no change of meaning (same model input)
    if rng.random() < 0.3:
        case["repr"] = "float"
    if rng.random() < 0.3:
        case["body_sched"] = "arg"
    x = rng.random()
    if x < 0.22:
        # EventLoopScheduler.schedule_periodic next to the ordinary items; stopped by its last tick, by another
        # thread / an action, or by dispose() of the scheduler
        a, p, spec = gen_periodic(rng, labels, t0)
        case["pspec"] = {str(a): spec}
        host = rng.random()
        if host < 0.6 or not scheduled:
            prog = [["periodic", p, a]]
            if rng.random() < 0.5:
                prog += [["sleep", rng.choice([p // 2, p, p + p // 2, 2 * p + 1])], ["cancel", a]]
            progs.append(prog)
        else:
            b = rng.choice(scheduled)
            bodies.setdefault(str(b), []).append(["periodic", p, a])
            if rng.random() < 0.4:
                progs.append([["sleep", rng.choice([p, 2 * p + 1])], ["cancel", a]])
        if rng.random() < 0.25:
            spec.setdefault("bodies", {})[str(rng.randrange(spec["max"]))] = [sched_op()]
    elif x < 0.32 and scheduled:
        case["raises"] = [rng.choice(scheduled)]
    return case


def body_depth(case):
    bodies = case.get("bodies", {})
    top = {op[-1] for p in case["progs"] for op in p if op[0] in ("now", "rel", "abs")}

    def d(a, seen=()):
        if a in seen:
            return 0
        ops = bodies.get(str(a))
        if not ops:
            return 0
        return 1 + max([d(op[-1], seen + (a,)) for op in ops if op[0] in ("now", "rel", "abs")] or [0])
    return max([d(a) for a in top] or [0])


def case_size(case, sched):
    return (sum(len(p) for p in case["progs"]) + sum(len(b) for b in case.get("bodies", {}).values())) * 100 + len(sched)


def follow_pri(prefix, pri):
    """follow `prefix`, then run non-preemptively; when the running thread cannot go on, prefer the threads in the
    order `pri` (thread ids; threads not listed -- e.g. further loop threads -- come after the listed ones)"""
    rank = {t: k for k, t in enumerate(pri)}

    def ch(k, rn, last):
        if k < len(prefix):
            return prefix[k]
        if last in rn:
            return last
        return min(rn, key=lambda t: (rank.get(t, len(pri)), t))
    return ch


def explore_pri(run_once, bound, limit, pri):
    """k3.explore with another default continuation and breadth-first order (the deviations nearest to the default
    schedule first).  Same accounting of preemptions."""
    work = [([], 0)]
    n = 0
    while work:
        prefix, used = work.pop(0)
        trace, result = run_once(follow_pri(prefix, pri))
        sched = [c for c, _ in trace]
        n += 1
        yield sched, result
        if n >= limit:
            return
        for k in range(len(prefix), len(trace)):
            c, rn = trace[k]
            prev = trace[k - 1][0] if k > 0 else None
            for a in rn:
                if a == c:
                    continue
                cost = 1 if (prev is not None and prev in rn) else 0
                if used + cost <= bound:
                    work.append((sched[:k] + [a], used + cost))


def run(chk):
    t_b0 = time.time()
    chk.build_and_prove()
    t_build = time.time() - t_b0
    quick = chk.tier == "quick"
    broken_scope = bool(chk.broken)
    t_budget = (40 if quick else 420) * (3 if broken_scope and quick else 1)
    t_start = time.time()
    diffs = E.shape_check()
    if diffs:
        chk.tie_broken("atomicity-structure of EventLoopScheduler differs from the model's step list", diffs)
    ok_st, st_facts = kt.self_test(2)
    if not ok_st:
        chk.tie_broken("k3_time self-test failed", st_facts)
    bound = 2 if quick else 3
    gen = [gen_case(chk.rng) for _ in range(40 if quick else 400)]
    cases = list(FIXED) + list(PFIXED) + gen
    cls_of = {id(c): "F" for c in FIXED}
    cls_of.update({id(c): "P" for c in PFIXED})
    if not quick:
        # the thorough budget ends long before the last case: interleave the three classes (one fixed, one
        # oracle-only fixed, three generated per round) so that each gets its share of it
        f, p_, g, cases = list(FIXED), list(PFIXED), list(gen), []
        while f or p_ or g:
            cases += f[:1] + p_[:1] + g[:3]
            f, p_, g = f[1:], p_[1:], g[3:]
    coq_cases, coq_meta = [], []
    hist = {"coarse": 0, "fine": 0, "random": 0}
    distinct = set()
    nontrivial = set()
    samples = []
    windows = {}
    evals = 0
    same_cycle = set()
    notes = {}
    per_case_limit = 12 if quick else 400
    fixed_limit = 60 if quick else 3000
    pfixed_limit = 24 if quick else 600
    fam = {}

    def judge(case, r, fine, sched):
        nonlocal evals
        evals += 1
        bad = E.oracle(case, r)
        if case.get("pspec"):
            # the clauses this property makes about timed actions, for the ticks of schedule_periodic (the full
            # statement about periodic scheduling -- state threading, keeps going -- is judged by C35 on the same driver)
            bad = bad + E.periodic_oracle(case, r, "eventloop", pid="C31", full=False)
            nt = sum(1 for e in r.log if e[2] == "pstart")
            fam["periodic_ticks"] = fam.get("periodic_ticks", 0) + nt
            fam["periodic_runs_with_two_or_more_ticks"] = fam.get("periodic_runs_with_two_or_more_ticks", 0) + (nt >= 2)
            fam["schedule_periodic_raised_DisposedException"] = fam.get("schedule_periodic_raised_DisposedException", 0) \
                + sum(1 for e in r.log if e[2] == "raise" and str(e[3]) in case["pspec"])
        if any(e[2] in ("araise", "praise") for e in r.log):
            fam["runs_in_which_an_action_raised"] = fam.get("runs_in_which_an_action_raised", 0) + 1
        h = hashlib.sha1(json.dumps([case, r.log], default=str).encode()).hexdigest()
        distinct.add(h)
        if any(e[2] == "start" for e in r.log) and k3.preemptions(r.trace) > 0:
            nontrivial.add(h)
        # a dispose() that returned while an earlier action was running, for an item tested later without the loop
        # having gone through a locked block of its own in between (same batch)
        if batch_cancel(r.log):
            same_cycle.add(h)
        for sig, msg in bad:
            if sig.startswith("NOTE "):
                notes[sig] = notes.get(sig, 0) + 1
                continue
            if sig.startswith(E.WINDOW_SIG):
                windows[sig[len(E.WINDOW_SIG):]] = windows.get(sig[len(E.WINDOW_SIG):], 0) + 1
            chk.violation(sig, {"case": case, "schedule": sched, "fine": fine, "what": msg,
                                "implementation_log": [list(map(str, e)) for e in r.log]},
                          size=case_size(case, sched))
        return bad

    def in_vocabulary(log):
        """the model's Cancel a is dispose() of the disposable RETURNED for action a: a run in which a cancel op was
        executed before the schedule call of its target had returned (possible when another thread / an action
        disposes an item submitted elsewhere) is outside the model's vocabulary -- the driver has nothing to dispose
        there -- and is judged by the oracle only"""
        returned = set()
        for e in log:
            if e[2] == "ret":
                returned.add(e[3])
            elif e[2] == "cancelcall" and e[3] not in returned:
                return False
        return True

    def to_coq(case, r, sched):
        if r.error:
            return
        if oracle_only(case):
            hist["oracle_only_periodic_raising_or_sleeping"] = hist.get("oracle_only_periodic_raising_or_sleeping", 0) + 1
            return
        if not in_vocabulary(r.log):
            hist["oracle_only_cancel_before_the_schedule_returned"] = \
                hist.get("oracle_only_cancel_before_the_schedule_returned", 0) + 1
            return
        inp, out = E.g_case(case, r)
        coq_cases.append((inp, out))
        coq_meta.append((case, sched))

    def batch_cancel(log):
        running, since_lock = None, []
        for e in log:
            if e[2] == "start":
                running = e
            elif e[2] == "end":
                running = None
            elif e[2] == "lock" and running is None:
                since_lock = []
            elif e[2] == "cancelret" and running is not None:
                since_lock.append(e[3])
            elif e[2] in ("check0", "check1") and e[3] in since_lock:
                return True
        return False

    with E.rebound():
        for ci, case in enumerate(cases):
            if time.time() - t_start > t_budget:
                chk.notes.append(f"time budget reached after {ci} of {len(cases)} cases")
                break
            lim = {"F": fixed_limit, "P": pfixed_limit}.get(cls_of.get(id(case)), per_case_limit)
            box = {}

            def once(chooser, fine):
                r = E.run_case(case, chooser, fine=fine)
                box["r"] = r
                return r.trace, None
            # coarse: model granularity
            n = 0
            for sched, _ in k3.explore(lambda ch: once(ch, False), bound, limit=lim):
                r = box["r"]
                n += 1
                hist["coarse"] += 1
                judge(case, r, False, sched)
                to_coq(case, r, sched)
                if len(samples) < 4 and n == 3:
                    samples.append({"case": case, "schedule": sched,
                                    "log": [list(map(str, e)) for e in r.log][:40]})
            if case.get("pri"):
                # directed: another default schedule (see FIXED), its nearest deviations first
                for sched, _ in explore_pri(lambda ch: once(ch, False), 1 if quick else 2, 70 if quick else 600,
                                            case["pri"]):
                    r = box["r"]
                    hist["directed"] = hist.get("directed", 0) + 1
                    judge(case, r, False, sched)
                    to_coq(case, r, sched)
            for _ in range(4 if quick else 40):
                r = E.run_case(case, k3.random_chooser(chk.rng), fine=False)
                hist["random"] += 1
                judge(case, r, False, r.schedule)
                to_coq(case, r, r.schedule)
            # fine: every line and every lock operation
            for sched, _ in k3.explore(lambda ch: once(ch, True), 1 if quick else 2,
                                       limit=max(6, lim // 3)):
                hist["fine"] += 1
                judge(case, box["r"], True, sched)
            for _ in range(2 if quick else 20):
                r = E.run_case(case, k3.random_chooser(chk.rng), fine=True)
                hist["fine"] += 1
                judge(case, r, True, r.schedule)
    # correspondence in Coq
    t_explore = time.time() - t_start
    bad, logs = lib.correspondence("C31", "el", E.IMPORTS, E.CASE_TY, E.MODEL_FN, "outcome_eqb", coq_cases,
                                   shard=150)
    for b in bad[:5]:
        if b < 0:
            chk.tie_broken("correspondence shard failed to evaluate", logs[:1])
        else:
            case, sched = coq_meta[b]
            shown = lib.coq_show("C31", E.IMPORTS, f"{E.MODEL_FN} ({coq_cases[b][0]})")
            chk.tie_broken("correspondence EventLoopScheduler vs Core/EventLoop.v",
                           {"case": case, "schedule": sched, "implementation": coq_cases[b][1],
                            "model": shown[-3000:]})
    chk.cov["phase_seconds"] = {"build_and_prove": round(t_build, 1), "explore": round(t_explore, 1),
                                "coq_correspondence": round(time.time() - t_start - t_explore, 1)}
    chk.cov["evaluations"] = evals
    chk.cov["distinct_nontrivial"] = len(nontrivial)
    chk.cov["rule"] = ("a case = exit_if_empty flag, 1-3 scheduling threads with 1-3 calls each "
                       "(schedule/relative/absolute/cancel/dispose), optional action bodies (one or two calls, nested up "
                       "to three deep, or an action "
                       "that submits 2-3 items which are then gathered in one cycle), due times handed over as "
                       "timedelta/datetime or as float seconds / POSIX timestamps, body calls made on the scheduler or on "
                       "the `scheduler` argument of the action; ORACLE-ONLY families: EventLoopScheduler.schedule_periodic "
                       "(direct, or reactivex.interval with the scheduler given to the factory / to subscribe; timedelta "
                       "and float periods; ticks that take clock time, schedule, raise; stopped by the last tick itself, "
                       "by a thread that waits for the clock, by an action, by dispose() of the scheduler; "
                       "schedule_periodic after dispose()), and actions that raise (coverage only: liveness is not "
                       "judged in a run in which an action raised); optionally a batch of 2-3 items due in "
                       "the same cycle with a later one disposed by an earlier one and/or by a scheduling thread, a clock "
                       "thread; every case is run under all schedules with <= %d preemptions (coarse, capped "
                       "per case), seeded random schedules, and fine-grained schedules; distinct = distinct "
                       "(case, implementation log); non-trivial = at least one action started and at least "
                       "one preemption" % bound)
    chk.cov["input_distribution"] = dict(hist, cases=len(cases), distinct_logs=len(distinct),
                                         exit_if_empty=sum(1 for c in cases if c["eie"]),
                                         with_dispose=sum(1 for c in cases if "dispose" in json.dumps(c)),
                                         with_bodies=sum(1 for c in cases if c["bodies"]),
                                         with_bodies_two_or_more_deep=sum(1 for c in cases if body_depth(c) >= 2),
                                         with_schedule_periodic=sum(1 for c in cases if c.get("pspec")),
                                         with_interval_on_the_scheduler=sum(
                                             1 for c in cases for sp in c.get("pspec", {}).values()
                                             if sp.get("via", "direct") != "direct"),
                                         with_raising_action=sum(1 for c in cases if c.get("raises")),
                                         due_times_as_float=sum(1 for c in cases if c.get("repr") == "float"),
                                         body_calls_on_the_scheduler_argument=sum(
                                             1 for c in cases if c.get("body_sched") == "arg"),
                                         with_clock_thread=sum(1 for c in cases if c["ticks"]))
    chk.cov["traces_validated_against_impl"] = len(coq_cases)
    chk.cov["disagreements_checked"] = len([b for b in bad if b >= 0])
    chk.cov["dispatch_window_hits_by_what_happened_in_the_window"] = windows
    chk.cov["distinct_logs_with_a_same_batch_dispose_before_the_victims_test"] = len(same_cycle)
    chk.cov["observations_outside_the_property"] = notes
    chk.cov["oracle_only_families"] = fam
    chk.cov["k3_time_self_test"] = "ok" if ok_st else "FAILED"
    chk.cov["atomicity_structure"] = "as assumed by the model" if not diffs else "DIFFERS"
    chk.add_samples(samples)
    return chk.finish(
        trusted_extra=[
            "harness/k3.py + harness/k3_time.py: baton controller, controlled Lock/Condition/Thread/clock "
            "(self-test run on every check); CPython executes one traced source line without handing control to "
            "another controlled thread",
            "threading.Condition semantics as implemented by k3_time.CCondition (wait releases the lock, wakes on "
            "notify or when the controlled clock reaches the timeout, no spurious wake-ups); heapq",
            "harness/eldrv.py: AST pass, driver, Gallina printer, oracle"],
        assumptions=[
            "preemption only at the yield points of the chosen granularity (coarse = the model's steps; fine = "
            "every source line of EventLoopScheduler's methods, every lock operation, every clock read)",
            "the disposable an action returns is ignored; an action that raises kills the loop thread (run() has no "
            "handler) while _thread stays set, so everything accepted afterwards is never run: the statement is silent "
            "about raising actions, such runs are explored for coverage and judged on the safety clauses only (thread "
            "identity, overlap, order, not-early, cancelled, disposed) -- nothing is demanded about what no longer runs",
            "schedule_periodic: ticks are judged here on the clauses about timed actions (loop thread, serial, not "
            "before one period after the call / the previous tick, not after a dispose() of the returned disposable "
            "that returned before the tick could be due, DisposedException after dispose()); a DisposedException "
            "raised inside the loop thread by the re-scheduling call of a tick after dispose() is accepted",
            "'cancelled before it starts' is read strictly by the oracle (known finding for the dispatch window) "
            "and as 'before the loop thread's is_cancelled() test' by the theorem"])


def replay(chk, path):
    data = json.loads(_REPLAY_CACHE.get(path) or open(path).read())
    case, sched, fine = data["case"], data["schedule"], data.get("fine", False)
    with E.rebound():
        r = E.run_case(case, k3.follow(sched, lenient=True), fine=fine)
    bad = E.oracle(case, r)
    if case.get("pspec"):
        bad = bad + E.periodic_oracle(case, r, "eventloop", pid="C31", full=False)
    print(json.dumps({"case": case, "schedule_followed": r.schedule, "log": [list(map(str, e)) for e in r.log],
                      "oracle": bad}, indent=1))
    for sig, msg in bad:
        if sig.startswith("NOTE "):
            continue
        chk.violation(sig, {"case": case, "schedule": r.schedule, "fine": fine, "what": msg,
                            "implementation_log": [list(map(str, e)) for e in r.log]},
                      size=case_size(case, r.schedule))
    chk.cov["evaluations"] = 1
    chk.cov["rule"] = "replay of one recorded (case, schedule)"
    chk.add_samples([{"case": case, "schedule": sched}])
    return chk.finish()
