"""C43 -- combinators serialize concurrently emitting sources.

Theorems (Props/C43.v over Core/CombConc.v): for merge_all (merge(a, b, ..), flat_map), merge(max_concurrent),
zip, combine_latest, with_latest_from, amb, window_with_time, window_with_time_or_count: for ALL schedules of
any number of source threads (each emitting serially) the operator never has two calls of its downstream observer
in progress at once, and what the subscriber's callbacks see obeys Next* (Err|Done)?.  The code before
proposed_fixes/C43-*.diff is refuted (zip, combine_latest, with_latest_from, merge_all, merge(max_concurrent):
terminal handlers handed through / run outside the operator's lock).

Tie (K3, harness/k3.py + k3x.py + combdrv.py, medium granularity): the REAL operators, one logical thread per
source (+ a timer worker for the window operators), a tap between operator and subscriber logging enter/exit of
every downstream call with a yield point inside; all schedules with at most `bound` preemptions + seeded random
ones; every run with the unwired subscriber is compared step-for-step with the Coq transition system under the
same schedule; runs with a wired subscriber (terminal notification disposes the sources) are judged by the
oracle only.  Oracle: overlapping downstream calls (at the instant of the call and on the log), grammar of what
the subscriber's callbacks saw.

Oracle-only scenario kinds (combdrv.ORACLE_ONLY, no transition system): merge_static = reactivex.merge(a, b, ..),
merge_with = a.pipe(ops.merge(b, ..)) -- the subscription is made by one more controlled thread, so the outer
from_iterable runs on it while the sources it already subscribed emit from their own threads -- and amb3 =
reactivex.amb(a, b, c)."""
import json
import os
import sys
import time

import combdrv as D
import k3
import k3x
import lib
from lib import glist, gnat

_REPLAY_CACHE = {}
if "--replay" in sys.argv[:-1]:
    _p = sys.argv[sys.argv.index("--replay") + 1]
    try:
        _REPLAY_CACHE[_p] = open(_p).read()
    except OSError:
        pass

# lock structure assumed by Core/CombConc.v (fx = true), recomputed from the source on every run
EXPECTED = {
    (D.F_ZIP, "zip_.subscribe.next_"):
        ["LOCK{", "R:queues", "CALL:x.pop", "R:queues", "CALL:observer.on_error", "CALL:observer.on_next", "R:queues",
         "R:is_completed", "CALL:observer.on_completed", "}"],
    (D.F_ZIP, "zip_.subscribe.completed"): ["LOCK{", "W:is_completed", "R:queues", "CALL:observer.on_completed", "}"],
    (D.F_ZIP, "zip_.subscribe"):
        ["W:queues", "CALL:RLock", "W:is_completed", "WRAP:lock:observer.on_error", "CALL:func", "CALL:CompositeDisposable"],
    (D.F_ZIP, "zip_.subscribe.func"):
        ["CALL:is_future", "CALL:from_future", "CALL:SingleAssignmentDisposable",
         "SUB:source.subscribe(on_next, on_error, lambda: completed(i))"],
    (D.F_ZIP, "zip_.subscribe.func.on_next"): ["W:queues", "CALL:next_"],
    (D.F_CL, "combine_latest_.subscribe._next"):
        ["W:has_value", "R:has_value_all", "R:has_value", "W:has_value_all", "R:has_value_all", "R:values",
         "CALL:observer.on_next", "R:is_done", "CALL:observer.on_completed"],
    (D.F_CL, "combine_latest_.subscribe.done"): ["W:is_done", "R:is_done", "CALL:observer.on_completed"],
    (D.F_CL, "combine_latest_.subscribe.on_error"): ["LOCK{", "CALL:observer.on_error", "}"],
    (D.F_CL, "combine_latest_.subscribe.func"): ["SUB:sources[i].subscribe(on_next, on_error, on_completed)"],
    (D.F_CL, "combine_latest_.subscribe.func.on_next"): ["LOCK{", "W:values", "CALL:_next", "}"],
    (D.F_CL, "combine_latest_.subscribe.func.on_completed"): ["LOCK{", "CALL:done", "}"],
    (D.F_WLF, "with_latest_from_.subscribe.subscribeall"):
        ["W:values", "CALL:SingleAssignmentDisposable", "CALL:subscribechild",
         "SUB:parent.subscribe(on_next, on_error, on_completed)"],
    (D.F_WLF, "with_latest_from_.subscribe.subscribeall.on_error"): ["LOCK{", "CALL:observer.on_error", "}"],
    (D.F_WLF, "with_latest_from_.subscribe.subscribeall.on_completed"): ["LOCK{", "CALL:observer.on_completed", "}"],
    (D.F_WLF, "with_latest_from_.subscribe.subscribeall.subscribechild"):
        ["CALL:SingleAssignmentDisposable", "SUB:child.subscribe(on_next, on_error)"],
    (D.F_WLF, "with_latest_from_.subscribe.subscribeall.subscribechild.on_next"): ["LOCK{", "W:values", "}"],
    (D.F_WLF, "with_latest_from_.subscribe.subscribeall.on_next"):
        ["LOCK{", "R:values", "R:values", "CALL:observer.on_next", "}"],
    (D.F_AMB, "amb_.subscribe"):
        ["W:choice", "CALL:SingleAssignmentDisposable", "CALL:SingleAssignmentDisposable",
         "SUB:left_source.subscribe(on_next_left, on_error_left, on_completed_left)",
         "SUB:obs.subscribe(send_right, on_error_right, on_completed_right)", "CALL:CompositeDisposable"],
    (D.F_AMB, "amb_.subscribe.choice_left"): ["R:choice", "W:choice", "CALL:right_subscription.dispose"],
    (D.F_AMB, "amb_.subscribe.choice_right"): ["R:choice", "W:choice", "CALL:left_subscription.dispose"],
    (D.F_AMB, "amb_.subscribe.on_next_left"): ["LOCK{", "CALL:choice_left", "}", "R:choice", "CALL:observer.on_next"],
    (D.F_AMB, "amb_.subscribe.on_error_left"): ["LOCK{", "CALL:choice_left", "}", "R:choice", "CALL:observer.on_error"],
    (D.F_AMB, "amb_.subscribe.on_completed_left"):
        ["LOCK{", "CALL:choice_left", "}", "R:choice", "CALL:observer.on_completed"],
    (D.F_AMB, "amb_.subscribe.send_right"): ["LOCK{", "CALL:choice_right", "}", "R:choice", "CALL:observer.on_next"],
    (D.F_AMB, "amb_.subscribe.on_error_right"): ["LOCK{", "CALL:choice_right", "}", "R:choice", "CALL:observer.on_error"],
    (D.F_AMB, "amb_.subscribe.on_completed_right"):
        ["LOCK{", "CALL:choice_right", "}", "R:choice", "CALL:observer.on_completed"],
    (D.F_MERGE, "merge_.subscribe"):
        ["W:active_count", "CALL:CompositeDisposable", "W:group", "W:is_stopped", "W:queue",
         "WRAP:source.lock:observer.on_error", "SUB:source.subscribe(on_next, on_error, on_completed)", "W:group", "R:group"],
    (D.F_MERGE, "merge_.subscribe.subscribe"):
        ["CALL:SingleAssignmentDisposable", "W:group", "WRAP:source.lock:observer.on_next",
         "WRAP:source.lock:observer.on_error", "SUB:xs.subscribe(on_next, on_error, on_completed)"],
    (D.F_MERGE, "merge_.subscribe.subscribe.on_completed"):
        ["LOCK{", "W:group", "R:queue", "W:queue", "CALL:subscribe", "W:active_count", "R:is_stopped", "R:active_count",
         "CALL:observer.on_completed", "}"],
    (D.F_MERGE, "merge_.subscribe.on_next"):
        ["LOCK{", "R:active_count", "W:active_count", "CALL:subscribe", "W:queue", "}"],
    (D.F_MERGE, "merge_.subscribe.on_completed"):
        ["LOCK{", "W:is_stopped", "R:active_count", "CALL:observer.on_completed", "}"],
    (D.F_MERGE, "merge_all_.subscribe"):
        ["CALL:CompositeDisposable", "W:group", "W:is_stopped", "CALL:SingleAssignmentDisposable", "W:group",
         "WRAP:source.lock:observer.on_error", "SUB:source.subscribe(on_next, on_error, on_completed)", "R:group"],
    (D.F_MERGE, "merge_all_.subscribe.on_next"):
        ["CALL:SingleAssignmentDisposable", "W:group", "CALL:is_future", "CALL:from_future",
         "WRAP:source.lock:observer.on_next", "WRAP:source.lock:observer.on_error",
         "SUB:inner_source.subscribe(on_next, on_error, on_completed)"],
    (D.F_MERGE, "merge_all_.subscribe.on_next.on_completed"):
        ["LOCK{", "W:group", "R:is_stopped", "R:group", "CALL:observer.on_completed", "}"],
    (D.F_MERGE, "merge_all_.subscribe.on_completed"):
        ["LOCK{", "W:is_stopped", "R:group", "CALL:observer.on_completed", "}"],
    (D.F_WT, "window_with_time_.subscribe.create_timer.action"):
        ["LOCK{", "CALL:Subject", "W:queue", "CALL:add_ref", "CALL:observer.on_next", "W:queue", "CALL:s.on_completed",
         "CALL:create_timer", "}"],
    (D.F_WT, "window_with_time_.subscribe.on_next"): ["LOCK{", "R:queue", "CALL:s.on_next", "}"],
    (D.F_WT, "window_with_time_.subscribe.on_error"):
        ["LOCK{", "R:queue", "CALL:s.on_error", "CALL:observer.on_error", "}"],
    (D.F_WT, "window_with_time_.subscribe.on_completed"):
        ["LOCK{", "R:queue", "CALL:s.on_completed", "CALL:observer.on_completed", "}"],
    (D.F_WTC, "window_with_time_or_count_.subscribe.create_timer"):
        ["CALL:SingleAssignmentDisposable", "CALL:_scheduler.schedule_relative"],
    (D.F_WTC, "window_with_time_or_count_.subscribe.create_timer.action"):
        ["LOCK{", "R:window_id", "W:n", "W:window_id", "R:window_id", "R:s", "CALL:s.on_completed", "CALL:Subject",
         "W:s", "R:s", "CALL:add_ref", "CALL:observer.on_next", "CALL:create_timer", "}"],
    (D.F_WTC, "window_with_time_or_count_.subscribe.on_next"):
        ["LOCK{", "R:s", "CALL:s.on_next", "W:n", "R:n", "W:n", "W:window_id", "R:window_id", "R:s", "CALL:s.on_completed",
         "CALL:Subject", "W:s", "R:s", "CALL:add_ref", "CALL:observer.on_next", "CALL:create_timer", "}"],
    (D.F_WTC, "window_with_time_or_count_.subscribe.on_error"):
        ["LOCK{", "R:s", "CALL:s.on_error", "CALL:observer.on_error", "}"],
    (D.F_WTC, "window_with_time_or_count_.subscribe.on_completed"):
        ["LOCK{", "R:s", "CALL:s.on_completed", "CALL:observer.on_completed", "}"],
}
# functions that run while subscribing (main thread) or only under the lock: never traced
NOT_TRACED = {"subscribe", "func", "subscribeall", "subscribechild", "_next", "done", "choice_left", "choice_right",
              "create_timer", "action"}

OPCODE = {"zip": 0, "combine_latest": 1, "with_latest_from": 2, "merge_all": 3, "flat_map": 3, "merge_max": 4, "amb": 5,
          "window_toc": 6, "window_time": 7}

_T = None


def shapes():
    targets, bad = k3x.check_shapes(EXPECTED, D.SHARED, lib.REPO)
    for path in targets:
        for name in list(targets[path]):
            if name in NOT_TRACED:
                del targets[path][name]
    return targets, bad


def targets():
    global _T
    if _T is None:
        _T = shapes()[0]
    return _T


# --------------------------------------------------------------------------
# model side
# --------------------------------------------------------------------------

def params_of(sc):
    p = sc.get("params", {})
    if sc["op"] == "merge_max":
        return [p.get("max", 1)]
    if sc["op"] == "window_toc":
        return [p.get("count", 2)]
    if sc["op"] == "window_time":
        span = int(p.get("span", 1))
        return [span, int(p.get("shift") or span)]
    return []


def gated_prog(prog):
    """the source's own AutoDetachObserver drops what follows its first terminal notification (thread-local)"""
    out = []
    for ev in prog:
        out.append(ev)
        if ev in ("e", "c"):
            break
    return out


def gal_progs(sc):
    nsrc = len(sc["progs"]) - sc.get("timers", 0)
    ticks = sc.get("params", {}).get("ticks", 2)
    ps = []
    for i, p in enumerate(sc["progs"]):
        if i < nsrc:
            ps.append(glist(gated_prog(p), lambda e: {"n": "SNext", "e": "SErr", "c": "SDone"}[e]))
        else:
            ps.append(glist(["STick"] * ticks, str))
    return "[" + "; ".join(ps) + "]"


def gal_obs(e):
    return {"enter": "CEnter", "exit": "CExit", "user": "CUser"}[e[1]] + " " + {"n": "DNext", "e": "DErr", "c": "DDone"}[e[2]]


def gal_case(sc, sched, log):
    inp = f"({gnat(OPCODE[sc['op']])}, {glist(params_of(sc), gnat)}, {gal_progs(sc)}, {glist(sched, gnat)})"
    out = glist(log, lambda e: f"({gnat(e[0])}, {gal_obs(e)})")
    return inp, out


CASE_TY = "(nat * list nat * list (list sev) * list nat) * list (nat * cobs)"
MODEL = "(fun c : nat * list nat * list (list sev) * list nat => " \
        "comb_log (fst (fst (fst c))) true (snd (fst (fst c))) (snd (fst c)) (snd c))"
IMPORTS = "Base.Prelude Core.Lts Core.CombConc"


# --------------------------------------------------------------------------
# scenarios
# --------------------------------------------------------------------------

N, E, C = "n", "e", "c"
FIXED = [
    {"op": "zip", "progs": [[N, C], [N, N]]},
    {"op": "zip", "progs": [[N, E], [N, N]]},
    {"op": "zip", "progs": [[N, N, C], [N, C]]},
    {"op": "zip", "progs": [[N, C], [N, E], [N]]},
    {"op": "combine_latest", "progs": [[N, N], [N, E]]},
    {"op": "combine_latest", "progs": [[N, C], [N, N, C]]},
    {"op": "combine_latest", "progs": [[N, E], [C], [N, C]]},
    {"op": "with_latest_from", "progs": [[N, N], [N, E]]},
    {"op": "with_latest_from", "progs": [[N, N, C], [N, C]]},
    {"op": "with_latest_from", "progs": [[N, E], [N, N]]},
    {"op": "with_latest_from", "progs": [[N, C], [N, E], [N, E]]},
    {"op": "amb", "progs": [[N, N, C], [N, E]]},
    {"op": "amb", "progs": [[E], [N, N]]},
    {"op": "amb", "progs": [[N, C], [N, C]]},
    {"op": "merge_all", "progs": [[N, E], [N, N]]},
    {"op": "merge_all", "progs": [[N, C], [N, C]]},
    {"op": "merge_all", "progs": [[N, N, C], [N, C], [N, E]]},
    {"op": "merge_max", "progs": [[N, C], [N, C]], "params": {"max": 1}},
    {"op": "merge_max", "progs": [[N, E], [N, N]], "params": {"max": 1}},
    {"op": "merge_max", "progs": [[N, N, C], [N, C], [N, C]], "params": {"max": 1}},
    {"op": "merge_max", "progs": [[N, N, C], [N, C], [N, E]], "params": {"max": 2}},
    {"op": "flat_map", "progs": [[N, C], [N, C]]},
    {"op": "flat_map", "progs": [[N, N, E], [N, N], [N, C]]},
    {"op": "merge_static", "progs": [[N, C], [N, E]]},
    {"op": "merge_static", "progs": [[N, N, C], [N, C]]},
    {"op": "merge_static", "progs": [[N, C], [N, C], [N, E]]},
    {"op": "merge_with", "progs": [[N, C], [N, N]]},
    {"op": "merge_with", "progs": [[N, E], [N, C]]},
    {"op": "amb3", "progs": [[N, C], [N, E], [N, N]]},
    {"op": "amb3", "progs": [[E], [N, C], [C]]},
    {"op": "window_toc", "progs": [[N, N, N, C], []], "timers": 1, "params": {"span": 1, "count": 2, "ticks": 2}},
    {"op": "window_toc", "progs": [[N, E], []], "timers": 1, "params": {"span": 1, "count": 1, "ticks": 2}},
    {"op": "window_time", "progs": [[N, N, C], []], "timers": 1, "params": {"span": 1, "ticks": 2}},
    {"op": "window_time", "progs": [[N, E], []], "timers": 1, "params": {"span": 2, "shift": 1, "ticks": 3}},
    {"op": "window_time", "progs": [[N, C], []], "timers": 1, "params": {"span": 1, "shift": 2, "ticks": 2}},
]

# the schedules that exposed the defects of the old code (recorded on the old source, see Core/CombConcFacts.v
# *_refuted): re-run on the current code on every check
OLD_WITNESSES = [
    ({"op": "zip", "progs": [[N, C], [N, N]]}, [0, 0, 0, 0, 0, 1, 1, 1, 1, 0, 0, 1, 1, 1, 1],
     "zip: completed(i) outside the lock: T0 calls on_completed while T1 (in next_) is inside on_completed"),
    ({"op": "zip", "progs": [[N, E], [N, N]]}, [0, 0, 0, 0, 1, 1, 1, 1, 1, 1, 1, 0],
     "zip: observer.on_error passed through: T1 calls on_next while T0 is inside on_error"),
    ({"op": "combine_latest", "progs": [[N, N], [N, E]]}, [0, 0, 0, 1, 1, 1, 1, 0, 0, 1],
     "combine_latest: observer.on_error passed through: T0 calls on_next while T1 is inside on_error"),
    ({"op": "with_latest_from", "progs": [[N, N], [N, E]]}, [0, 0, 0, 1, 1, 1, 0, 0, 1],
     "with_latest_from: a child's error passed through: T0 (parent) calls on_next while T1 is inside on_error"),
    ({"op": "merge_all", "progs": [[N, E], [N, N]]}, [0, 0, 1, 0, 0, 1, 1, 1, 0],
     "merge_all: outer observer.on_error passed through: inner T1 calls on_next while T0 is inside on_error"),
    ({"op": "merge_all", "progs": [[N, C], [N, C]]}, [1, 0, 0, 0, 0, 0, 1, 1, 0, 0, 1],
     "merge_all: outer on_completed outside the lock: two overlapping on_completed calls"),
    ({"op": "merge_max", "progs": [[N, C], [N, C]], "params": {"max": 1}}, [1, 0, 0, 0, 0, 0, 0, 0, 1, 1, 0, 0, 1],
     "merge(max_concurrent): outer on_completed outside the lock: two overlapping on_completed calls"),
    ({"op": "merge_max", "progs": [[N, E], [N, N]], "params": {"max": 1}}, [0, 0, 0, 0, 1, 0, 0, 1, 1, 1, 0],
     "merge(max_concurrent): outer observer.on_error passed through"),
]


def gen_scenarios(tier, rng):
    scs = [dict(s) for s in FIXED]
    n = 4 if tier == "quick" else 40
    for _ in range(n):
        op = rng.choice(["zip", "combine_latest", "with_latest_from", "amb", "merge_all", "merge_max", "flat_map",
                         "window_toc", "window_time", "merge_static", "merge_with", "amb3"])
        def prog(maxlen=3):
            p = [N] * rng.randrange(0, maxlen)
            t = rng.choice([C, E, None, C])
            if t:
                p.append(t)
            return p
        if op in ("window_toc", "window_time"):
            sc = {"op": op, "progs": [prog(4), []], "timers": 1,
                  "params": {"span": rng.choice([1, 2]), "ticks": rng.choice([1, 2, 3])}}
            if op == "window_toc":
                sc["params"]["count"] = rng.choice([1, 2])
            else:
                sc["params"]["shift"] = rng.choice([1, 2])
        elif op == "amb":
            sc = {"op": op, "progs": [prog(), prog()]}
        elif op == "amb3":
            sc = {"op": op, "progs": [prog(), prog(), prog()]}
        elif op in ("merge_all", "merge_max", "flat_map"):
            k = rng.choice([1, 2])
            sc = {"op": op, "progs": [[N] * k + ([rng.choice([C, E])] if rng.random() < 0.8 else [])] +
                  [prog() for _ in range(k)]}
            if op == "merge_max":
                sc["params"] = {"max": rng.choice([1, 2])}
        else:
            sc = {"op": op, "progs": [prog() for _ in range(rng.choice([2, 2, 3]))]}
        scs.append(sc)
    return scs


# --------------------------------------------------------------------------
# the check
# --------------------------------------------------------------------------

def run(chk):
    proved = chk.build_and_prove()
    tier = chk.tier if proved and not chk.broken else "thorough"
    if tier != chk.tier:
        chk.cov["search"] = "a theorem no longer checks: scenarios, preemption bound and random schedules enlarged to thorough"
    bound = 2 if tier == "quick" else 3
    limit = 260 if tier == "quick" else 6000
    wlimit = 80 if tier == "quick" else 1500
    nrandom = 12 if tier == "quick" else 150
    ok, st = k3.self_test(2)
    if not ok:
        chk.tie_broken("k3 self-test: the controller did not expose the toy race / reported one on the locked toy", st)
    tg, badshape = shapes()
    if badshape:
        chk.tie_broken("lock structure of the combinators differs from the modelled one (AST pass)", badshape)
    stats = {"runs": {"unwired": 0, "wired": 0}, "steps": 0, "nontrivial": set(), "ops": {}, "threads": {}, "contended": 0}
    cases, samples = [], []
    t0 = time.time()
    scs = gen_scenarios(tier, chk.rng)
    with k3x.Rebound(D.MODULES):
        for sc in scs:
            key = json.dumps(sc, sort_keys=True)
            for wired in (False, True):
                def once(chooser, sc=sc, wired=wired):
                    c, w = D.run_once(sc, chooser, tg, wired=wired)
                    return c.trace, (c, w)
                lim = wlimit if wired else limit
                if sc["op"] in D.ORACLE_ONLY and tier == "quick":
                    lim = 50 if wired else 150
                results = list(k3.explore(once, bound, limit=lim))
                for _ in range(nrandom if not wired else nrandom // 2):
                    tr, cw = once(k3.random_chooser(chk.rng))
                    results.append(([x for x, _ in tr], cw))
                mode = "wired" if wired else "unwired"
                for sched, (c, w) in results:
                    log = list(c.log)
                    chk.cov["evaluations"] += 1
                    stats["runs"][mode] += 1
                    stats["steps"] += len(sched)
                    if k3.preemptions(c.trace) >= 1:
                        stats["nontrivial"].add((key, mode, tuple(sched)))
                    if any(len(rn) > 1 for _, rn in c.trace):
                        stats["contended"] += 1
                    for tag, msg in D.oracle(sc, w.pre + log, w) + D.pre_oracle(w.pre):
                        chk.violation(f"C43|{sc['op']}|{tag}",
                                      {"mode": "concurrent", "subscriber": mode, "scenario": sc, "schedule": sched,
                                       "implementation_log": log, "oracle": tag, "what": msg}, size=len(sched))
                    if not wired and sc["op"] not in D.ORACLE_ONLY:
                        cases.append((sc, sched, log))
                stats["ops"][sc["op"]] = stats["ops"].get(sc["op"], 0) + len(results)
                stats["threads"][str(len(sc["progs"]))] = stats["threads"].get(str(len(sc["progs"])), 0) + len(results)
                if not wired and len(samples) < 40:
                    m = results[len(results) // 2]
                    samples.append({"scenario": sc, "schedule": m[0], "observed_log": list(m[1][0].log)})
        # the schedules that broke the old code
        regress = []
        for (sc, sched, what) in OLD_WITNESSES:
            c, w = D.run_once(sc, k3.follow(sched, lenient=True), tg, wired=False)
            bad = D.oracle(sc, w.pre + list(c.log), w)
            regress.append({"scenario": sc, "old_schedule": sched, "old_defect": what,
                            "now": "ok" if not bad else str(bad)})
            chk.cov["evaluations"] += 1
            for tag, msg in bad:
                chk.violation(f"C43|{sc['op']}|{tag}|regression",
                              {"mode": "concurrent", "subscriber": "unwired", "scenario": sc,
                               "schedule": [x for x, _ in c.trace], "implementation_log": list(c.log), "oracle": tag,
                               "what": msg + " -- " + what}, size=len(sched))
    stats["impl_s"] = round(time.time() - t0, 2)
    seen, uniq = set(), []
    for (sc, sched, log) in cases:
        k = (json.dumps(sc, sort_keys=True), tuple(sched))
        if k not in seen:
            seen.add(k)
            uniq.append((sc, sched, log))
    gal = [gal_case(sc, sched, log) for (sc, sched, log) in uniq]
    badidx, logs = lib.correspondence(chk.pid, "cb_", IMPORTS, CASE_TY, MODEL, "comb_log_eqb", gal, shard=400)
    chk.cov["traces_validated_against_impl"] += len(uniq)
    chk.cov["disagreements_checked"] += len(uniq)
    if badidx:
        firsts = [uniq[i] for i in badidx if i >= 0][:3]
        detail = {"n_disagreements": len(badidx), "logs": logs[:1],
                  "first (scenario, schedule, implementation log)": firsts}
        if firsts:
            inp, _ = gal_case(*firsts[0])
            detail["model_says"] = lib.coq_show(chk.pid, IMPORTS, f"{MODEL} {inp}")
        chk.tie_broken("correspondence K3: transition systems Core/CombConc.v vs implementation under the same schedule",
                       detail)
    byop = {}
    for s in samples:
        byop.setdefault(s["scenario"]["op"], s)
    chk.add_samples(list(byop.values()), limit=9)
    chk.cov["distinct_nontrivial"] = len(stats["nontrivial"])
    chk.cov["fixed_defect_witnesses"] = regress
    chk.cov["rule"] = (
        "K3 (medium granularity): the real operators merge_all, merge(max_concurrent), flat_map, zip, combine_latest, "
        "with_latest_from, amb, window_with_time, window_with_time_or_count with 2-3 logical source threads (each pushing 0-3 "
        "notifications and an optional terminal one, serially) + one timer-worker thread for the window operators; a tap "
        f"logs enter/exit of every call the operator makes downstream (yield point inside).  Per scenario: schedules with at "
        f"most {bound} preemptions (stateless enumeration, capped at {limit} per scenario with an unwired subscriber and "
        f"{wlimit} with a wired one) + {nrandom} seeded random schedules.  Unwired runs are compared step-for-step with the "
        "Coq transition system under the same schedule; all runs are judged by the direct oracle.  ORACLE-ONLY scenario "
        "kinds (no transition system; capped at 150 / 50 schedules per scenario in the quick tier): merge_static = "
        "reactivex.merge(a, b, ..) and merge_with = a.pipe(ops.merge(b, ..)) with the SUBSCRIPTION made by one more "
        "controlled thread (the outer from_iterable runs on it while the sources already subscribed emit from their "
        "own threads), amb3 = reactivex.amb(a, b, c) (nested amb over never()).  non-trivial = a "
        "schedule with at least one preemption, distinct (scenario, subscriber, schedule).")
    chk.cov["input_distribution"] = {
        "scenarios": len(scs), "runs_by_operator": stats["ops"], "runs_by_thread_count": stats["threads"],
        "runs": stats["runs"], "runs_with_two_runnable_threads_at_some_step": stats["contended"],
        "k3_scheduled_steps_total": stats["steps"], "k3_preemption_bound": bound, "k3_impl_seconds": stats["impl_s"],
        "k3_self_test": {k: {"schedules": v["schedules"], "runs_seen": v["runs_seen"]} for k, v in st.items()},
    }
    return chk.finish(
        trusted_extra=[
            "harness/k3.py thread controller + harness/k3x.py (medium granularity: yields also while a controlled lock is "
            "held; gates for the timer worker; AST pass lock_shape) + harness/combdrv.py (hot sources, tap): the lock "
            "structure (locked regions, `@synchronized`, which handlers are handed to source.subscribe, accesses to the "
            "shared closure variables, downstream calls) of every modelled handler is recomputed from the source on each "
            "run and compared with the one the transition systems assume; controller self-tested on each run",
            "models Core/CombConc.v are hand-written from the code (payloads abstracted) and tied to it by the K3 "
            "correspondence of this run (not extracted)",
        ],
        assumptions=[
            "CPython executes the bytecodes of different threads as an interleaving (GIL); list/CompositeDisposable "
            "operations and loads/stores of closure cells are atomic; RLock gives mutual exclusion",
            "granularity: the models (and K3) interleave at lock acquisitions, at the source lines that touch a shared closure "
            "variable outside a locked region, at calls out (inner subscribe) and inside downstream calls; CPython can also "
            "preempt between the bytecodes of one such step, and real scheduler/timer threads are replaced by controlled "
            "ones -> partial",
            "each source emits serially from one thread (Rx contract); 'calling the downstream observer from two threads at "
            "once' is judged on the calls the OPERATOR makes (tap in front of the subscriber's AutoDetachObserver, whose own "
            "is_stopped flag is unsynchronised); the grammar is judged on what the subscriber's callbacks see; the "
            "AutoDetachObserver is one atomic step of the model, which is exact because the operator's calls are serial "
            "(theorem)",
            "theorems and correspondence use a subscriber that does not dispose the sources on a terminal notification "
            "(superset of the behaviours with disposal); wired subscribers are exercised against the oracle only",
            "payloads are abstracted in the models (value semantics of these operators: C10-C13)",
            "the static forms reactivex.merge(..) / ops.merge(b) / reactivex.amb(a, b, c) have no transition system of "
            "their own (they are compositions of from_iterable / never with the modelled merge_all / amb): their runs are "
            "judged by the oracle only",
        ])


def replay(chk, path):
    if not os.path.exists(path) and path in _REPLAY_CACHE:
        with open(path, "w") as f:
            f.write(_REPLAY_CACHE[path])
    d = json.load(open(path))
    if d.get("mode") == "concurrent":
        sc = d["scenario"]
        with k3x.Rebound(D.MODULES):
            c, w = D.run_once(sc, k3.follow(d["schedule"], lenient=True), targets(), wired=d.get("subscriber") == "wired")
        log = list(c.log)
        bad = D.oracle(sc, w.pre + log, w) + D.pre_oracle(w.pre)
        print("scenario", sc, "subscriber", d.get("subscriber"))
        print("schedule", [x for x, _ in c.trace])
        print("implementation log", log)
        print("oracle", bad or "ok")
        if bad:
            print(f"VIOLATION property=C43 replay={path}")
        return 1 if bad else 0
    print(json.dumps(d, indent=1)[:4000])
    return 1
