"""C15 -- time-shifting operators (DESIGN.md section 7/C15).  Machines: Ops/Timed.v on
the runner Ops/Multi.v; closed-world theorems over the timer-firing simulator
Ops/TimedSim.v (Props/C15.v); tie: K2 multi-source port-level replay with the
proxy scheduler (harness/k2m.py, harness/timed_table.py); oracle: below, a
direct reading of the property statement on the implementation's log."""
import sched_prec as sp
import timed_extra as te
import timed_table as tt
from timed_table import view, common_timed, elems, terminal, src_view

NAMES = ["delay", "delay_subscription", "delay_with_mapper", "timestamp", "time_interval"]
INF = float("inf")


def stop_time(v, term):
    """instant after which nothing may be delivered any more: source error (immediate) or dispose"""
    ts = []
    if v["dispose_time"] is not None:
        ts.append(v["dispose_time"])
    if term is not None and term[2] == "E":
        ts.append(term[0])
    return min(ts) if ts else INF


def prefix_window(exp, cut):
    """exp: [(time, value)] in order; elements due strictly before `cut` MUST be there, elements due
    strictly after MUST NOT, elements due exactly at `cut` MAY (the statement leaves that instant open).
    -> (n_min, n_max) admissible prefix lengths"""
    n_min = sum(1 for (t, _) in exp if t < cut)
    n_max = sum(1 for (t, _) in exp if t <= cut)
    return n_min, n_max


def o_delay(inst, res, v):
    d = max(inst["spec"][1], 0)            # an absolute due time in the past: the scheduler runs it at once
    el, term = src_view(v)
    cut = stop_time(v, term)
    exp = [(t + d, x) for (t, tag, x) in el]
    got = elems(v["em"])
    n_min, n_max = prefix_window(exp, cut)
    if not (n_min <= len(got) <= n_max) or got != exp[:len(got)]:
        return f"delay({d}): elements {got} are not the source elements shifted by {d} (expected {exp} cut at {cut})"
    t = terminal(v["em"])
    if term is not None and term[2] == "E" and (v["dispose_time"] is None or term[0] <= v["dispose_time"]):
        if not (t and t[1] == "E" and t[0] == term[0]):
            return f"delay({d}): source error at {term[0]} not delivered immediately: terminal {t}"
    elif term is not None and term[2] == "C":
        due = term[0] + d
        if due < cut and not (t and t[1] == "C" and t[0] == due):
            return f"delay({d}): completion at {term[0]} not delivered at {due}: terminal {t}"
        if t and not (t[1] == "C" and t[0] == due):
            return f"delay({d}): terminal {t} but the source completed at {term[0]}"
    elif t:
        return f"delay({d}): terminal {t} without a source terminal"
    return None


def o_delay_subscription(inst, res, v):
    d = inst["spec"][1]
    subs = [(tt.time_of(res, st["tag"]), st["tag"]) for st in v["steps"] for k in st["subs"] if k == 0]
    cut = v["dispose_time"] if v["dispose_time"] is not None else INF
    if d < cut and [t for t, _ in subs] != [d]:
        return f"delay_subscription({d}): source subscribed at {[t for t, _ in subs]}"
    if d > cut and subs:
        return f"delay_subscription({d}): subscribed at {subs} after the dispose at {cut}"
    if any(t != d for t, _ in subs) or len(subs) > 1:
        return f"delay_subscription({d}): source subscribed at {[t for t, _ in subs]}"
    el, term = src_view(v)
    exp = [(t, x) for (t, tag, x) in el]
    got = elems(v["em"])
    stop = stop_time(v, term)
    n_min, n_max = prefix_window(exp, stop)
    if not (n_min <= len(got) <= n_max) or got != exp[:len(got)]:
        return f"delay_subscription({d}): elements {got}, expected the source's {exp} (cut at {stop})"
    t = terminal(v["em"])
    if term is not None and term[0] < cut:
        if not (t and t[1] == term[2] and t[0] == term[0]):
            return f"delay_subscription({d}): source terminal {term} but subscriber got {t}"
        if term[2] == "C" and len(got) != len(exp):
            return f"delay_subscription({d}): completed with elements missing: {got} vs {exp}"
    elif t and not (term is not None and t[1] == term[2] and t[0] == term[0]):
        return f"delay_subscription({d}): terminal {t} without that source terminal"
    return None


def o_delay_with_mapper(inst, res, v):
    _, has_sub, ent = inst["spec"]
    base = 2 if has_sub else 1
    steps = v["steps"]
    # replay the statement on the accepted notifications, by input position
    pending = {}          # delay source -> element
    exp = []              # (tag, kind, value)
    ncalls = 0
    at_end = False
    started_tag = 0 if not has_sub else None
    for (t, tag, k, ev) in v["acc"]:
        if exp and exp[-1][1] in "EC":
            break
        if has_sub and k == 1:
            if ev[0] == "E":
                exp.append((tag, "E", ev[1]))
            elif started_tag is None:
                started_tag = tag
        elif k == 0:
            if ev[0] == "N":
                e = ent[ncalls] if ncalls < len(ent) else ("ok", None)
                if e[0] == "raise":
                    exp.append((tag, "E", e[1]))
                else:
                    pending[base + ncalls] = ev[1]
                ncalls += 1
            elif ev[0] == "E":
                exp.append((tag, "E", ev[1]))
            else:
                at_end = True
                if not pending:
                    exp.append((tag, "C", None))
        else:
            if ev[0] == "E":
                exp.append((tag, "E", ev[1]))
            elif k in pending:                 # first emission OR completion of the delay observable
                exp.append((tag, "N", pending.pop(k)))
                if at_end and not pending:
                    exp.append((tag, "C", None))
    from k2 import err_id
    got = [(tag, a, err_id(b) if a == "E" else b) for (t, tag, a, b) in v["em"]]
    expn = [(tag, a, (b if isinstance(b, int) else err_id(b)) if a == "E" else b) for (tag, a, b) in exp]
    if got != expn:
        return f"delay_with_mapper: emissions (input position, kind, value) {got}, expected {expn}"
    if has_sub:
        subs0 = [st["tag"] for st in steps for k in st["subs"] if k == 0]
        first1 = [tag for (t, tag, k, ev) in v["acc"] if k == 1 and ev[0] in "NC"]
        if first1 and subs0 != [first1[0]]:
            return f"delay_with_mapper: source subscribed at inputs {subs0}, subscription delay fired at input {first1[0]}"
        if not first1 and subs0:
            return f"delay_with_mapper: source subscribed at inputs {subs0} although the subscription delay never fired"
    return None


def o_stamp(inst, res, v, interval):
    el, term = src_view(v)
    exp, last = [], 0
    for (t, tag, x) in el:
        exp.append((t, x, (t - last) if interval else t))
        last = t
    got = []
    for (t, b) in elems(v["em"]):
        if interval:
            got.append((t, b.value, tt.ms(b.interval)))
        else:
            import k2m
            # the scheduler clock reading, minus the (random) reading at the subscription instant
            got.append((t, b.value, tt.ms(b.timestamp - k2m.EPOCH) - res.get("t0", 0)))
    name = "time_interval" if interval else "timestamp"
    if got != exp:
        return f"{name}: emissions (time, value, reading) {got}, expected {exp}"
    t = terminal(v["em"])
    if (term is not None) != (t is not None) or (t and (t[0], t[1]) != (term[0], term[2])):
        return f"{name}: source terminal {term}, subscriber got {t}"
    return None


def oracle(name, inst, res):
    v = view(res)
    c = common_timed(res, v)
    if c:
        return c
    if name == "delay":
        return o_delay(inst, res, v)
    if name == "delay_subscription":
        return o_delay_subscription(inst, res, v)
    if name == "delay_with_mapper":
        return o_delay_with_mapper(inst, res, v)
    if name == "timestamp":
        return o_stamp(inst, res, v, False)
    return o_stamp(inst, res, v, True)


def run(chk):
    ok = chk.build_and_prove()
    # a broken proof / theorem file: enlarge the search for a failing input to the thorough scope
    tt.run_timed(chk, "C15", NAMES, oracle, ncase=None if ok else 2000)
    tt.closed_world(chk, "C15", NAMES)
    # oracle-only families (harness/timed_extra.py): feedback into delay's drain loop; delay observables that fire
    # inside subscribe() or are real timer()s under TestScheduler
    te.run_families(chk, "C15", {"fb_delay": (250, 4000), "dwm_kinds": (300, 4000)})
    # scheduler precedence (harness/sched_prec.py): operator scheduler vs subscribe-time scheduler vs default
    sp.run_family(chk, "C15", 400, 6000)
    chk.cov["rule"] = ("per operator: seeded instances (due times 0/5/10/20 ms as float seconds, timedelta or absolute "
                       "datetime incl. one in the past; scheduler passed to the operator or to subscribe; mapper "
                       "tables indexed by invocation, 12% raising) x seeded timelines of hand-driven hot sources on "
                       "the proxy scheduler's virtual clock (0-5 elements, gaps 0 / due-5 / due / due+5 / 2*due, "
                       "bursts at one instant, values incl. 0 and None, completion/error/none, 10% non-conforming "
                       "tails, 15% with a dispose instant; the measured subscription happens at proxy-clock reading "
                       "0/35/200/1000 ms -- absolute due times are offsets from it -- and in 35% of the cases is the "
                       "SECOND subscription of the same observable object, after a warm-up subscription with its own "
                       "timeline, fired timers and dispose; relative due times include -5 ms); non-trivial = distinct "
                       "(machine, delivered input sequence) with >= 2 emissions and the oracle satisfied.  Oracle-only "
                       "families (cov.oracle_only_families; non-trivial = distinct parameter sets with >= 2 "
                       "notifications, a push having happened in the feedback family): fb_delay = delay(0/5/10 as "
                       "float, timedelta or absolute datetime) under TestScheduler with a subscriber that pushes an "
                       "element / completion / error back into the source from inside on_next; dwm_kinds = "
                       "delay_with_mapper whose delay observables fire inside subscribe() (hand-written, empty()/of()/"
                       "throw() without scheduler, terminated/Behavior/Replay subjects), are hand-held, or are real "
                       "timer(x)/empty()/of() under TestScheduler; same-instant orders the text leaves open are "
                       "accepted or the case is skipped as a tie (counted)")
    chk.cov["rule"] += sp.RULE
    chk.cov["operators_modelled"] = NAMES
    return chk.finish(trusted_extra=[
        "multi-source K2 driver harness/k2m.py with its proxy scheduler (integer-millisecond virtual clock, records "
        "timers/cancels, fires the earliest due timer; source events first at equal instants) and "
        "harness/timed_table.py (instances, timelines)",
        "runner assumption (Ops/Multi.v): the disposable an operator returns holds every subscription and timer it "
        "opened -- checked here by comparing unsubscribe/cancel instants",
        "closed-world comparison (harness/timed_table.py: closed_world): hand-made hot sources whose notifications "
        "are queued before the subscription, under reactivex.testing.TestScheduler and HistoricalScheduler",
        "closed-world theorems are about Ops/TimedSim.v: every requested timer fires exactly at request time + "
        "clamped delay, source events first at equal instants (the proxy scheduler's policy); numeric vs datetime "
        "clocks: the millisecond conversion layer is C36",
        "harness/timed_table.py run_case/warm_up: the warm-up subscription and the clock offset are applied inside "
        "the build callback handed to k2m.run_multi (the harness state is wiped as k2m does after its own warm-up)",
        "harness/timed_extra.py: oracle-only families with their own hand-made hot source, TestScheduler driver and "
        "references written from the property text (no Coq model behind them)",
        sp.TRUSTED],
        assumptions=["timelines are in integer milliseconds; datetime/timedelta arithmetic is exact on them"])


def replay(chk, path):
    if sp.is_replay(path):
        return sp.replay("C15", path)
    if te.is_family_replay(path):
        return te.replay_family("C15", path)
    return tt.replay_cases("C15", oracle, path)
