"""C21 -- see harness/subj.py (driver, oracle, generators shared by C20/C21/C23) and
coq/theories/Props/C21.v.  K1 correspondence: the real class is driven with generated call
trees (exhaustive small scopes + seeded random, re-entrant ones and falsy values included);
Coq evaluates the Gallina model on the same trees (vm_compute) and compares the complete
logs; an independent oracle states the property on the implementation's records."""
import subj


def run(chk):
    return subj.check_sync(chk, "C21")


def replay(chk, path):
    return subj.replay_sync(chk, "C21", path)
