"""C21 -- see harness/subj.py (driver, oracle, generators shared by C20/C21/C23) and
coq/theories/Props/C21.v.  K1 correspondence: the real class is driven with generated call
trees (exhaustive small scopes + seeded random, re-entrant ones and falsy values included);
Coq evaluates the Gallina model on the same trees (vm_compute) and compares the complete
logs; an independent oracle states the property on the implementation's records.
Error payloads include a FALSY exception object (code 13, `__len__` returns 0); subscribers use four
equivalent full forms (observer object / positional callbacks / keyword callbacks / reactivex Observer);
an oracle-only family subscribes with PARTIAL callback forms (on_next only, ...: the library's default
on_error raises) and compares with the same run made with observer objects.
TWO-THREAD family (harness/subj_conc.py, oracle-only): thread A subscribes / unsubscribes while thread B makes
one complete on_next / on_completed / on_error / dispose call, B being released at every acquire/release point of
A's operation on subject.lock (instrumented proxy); every such run must show the outcome of [A; B] or of [B; A]
according to an independent reference written from the statement."""
import json

import subj
import subj_conc


def run(chk):
    subj_conc.install(chk, "C21", "behavior")      # runs just before chk.finish
    return subj.check_sync(chk, "C21")


def replay(chk, path):
    d = json.load(open(path))
    if d.get("family") == "subj_conc":
        return subj_conc.replay(chk, "C21", d, path)
    return subj.replay_sync(chk, "C21", path)
