"""C11 -- see DESIGN.md section 7/C11.  Machines: Ops/Combinators.v on the runner
Ops/Multi.v; tie: K2 multi-source port-level replay (harness/k2m.py); oracle:
harness/comb_oracle.py (direct reading of the property statement).
Plus two oracle-only families (no model involved):
  sync_exact_scenarios   inner (and outer) sequences that emit / complete / fail INSIDE subscribe(), drawn from a
                         small reused pool (the same inner object arrives repeatedly); the reference executes the
                         statement step by step and the notifications + subscribe/unsubscribe log must agree
  library_source_scenarios   the library's own sources (of, empty, throw, never, completed Subjects, resolved
                         Futures) and plain lists / generators returned by the projection (from_ conversion),
                         flat_map(observable); on the trampoline and on ImmediateScheduler; judged by predicates
  reent_scenarios        (harness/c11_reent.py) outer elements / completions / errors / dispose issued RE-ENTRANTLY from
                         the subscriber's on_next while an inner is still inside its own subscribe(); exact reference
                         + the probes' own count of simultaneously subscribed inners"""
import comb_oracle
import comb_table
import lib

NAMES = {"C10": ["concat", "catch", "catch_handler", "on_error_resume_next", "repeat", "retry", "while_do", "do_while"],
         "C11": ["merge", "flat_map", "flat_map_indexed", "merge_all", "concat_map", "merge_mc"],
         "C12": ["switch_map", "switch_map_indexed", "flat_map_latest", "switch_latest"],
         "C13": ["zip", "combine_latest", "with_latest_from", "fork_join", "amb"]}["C11"]
ORACLE = getattr(comb_oracle, "oracle_" + "C11".lower())
EXTRA_SOURCES = 5


def run(chk):
    chk.build_and_prove()
    qhist = {}

    def oracle(name, inst, res):
        # statistic only: the longest queue of waiting inners (max_concurrent operators)
        if name in ("concat_map", "merge_mc"):
            arrived = started = deepest = 0
            for st in comb_oracle.timeline(res):
                i = st["inp"]
                if i and i[0] == "src" and i[1] == 0 and i[2][0] == "N" and 0 in st["live_before"]:
                    arrived += 1
                started += sum(1 for k in st["subs"] if k >= 1)
                deepest = max(deepest, min(arrived, len(res["env"].sources) - 1) - started)
            key = f"longest_queue={min(deepest, 4)}{'+' if deepest >= 4 else ''}"
            qhist[key] = qhist.get(key, 0) + 1
        return ORACLE(name, inst, res)
    comb_table.run_ops(chk, "C11", NAMES, oracle, extra_sources=EXTRA_SOURCES)
    chk.cov["input_distribution"]["max_concurrent_queue_depth"] = dict(sorted(qhist.items()))
    chk.cov["rule"] = ("per operator: seeded instances (source counts 0-3, max_concurrent 1-3, callback tables indexed "
                       "by invocation, 15% raising) x seeded interleavings of hand-driven hot sources (1 outer + up to "
                       "5 inner sources, 0-4 elements each, completion/error/none, 15% non-conforming tails, 15% with "
                       "a dispose instant, same-instant events; for max_concurrent / concat_map half of the "
                       "interleavings deliver 3-5 inners before the first one ends, so that 3 or more inners queue); "
                       "non-trivial = distinct (machine, delivered input sequence) with >= 2 emissions and the oracle "
                       "satisfied")
    chk.cov["operators_modelled"] = NAMES
    return chk.finish(trusted_extra=["multi-source K2 driver harness/k2m.py (hot sources, boundary log, canonical "
                                     "per-instant ordering of subscribe/unsubscribe events)",
                                     "runner assumption (Ops/Multi.v): the disposable an operator returns holds every "
                                     "subscription it opened -- checked here by comparing unsubscribe instants",
                                     "oracle-only families of props/C11.py: logged cold/hot pool members and the "
                                     "logging pass-through wrapper around library sources"])


def replay(chk, path):
    import json
    rep = json.load(open(path))
    fam = rep.get("family")
    if fam == "reent_scenarios":          # harness/c11_reent.py: re-run the scenario on the current tree
        import c11_reent
        return c11_reent.replay_case(rep, path)
    if fam in ("sync_exact_scenarios", "library_source_scenarios"):
        bad = _sx_check(rep["case"]) if fam == "sync_exact_scenarios" else _ls_check(rep["case"])
        if bad:
            print(json.dumps({"family": fam, "case": rep["case"], "mismatch": bad[0], "what": bad[1], "got": bad[2],
                              "expected": bad[3]}, indent=1, default=repr))
            print(f"VIOLATION property=C11 replay={path}")
            return 1
        print(f"[C11] replay {path}: implementation agrees with the reference reading on this case")
        return 0
    if "rerun" in rep:
        v, gi, gt = comb_table.rerun_case(rep["rerun"], ORACLE)
        if v:
            print(json.dumps({"operator": rep["operator"], "machine": rep["machine"], "inputs (now, event)": gi,
                              "observed trace": gt, "what": v}, indent=1))
            print(f"VIOLATION property=C11 replay={path}")
            return 1
        print(f"[C11] replay {path}: the oracle is satisfied on this case now")
        return 0
    print(open(path).read())
    return 1


# =====================================================================================================
# Family 1: sync_exact_scenarios
# =====================================================================================================
# case = {"op", "mc": None | 1 | 2 | 3, "pool": [member...], "outer": {"prefix": [j...], "end": "C"|"E"|"open"},
#         "script": [step...]}
# pool member: {"kind": "cold", "prefix": [...], "end": "C" | "E" | "open"}  or  {"kind": "hot"}
#   cold: an Observable over a logging subscribe function; EVERY subscription gets the prefix synchronously
#         (inside subscribe()), then completes ("C"), fails ("E") or stays open; an open subscription receives
#         what the script pushes to the member later; a later subscription starts afresh
#   hot:  a Subject (logging subscribe / unsubscribe); its termination is remembered, so subscribing it
#         afterwards terminates inside subscribe()
# The projection maps outer element j to pool[j] -- the SAME object every time j arrives.
# outer: emits the prefix and terminates ("C" / "E") or stays open, all inside subscribe(); if open the script
#   drives it.   step -1 is subscribe(); script steps are numbered from 0:
#   ["outer", j] | ["push", m, v] | ["complete", m] | ["error", m] | ["outer_complete"] | ["outer_error"] | ["dispose"]
_SX_VALUES = [0, None, "", False, 1, 2, 3, "a", "b"]
_SX_OPS = [("flat_map", None), ("flat_map_indexed", None), ("map+merge_all", None), ("concat_map", 1),
           ("map+merge(max_concurrent)", 1), ("map+merge(max_concurrent)", 2), ("map+merge(max_concurrent)", 3)]


def _sx_gen(rng):
    op, mc = rng.choice(_SX_OPS)
    npool = rng.choice([2, 3, 3, 4])
    pool = []
    for _ in range(npool):
        if rng.random() < 0.7:
            pool.append({"kind": "cold",
                         "prefix": [rng.choice(_SX_VALUES) for _ in range(rng.choice([0, 1, 1, 2, 3]))],
                         "end": rng.choice(["C", "C", "C", "C", "open", "open", "open", "E"])})
        else:
            pool.append({"kind": "hot"})
    outer = {"prefix": [rng.randrange(npool) for _ in range(rng.choice([0, 0, 0, 1, 2, 3, 4]))],
             "end": rng.choice(["open", "open", "open", "open", "C", "C", "E"])}
    if outer["end"] == "E" and rng.random() < 0.7:
        outer["end"] = "open"
    n = rng.randint(2, 14)
    script = []
    outer_over = outer["end"] != "open"
    while len(script) < n:
        late = len(script) >= n // 2
        r = rng.random()
        m = rng.randrange(npool)
        if outer_over or (late and rng.random() < 0.5):          # later: mostly the members' ends
            r = 0.40 + rng.random() * 0.6
        if r < 0.40:
            script.append(["outer", rng.randrange(npool)])
        elif r < 0.58:
            script.append(["push", m, rng.choice(_SX_VALUES)])
        elif r < 0.82:
            script.append(["complete", m])
        elif r < 0.86:
            script.append(["error", m])
        elif not late:
            script.append(["push", m, rng.choice(_SX_VALUES)])
        elif r < 0.95:
            script.append(["outer_complete"])
            outer_over = True
        elif r < 0.97:
            script.append(["outer_error"])
            outer_over = True
        else:
            script.append(["dispose"])
    return {"op": op, "mc": mc, "pool": pool, "outer": outer, "script": script}


def _sx_run_impl(case):
    """Drive the real operator: -> (notifications [(step, kind, payload)], log [(step, 'sub'|'unsub', member)],
    description of what is still subscribed at the end)."""
    import reactivex as rx
    from reactivex import operators as ops
    from reactivex.disposable import Disposable
    from reactivex.subject import Subject
    op, mc, pool, script = case["op"], case["mc"], case["pool"], case["script"]
    step = [-1]
    log, notes = [], []
    live = {}

    def logged(m, inner_dispose):
        log.append((step[0], "sub", m))
        live[m] = live.get(m, 0) + 1

        def dispose():
            log.append((step[0], "unsub", m))
            live[m] -= 1
            inner_dispose()
        return Disposable(dispose)          # Disposable runs its action once

    class LoggedSubject(Subject):
        def __init__(self, m):
            super().__init__()
            self.m = m

        def _subscribe_core(self, observer, scheduler=None):
            holder = []
            d = logged(self.m, lambda: holder[0].dispose())
            holder.append(super()._subscribe_core(observer, scheduler))
            return d

    class Cold:
        def __init__(self, m, spec):
            self.m, self.spec, self.subs = m, spec, []
            self.err_name = "outer" if m == "outer" else f"member{m}"
            self.observable = rx.Observable(self.subscribe)

        def subscribe(self, observer, scheduler=None):
            rec = [observer]
            d = logged(self.m, lambda: self.subs.remove(rec) if rec in self.subs else None)
            self.subs.append(rec)
            for v in self.spec["prefix"]:
                observer.on_next(v)
            if self.spec["end"] == "C":
                observer.on_completed()
            elif self.spec["end"] == "E":
                observer.on_error(Exception(self.err_name))
            return d

        def on_next(self, v):
            for rec in list(self.subs):
                rec[0].on_next(v)

        def on_completed(self):
            for rec in list(self.subs):
                rec[0].on_completed()

        def on_error(self, e):
            for rec in list(self.subs):
                rec[0].on_error(e)

    members = [LoggedSubject(m) if s["kind"] == "hot" else Cold(m, s) for m, s in enumerate(pool)]
    inner = [x if isinstance(x, Subject) else x.observable for x in members]
    outer = Cold("outer", {"prefix": case["outer"]["prefix"], "end": case["outer"]["end"]})
    src = outer.observable
    if op == "flat_map":
        o = src.pipe(ops.flat_map(lambda j: inner[j]))
    elif op == "flat_map_indexed":
        o = src.pipe(ops.flat_map_indexed(lambda j, _i: inner[j]))
    elif op == "map+merge_all":
        o = src.pipe(ops.map(lambda j: inner[j]), ops.merge_all())
    elif op == "concat_map":
        o = src.pipe(ops.concat_map(lambda j: inner[j]))
    elif op == "map+merge(max_concurrent)":
        o = src.pipe(ops.map(lambda j: inner[j]), ops.merge(max_concurrent=mc))
    else:
        raise AssertionError(op)
    sub = o.subscribe(lambda v: notes.append((step[0], "N", v)),
                      lambda e: notes.append((step[0], "E", str(e))),
                      lambda: notes.append((step[0], "C", None)))
    for k, st in enumerate(script):
        step[0] = k
        try:
            if st[0] == "outer":
                outer.on_next(st[1])
            elif st[0] == "push":
                members[st[1]].on_next(st[2])
            elif st[0] == "complete":
                members[st[1]].on_completed()
            elif st[0] == "error":
                members[st[1]].on_error(Exception(f"member{st[1]}"))
            elif st[0] == "outer_complete":
                outer.on_completed()
            elif st[0] == "outer_error":
                outer.on_error(Exception("outer"))
            elif st[0] == "dispose":
                sub.dispose()
            else:
                raise AssertionError(st)
        except AssertionError:
            raise
        except Exception as e:                      # the script's calls never raise on a correct tree
            notes.append((k, "RAISED", repr(e)))
    held = [f"{'member ' + str(m) if m != 'outer' else 'outer'} x{c}" for m, c in live.items() if c]
    return notes, log, held


def _sx_reference(case):
    """The property text, executed: -> (notifications, log, finished?, facts about the case).
    Reading: the output carries the elements of the subscribed inner sequences, each at the moment the inner
    delivers it; an arriving inner is subscribed at once unless max_concurrent inners are subscribed, in which
    case it waits; when a subscribed inner completes the longest-waiting one is subscribed; the first error
    (outer or subscribed inner) ends everything; completion once the outer has completed and no inner is
    subscribed or waiting; after the end / a dispose nothing is subscribed."""
    pool, mc, script = case["pool"], case["mc"], case["script"]
    notes, log = [], []
    hot = {m: "open" for m, s in enumerate(pool) if s["kind"] == "hot"}
    running, queue = [], []
    S = {"step": -1, "outer_done": False, "outer_live": False, "finished": False}
    facts = set()
    arrived = []

    def release():
        S["finished"] = True
        for r in running:
            if r["live"]:
                r["live"] = False
                log.append((S["step"], "unsub", r["m"]))
        del running[:]
        del queue[:]
        if S["outer_live"]:
            S["outer_live"] = False
            log.append((S["step"], "unsub", "outer"))

    def finish(kind, payload):
        notes.append((S["step"], kind, payload))
        release()

    def inner_completed(r):
        r["live"] = False
        log.append((S["step"], "unsub", r["m"]))
        running.remove(r)
        if queue:
            facts.add("queued_inner_started")
            start(queue.pop(0))
        elif S["outer_done"] and not running:
            facts.add("completed_by_last_inner")
            finish("C", None)

    def start(m):
        r = {"m": m, "live": True}
        if any(x["m"] == m for x in running):
            facts.add("same_inner_subscribed_twice_at_once")
        running.append(r)
        log.append((S["step"], "sub", m))
        spec = pool[m]
        if spec["kind"] == "cold":
            for v in spec["prefix"]:
                notes.append((S["step"], "N", v))
            ending = spec["end"]
        else:
            ending = hot[m]
        if ending == "C":
            facts.add("inner_completes_inside_subscribe")
            inner_completed(r)
        elif ending == "E":
            facts.add("inner_fails_inside_subscribe")
            finish("E", f"member{m}")

    def arrive(m):
        if m in arrived:
            facts.add("same_inner_object_again")
        arrived.append(m)
        if mc is None or len(running) < mc:
            start(m)
        else:
            queue.append(m)
            if len(queue) >= 3:
                facts.add("three_or_more_waiting")

    def outer_completed():
        S["outer_done"] = True
        if S["outer_live"]:
            S["outer_live"] = False
            log.append((S["step"], "unsub", "outer"))
        if not running:
            facts.add("completed_by_outer")
            finish("C", None)

    # subscribe(): the outer is subscribed and may deliver everything at once
    S["outer_live"] = True
    log.append((-1, "sub", "outer"))
    for j in case["outer"]["prefix"]:
        if S["finished"]:
            break
        facts.add("outer_emits_inside_subscribe")
        arrive(j)
    if not S["finished"]:
        if case["outer"]["end"] == "C":
            outer_completed()
        elif case["outer"]["end"] == "E":
            S["outer_done"] = True
            finish("E", "outer")
    for k, st in enumerate(script):
        S["step"] = k
        if st[0] in ("complete", "error") and st[1] in hot and hot[st[1]] == "open":
            hot[st[1]] = "C" if st[0] == "complete" else "E"      # a Subject remembers, whoever listens
            was_open = True
        elif st[0] in ("push", "complete", "error"):
            was_open = hot.get(st[1], "open") == "open"            # a terminated Subject stays silent
        if S["finished"]:
            continue
        if st[0] == "outer":
            if not S["outer_done"]:
                arrive(st[1])
        elif st[0] == "outer_complete":
            if not S["outer_done"]:
                outer_completed()
        elif st[0] == "outer_error":
            if not S["outer_done"]:
                S["outer_done"] = True
                facts.add("outer_error")
                finish("E", "outer")
        elif st[0] == "dispose":
            facts.add("disposed")
            release()
        else:
            mine = [r for r in running if r["m"] == st[1]]           # the member's live subscriptions, oldest first
            if not was_open or not mine:
                continue
            if st[0] == "push":
                for r in mine:
                    notes.append((k, "N", st[2]))
            elif st[0] == "complete":
                for r in mine:
                    if r["live"] and not S["finished"]:
                        inner_completed(r)
            elif st[0] == "error":
                facts.add("inner_error_later")
                finish("E", f"member{st[1]}")
    return notes, log, S["finished"], facts


def _sx_check(case):
    """None if the implementation agrees with the reference, else (kind, text, got, expected)."""
    e_notes, e_log, e_finished, _ = _sx_reference(case)
    status, res = lib.with_timeout(10, _sx_run_impl, case)
    key = lambda x: (x[0], x[1], str(x[2]))
    exp = {"notifications (step, kind, payload)": [list(x) for x in e_notes],
           "subscriptions (step, what, member)": [list(x) for x in sorted(e_log, key=key)]}
    if status != "ok":
        return ("timeout", "the script did not finish in 10 s", None, exp)
    notes, log, held = res
    got = {"notifications (step, kind, payload)": [list(x) for x in notes],
           "subscriptions (step, what, member)": [list(x) for x in sorted(log, key=key)],
           "still subscribed at the end": held}
    # repr: 0 / False / 0.0 are different elements.  The order among the subscribe / unsubscribe events of ONE step
    # is left open by the statement: the logs are compared as per-step multisets.
    if repr(notes) != repr(e_notes):
        i = next((i for i, (a, b) in enumerate(zip(notes, e_notes)) if repr(a) != repr(b)),
                 min(len(notes), len(e_notes)))
        return ("notifications", f"subscriber's notification #{i}: got {notes[i] if i < len(notes) else 'nothing'}, "
                f"expected {e_notes[i] if i < len(e_notes) else 'nothing'}", got, exp)
    if sorted(log, key=key) != sorted(e_log, key=key):
        # The statement is silent about what happens INSIDE the step in which the output ended: a source that
        # keeps delivering from within its own subscribe() call after the subscriber's terminal can make the
        # operator open further inner subscriptions, which are released again before the step is over.  Such
        # balanced subscribe/unsubscribe pairs in the final step are accepted; everything else must agree.
        from collections import Counter
        g, e = Counter((a, b, str(c)) for a, b, c in log), Counter((a, b, str(c)) for a, b, c in e_log)
        missing, extra = e - g, g - e
        end_step = max((x[0] for x in e_log), default=-1) if e_finished else None
        bal = Counter()
        for (stp, what, m), c in extra.items():
            bal[(stp, m)] += c if what == "sub" else -c
        if missing or not e_finished or any(x[0] != end_step for x in extra) or any(bal.values()):
            return ("subscriptions", "subscribe/unsubscribe log differs", got, exp)
    if e_finished and held:
        return ("leak", f"still subscribed after the subscriber's end: {held}", got, exp)
    return None


def _sx_shrink(case, kind):
    """Greedy: drop script steps / outer prefix elements / member prefix elements while the same kind of mismatch
    remains."""
    import copy
    case = copy.deepcopy(case)
    again = True
    while again:
        again = False
        cands = []
        for i in range(len(case["script"])):
            c = copy.deepcopy(case)
            del c["script"][i]
            cands.append(c)
        for i in range(len(case["outer"]["prefix"])):
            c = copy.deepcopy(case)
            del c["outer"]["prefix"][i]
            cands.append(c)
        for m, s in enumerate(case["pool"]):
            for i in range(len(s.get("prefix", []))):
                c = copy.deepcopy(case)
                del c["pool"][m]["prefix"][i]
                cands.append(c)
        for c in cands:
            bad = _sx_check(c)
            if bad and bad[0] == kind:
                case, again = c, True
                break
    return case


def sync_exact_scenarios(chk):
    n = 800 if chk.tier == "quick" else 8000
    hist, fact_hist = {}, {}
    nontrivial = set()
    shrunk, worst = {}, {}
    for _ in range(n):
        case = _sx_gen(chk.rng)
        chk.cov["evaluations"] += 1
        e_notes, _, _, facts = _sx_reference(case)
        key = case["op"] + (f"={case['mc']}" if case["op"].endswith(")") else "")
        hist[key] = hist.get(key, 0) + 1
        for f in facts:
            fact_hist[f] = fact_hist.get(f, 0) + 1
        bad = _sx_check(case)
        if bad:
            sig = f"C11|sync_exact|{case['op']}|{bad[0]}"
            if shrunk.get(sig, 0) < 3:                 # minimise the first few per signature, keep the smallest
                shrunk[sig] = shrunk.get(sig, 0) + 1
                case = _sx_shrink(case, bad[0])
                bad = _sx_check(case)
                facts = _sx_reference(case)[3]
            size = len(case["script"]) + len(case["outer"]["prefix"])
            if sig in worst and worst[sig][2] <= size:
                continue
            worst[sig] = (sig,
                          {"family": "sync_exact_scenarios", "case": case, "mismatch": bad[0], "what": bad[1],
                           "got": bad[2], "expected": bad[3], "facts": sorted(facts),
                           "legend": "pool[j] is the inner the projection returns for outer element j (same object "
                                     "every time); cold: every subscription gets the prefix inside subscribe(), then "
                                     "C / E / stays open for the script's push|complete|error; hot: a Subject.  The "
                                     "outer delivers its prefix (and end) inside subscribe() = step -1; script steps "
                                     "are numbered from 0; 'expected' is the property text executed directly"},
                          size)
        elif len(e_notes) >= 2 and ("inner_completes_inside_subscribe" in facts or "same_inner_object_again" in facts):
            nontrivial.add(repr(case))
    for sig, rep, size in worst.values():              # the smallest failing case per signature
        chk.violation(sig, rep, size=size)
    return nontrivial, hist, fact_hist


# =====================================================================================================
# Family 2: library_source_scenarios
# =====================================================================================================
# case = {"op", "mc", "scheduler": "trampoline" | "immediate", "outer": {"kind": "of" | "subject", "end": "C" |
#         "open" | "E"}, "arrivals": [i...], "inners": [spec...]}
#   arrivals: the outer's elements; element i is projected to inners[i] (the same object whenever i repeats)
#   inner spec: {"kind": "of" | "empty" | "throw" | "never" | "of+throw" | "of+never" | "done_subject" | "list" |
#                "generator" | "future" | "failed_future", "n": number of elements}
#   inner i's elements are 100 * i + 0, 1, ...
_LS_OPS = [("flat_map", None), ("flat_map", None), ("flat_map_indexed", None), ("flat_map(observable)", None),
           ("map+merge_all", None), ("concat_map", 1), ("map+merge(max_concurrent)", 1),
           ("map+merge(max_concurrent)", 2), ("map+merge(max_concurrent)", 3)]
_LS_END = {"of": "C", "empty": "C", "throw": "E", "never": "open", "of+throw": "E", "of+never": "open",
           "done_subject": "C", "list": "C", "generator": "C", "future": "C", "failed_future": "E"}


def _ls_gen(rng):
    op, mc = rng.choice(_LS_OPS)
    kinds = ["of", "of", "of", "empty", "throw", "never", "of+throw", "of+never", "done_subject"]
    if op in ("flat_map", "flat_map_indexed"):
        kinds += ["list", "list", "generator", "future", "failed_future"]
    if op == "map+merge_all":
        kinds += ["future", "failed_future"]
    ninner = 1 if op == "flat_map(observable)" else rng.choice([1, 2, 3, 3, 4])
    inners = []
    for i in range(ninner):
        kind = rng.choice(kinds)
        if rng.random() < 0.35:
            kind = rng.choice(["of", "list"] if "list" in kinds else ["of"])
        if op == "flat_map(observable)":
            # also a CONSTANT ITERABLE (documented form flat_map(iterable)), the empty -- falsy -- one included
            kind = rng.choice(["of", "of", "empty", "of+throw", "of+never", "throw", "never", "list", "list"])
        n = 0 if kind in ("empty", "throw", "never", "done_subject", "failed_future") else \
            1 if kind == "future" else rng.choice([0, 0, 1, 2, 3]) if kind == "list" else rng.choice([1, 2, 3])
        inners.append({"kind": kind, "n": n})
    narr = rng.choice([0, 1, 2, 3, 4, 5])
    arrivals = []
    for _ in range(narr):
        i = rng.randrange(ninner)
        if inners[i]["kind"] == "generator" and i in arrivals:     # a generator object can be consumed once
            continue
        arrivals.append(i)
    return {"op": op, "mc": mc, "scheduler": rng.choice(["trampoline", "immediate"]),
            "outer": {"kind": rng.choice(["of", "of", "subject"]),
                      "end": rng.choice(["C", "C", "C", "C", "open", "open", "E"])},
            "arrivals": arrivals, "inners": inners}


def _ls_seq(i, spec):
    return [100 * i + x for x in range(spec["n"])]


def _ls_run_impl(case):
    """-> (notifications [(kind, payload)], log [(what, inner index)] in real order)"""
    import concurrent.futures
    import reactivex as rx
    from reactivex import operators as ops
    from reactivex.disposable import Disposable
    from reactivex.scheduler import ImmediateScheduler
    from reactivex.subject import Subject
    op, mc = case["op"], case["mc"]
    log, notes = [], []

    def wrap(i, o):
        def subscribe(observer, scheduler=None):
            log.append(("sub", i))

            def on_c():
                log.append(("term", i))
                observer.on_completed()

            def on_e(e):
                log.append(("term", i))
                observer.on_error(e)
            d = o.subscribe(observer.on_next, on_e, on_c, scheduler=scheduler)

            def dispose():
                log.append(("unsub", i))
                d.dispose()
            return Disposable(dispose)
        return rx.Observable(subscribe)

    objs = []
    for i, sp in enumerate(case["inners"]):
        xs = _ls_seq(i, sp)
        err = Exception(f"inner{i}")
        k = sp["kind"]
        if k == "of":
            o = wrap(i, rx.of(*xs))
        elif k == "empty":
            o = wrap(i, rx.empty())
        elif k == "throw":
            o = wrap(i, rx.throw(err))
        elif k == "never":
            o = wrap(i, rx.never())
        elif k == "of+throw":
            o = wrap(i, rx.of(*xs).pipe(ops.concat(rx.throw(err))))
        elif k == "of+never":
            o = wrap(i, rx.of(*xs).pipe(ops.concat(rx.never())))
        elif k == "done_subject":
            s = Subject()
            s.on_completed()
            o = wrap(i, s)
        elif k == "list":
            o = list(xs)
        elif k == "generator":
            o = (x for x in xs)
        elif k in ("future", "failed_future"):
            o = concurrent.futures.Future()
            if k == "future":
                o.set_result(xs[0])
            else:
                o.set_exception(err)
        else:
            raise AssertionError(k)
        objs.append(o)
    arrivals = case["arrivals"]
    okind, oend = case["outer"]["kind"], case["outer"]["end"]
    subject = None
    if okind == "of":
        src = rx.of(*arrivals)
        if oend == "open":
            src = src.pipe(ops.concat(rx.never()))
        elif oend == "E":
            src = src.pipe(ops.concat(rx.throw(Exception("outer"))))
    else:
        subject = Subject()
        src = subject
    if op == "flat_map":
        o = src.pipe(ops.flat_map(lambda j: objs[j]))
    elif op == "flat_map_indexed":
        o = src.pipe(ops.flat_map_indexed(lambda j, _i: objs[j]))
    elif op == "flat_map(observable)":
        o = src.pipe(ops.flat_map(objs[0]))
    elif op == "map+merge_all":
        o = src.pipe(ops.map(lambda j: objs[j]), ops.merge_all())
    elif op == "concat_map":
        o = src.pipe(ops.concat_map(lambda j: objs[j]))
    elif op == "map+merge(max_concurrent)":
        o = src.pipe(ops.map(lambda j: objs[j]), ops.merge(max_concurrent=mc))
    else:
        raise AssertionError(op)
    sched = ImmediateScheduler() if case["scheduler"] == "immediate" else None
    def end(kind, payload):
        notes.append((kind, payload))
        log.append(("END", None))
    o.subscribe(lambda v: notes.append(("N", v)), lambda e: end("E", str(e)), lambda: end("C", None),
                scheduler=sched)
    if subject is not None:
        for j in arrivals:
            subject.on_next(j)
        if oend == "C":
            subject.on_completed()
        elif oend == "E":
            subject.on_error(Exception("outer"))
    return notes, log


def _ls_judge(case, notes, log):
    """direct reading of the statement on the recorded outcome: None or (kind, text, expectation)"""
    mc, inners, arrivals = case["mc"], case["inners"], case["arrivals"]
    seqs = [_ls_seq(i, sp) for i, sp in enumerate(inners)]
    ends = [_LS_END[sp["kind"]] for sp in inners]
    logged = [sp["kind"] not in ("list", "generator", "future", "failed_future") for sp in inners]
    kinds = "".join(k for k, _ in notes)
    import re
    if not re.match(r"^N*[EC]?$", kinds):
        return ("grammar", f"notification kinds {kinds}", "N* then at most one terminal")
    vals = [v for k, v in notes if k == "N"]
    term = next(((k, v) for k, v in notes if k in "EC"), None)
    # which arrivals get subscribed: all of them, or -- max_concurrent -- in arrival order while fewer than mc
    # subscribed inners never end; the first failing one (or a failing outer) ends everything.  `started` stops at
    # the first failing arrival (inclusive); `started_max` does not (an upper bound: under the trampoline later
    # arrivals may be subscribed before the failing one delivers its error)
    started, started_max, holders, failing = [], [], 0, case["outer"]["end"] == "E"
    first_fail = None
    for pos, i in enumerate(arrivals):
        if mc is not None and holders >= mc:
            break
        started_max.append(i)
        if first_fail is None:
            started.append(i)
        if ends[i] == "open":
            holders += 1
        elif ends[i] == "E" and first_fail is None:
            failing = True
            first_fail = pos
    # (1) only elements of subscribed inners, each inner's elements in order: the output restricted to inner object i
    #     is a shuffle of prefixes of its sequence, one per subscription
    for i in range(len(inners)):
        mine = [v for v in vals if isinstance(v, int) and v // 100 == i and v in seqs[i]]
        ptrs = [0] * (started_max if failing else started).count(i)
        for v in mine:
            idx = seqs[i].index(v)
            if idx in ptrs:
                ptrs[ptrs.index(idx)] += 1
            else:
                return ("order", f"element {v} of inner {i} out of order / more often than inner {i} was subscribed "
                        f"({len(ptrs)}x)", {"output": vals})
        if not failing and any(p != len(seqs[i]) for p in ptrs):
            return ("missing", f"inner {i} was subscribed {len(ptrs)}x but its elements arrived only up to {ptrs}",
                    {"output": vals})
    foreign = [v for v in vals if not (isinstance(v, int) and 0 <= v // 100 < len(inners) and v in seqs[v // 100])]
    if foreign:
        return ("foreign", f"elements {foreign} belong to no inner sequence", None)
    # (2) terminal
    if failing and first_fail is None and term is None and case["outer"]["end"] == "E":
        return ("terminal", "the outer failed but no error was delivered", "E")
    if first_fail is not None and (term is None or term[0] != "E"):
        return ("terminal", f"subscribed inner {arrivals[first_fail]} fails but the output got {term}", "E")
    if not failing:
        all_done = case["outer"]["end"] == "C" and holders == 0 and len(started) == len(arrivals)
        if all_done and (term is None or term[0] != "C"):
            return ("terminal", f"outer and all inners completed but the output got {term}", "C")
        if not all_done and term is not None:
            return ("terminal", f"terminal {term} although "
                    f"{'the outer is' if case['outer']['end'] != 'C' else 'an inner is'} still open", None)
    if term is not None and term[0] == "E":
        if not failing:
            return ("terminal", f"error {term} without a failing sequence", None)
    # (3) max_concurrent = 1 is the ordered concatenation
    if mc == 1 and case["outer"]["end"] != "E":
        exp = []
        for i in started:
            exp += seqs[i]
        if vals != exp:
            return ("concatenation", f"output {vals}, expected the ordered concatenation {exp}", exp)
    # (4) subscription discipline seen through the logging wrappers: start order = arrival order, at most mc inners
    #     subscribed-and-unfinished at any moment, nothing left subscribed after the terminal
    # (subscriptions opened and released again after the output's end -- a source still delivering from inside its
    # own subscribe() -- are left open by the statement: only their balance is checked)
    cut = next((n for n, (w, _) in enumerate(log) if w == "END"), len(log))
    subs = [i for (w, i) in log[:cut] if w == "sub"]
    want = [i for i in (started_max if failing else started) if logged[i]]
    if not failing and subs != want:
        return ("start-order", f"inners subscribed in the order {subs}, expected {want}", want)
    if failing and subs != want[:len(subs)]:
        return ("start-order", f"inners subscribed in the order {subs}, expected a prefix of {want}", want)
    active = 0
    bal = {}
    ended = False
    for (w, i) in log:
        if w == "END":
            ended = True
        if ended:
            if w in ("sub", "unsub"):
                bal[i] = bal.get(i, 0) + (1 if w == "sub" else -1)
            continue
        if w == "sub":
            active += 1
            bal[i] = bal.get(i, 0) + 1
        elif w == "term":
            active -= 1
        elif w == "unsub":
            bal[i] = bal.get(i, 0) - 1
        if mc is not None and active > mc and all(logged):
            return ("concurrency", f"{active} inner sequences subscribed and unfinished at once (max_concurrent={mc})",
                    None)
    if term is not None and any(bal.values()):
        return ("leak", f"still subscribed after the terminal: {[i for i, c in bal.items() if c]}", None)
    if term is None:
        open_now = sorted(i for i, c in bal.items() for _ in range(c))
        want_open = sorted(i for i in started if ends[i] == "open" and logged[i])
        if open_now != want_open:
            return ("open-set", f"inners still subscribed {open_now}, expected the unfinished ones {want_open}", None)
    return None


def _ls_check(case):
    status, res = lib.with_timeout(10, _ls_run_impl, case)
    if status != "ok":
        return ("timeout", "did not finish in 10 s", None, None)
    notes, log = res
    bad = _ls_judge(case, notes, log)
    if bad:
        return (bad[0], bad[1], {"notifications": [list(x) for x in notes], "wrapper log": [list(x) for x in log]},
                bad[2])
    return None


def library_source_scenarios(chk):
    n = 800 if chk.tier == "quick" else 8000
    hist, kinds = {}, {}
    nontrivial = set()
    worst = {}
    for _ in range(n):
        case = _ls_gen(chk.rng)
        chk.cov["evaluations"] += 1
        key = case["op"] + (f"={case['mc']}" if case["op"].endswith(")") and case["mc"] else "") + \
            f"/{case['scheduler']}/outer={case['outer']['kind']}:{case['outer']['end']}"
        hist[key] = hist.get(key, 0) + 1
        for i in set(case["arrivals"]):
            k = case["inners"][i]["kind"]
            kinds[k] = kinds.get(k, 0) + 1
        if len(set(case["arrivals"])) < len(case["arrivals"]):
            kinds["same_inner_object_again"] = kinds.get("same_inner_object_again", 0) + 1
        bad = _ls_check(case)
        if bad:
            sig = f"C11|library_sources|{case['op']}|{bad[0]}"
            size = len(case["arrivals"]) + sum(sp["n"] for sp in case["inners"])
            if sig in worst and worst[sig][2] <= size:
                continue
            worst[sig] = (sig, {"family": "library_source_scenarios", "case": case, "mismatch": bad[0],
                                "what": bad[1], "got": bad[2], "expected": bad[3],
                                "legend": "outer element i is projected to inners[i]; inner i's elements are "
                                          "100*i + 0, 1, ...; the wrapper log lists sub / term (terminal "
                                          "forwarded) / unsub per logged inner in real order"}, size)
        elif len(case["arrivals"]) >= 2:
            nontrivial.add(repr(case))
    for sig, rep, size in worst.values():
        chk.violation(sig, rep, size=size)
    return nontrivial, hist, kinds


_run_machines = run


def run(chk):
    chk_finish = chk.finish
    holder = {}

    def deferred_finish(*a, **kw):
        holder["args"] = (a, kw)
        return 0
    chk.finish = deferred_finish
    _run_machines(chk)
    chk.finish = chk_finish
    nt, hist, fact_hist = sync_exact_scenarios(chk)
    chk.cov["distinct_nontrivial"] += len(nt)
    chk.cov["sync_exact_scenarios"] = {"cases": sum(hist.values()), "distinct_nontrivial": len(nt),
                                       "per_operator": dict(sorted(hist.items())),
                                       "cases_with": dict(sorted(fact_hist.items()))}
    chk.cov["rule"] += ("; plus oracle-only scenarios (sync_exact_scenarios): flat_map / flat_map_indexed / "
                        "map+merge_all / concat_map / map+merge(max_concurrent=1..3) where the projection returns "
                        "members of a reused pool of 2-4 inner observables (logged cold sources that deliver a prefix "
                        "incl. falsy values and then complete / fail / stay open INSIDE subscribe(), and hot Subjects "
                        "whose termination is remembered), the outer itself may deliver 0-4 elements and its end "
                        "inside subscribe(); seeded scripts of outer emissions, member push/complete/error, outer "
                        "completion/error and dispose; notifications (with the script step) and the per-step "
                        "subscribe/unsubscribe log are compared with the property text executed directly; non-trivial "
                        "= agrees, >= 2 notifications, an inner completing inside subscribe() or a repeated inner object")
    nt, hist, kinds = library_source_scenarios(chk)
    chk.cov["distinct_nontrivial"] += len(nt)
    chk.cov["library_source_scenarios"] = {"cases": sum(hist.values()), "distinct_nontrivial": len(nt),
                                           "distinct_shapes": len(hist), "cases_with_inner_kind": dict(sorted(kinds.items()))}
    chk.cov["rule"] += ("; plus oracle-only scenarios (library_source_scenarios): the same operators and "
                        "flat_map(observable) over the library's own sources (of, empty, throw, never, of+throw, "
                        "of+never, completed Subject, resolved / failed Future) and lists / generators returned by the "
                        "projection (from_ conversion), outer = of(...) [+never | +throw] or a Subject, 0-5 arrivals "
                        "with repeated inner objects, on the default trampoline and on ImmediateScheduler; judged by "
                        "predicates read off the statement (per-inner order and multiplicity, terminal kind, ordered "
                        "concatenation for max_concurrent=1, start order = arrival order, at most max_concurrent "
                        "unfinished inners at once, nothing left subscribed after the terminal); non-trivial = "
                        "predicates hold and >= 2 arrivals")
    import c11_reent
    c11_reent.scenarios(chk)               # re-entrant family (fills chk.cov itself)
    a, kw = holder["args"]
    kw["trusted_extra"] = list(kw.get("trusted_extra", ())) + [
        "oracle-only family harness/c11_reent.py: hand-driven outer / hot probes and synchronous inner sources that "
        "count their own live subscriptions, reaction table executed inside the subscriber's on_next"]
    return chk.finish(*a, **kw)
