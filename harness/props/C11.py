"""C11 -- see DESIGN.md section 7/C11.  Machines: Ops/Combinators.v on the runner
Ops/Multi.v; tie: K2 multi-source port-level replay (harness/k2m.py); oracle:
harness/comb_oracle.py (direct reading of the property statement)."""
import comb_oracle
import comb_table
import lib

NAMES = {"C10": ["concat", "catch", "catch_handler", "on_error_resume_next", "repeat", "retry", "while_do", "do_while"],
         "C11": ["merge", "flat_map", "flat_map_indexed", "merge_all", "concat_map", "merge_mc"],
         "C12": ["switch_map", "switch_map_indexed", "flat_map_latest", "switch_latest"],
         "C13": ["zip", "combine_latest", "with_latest_from", "fork_join", "amb"]}["C11"]
ORACLE = getattr(comb_oracle, "oracle_" + "C11".lower())


def run(chk):
    chk.build_and_prove()
    comb_table.run_ops(chk, "C11", NAMES, ORACLE)
    chk.cov["rule"] = ("per operator: seeded instances (source counts 1-3, callback tables indexed by invocation, "
                       "20% raising) x seeded interleavings of hand-driven hot sources (0-4 elements each, "
                       "completion/error/none, 15% non-conforming tails, 15% with a dispose instant, same-instant "
                       "events); non-trivial = distinct (machine, delivered input sequence) with >= 2 emissions and "
                       "the oracle satisfied")
    chk.cov["operators_modelled"] = NAMES
    return chk.finish(trusted_extra=["multi-source K2 driver harness/k2m.py (hot sources, boundary log, canonical "
                                     "per-instant ordering of subscribe/unsubscribe events)",
                                     "runner assumption (Ops/Multi.v): the disposable an operator returns holds every "
                                     "subscription it opened -- checked here by comparing unsubscribe instants"])


def replay(chk, path):
    print(open(path).read())
    return 1
