"""C29 -- virtual-time runs always finish.

Theorems (Props/C29.v): every history without periodic work returns from every
start()/advance_to() (fuel = number of actions the history can enqueue suffices,
no deadlock), for numeric and datetime clocks; start() drains calm work; a drained
scheduler can be started again.  Tie (K1): families with 0..400 actions at one
instant (flat, self-rescheduling chains, mixed with later items, sleeping and
cancelling actions), driven by start() and by advance_to(), on
VirtualTimeScheduler / TestScheduler / HistoricalScheduler under a wall-clock
watchdog (lib.with_timeout, BaseException based); the model is evaluated on the
same histories and compared.  Oracle: the call returned, every non-cancelled
action ran exactly once, a second start() runs what was scheduled after the
first.

Added after the coverage audit: TestScheduler.start() ITSELF as the driver (drive
start_test: its three own items, then the inherited loop) with >= 102 actions at
one instant, and actions scheduled / rescheduling themselves INTO THE PAST
(families chain_past, flat_past; negative delays in the random bursts), which take
the same spin path because the clock cannot advance to a due time behind it."""
import json

import lib
import vt

IMPORTS = "Base.Prelude Core.VTime"
PRELUDE = """
Definition model (c : kind * Z * nat * list tcmd) : list oev :=
  let '(k, c0, fuel, h) := c in observe (run (Cfg k false) fuel (init c0) h).
"""
CASE_TY = "(kind * Z * nat * list tcmd) * list oev"
U = vt.US


def chain(n, when, first=0):
    """an action that reschedules itself n times"""
    body = []
    for i in range(n, 0, -1):
        body = [["sched", when, first + i, body]]
    return ["sched", when, first, body]


def family(mode, n, rng):
    if mode == "flat":
        return [["do", ["sched", ["now"], i, []]] for i in range(n)]
    if mode == "flat_abs":
        return [["do", ["sched", ["abs", 3 * U], i, []]] for i in range(n)]
    if mode == "chain":
        return [["do", chain(n, ["now"])]] if n else []
    if mode == "chain_rel0":
        return [["do", chain(n, ["rel", 0])]] if n else []
    if mode == "chain_past":
        # self-rescheduling INTO THE PAST (due = clock - 1 s): the clock cannot advance, same spin path
        return [["do", chain(n, ["rel", -U])]] if n else []
    if mode == "flat_past":
        # n actions due before the current clock (relative -1 s and absolute 0 alternately)
        return [["do", ["sched", ["rel", -U] if i % 2 else ["abs", 0], i, []]] for i in range(n)]
    if mode == "mixed":
        return [["do", ["sched", ["rel", 0], i,
                        [["sched", ["rel", 500000], 10000 + i, []]] if i % 7 == 0 else
                        [["sleep", 0]] if i % 7 == 1 else
                        [["cancel", i + 3]] if i % 7 == 2 else
                        [["sched", ["now"], 20000 + i, []]] if i % 7 == 3 else []]] for i in range(n)]
    if mode == "flat_cancel_idle":
        # n actions sharing ONE due time, then -- the scheduler still idle -- the disposables of some of them
        # (never the first one scheduled) are disposed from the top level: exactly the others must run
        h = [["do", ["sched", ["abs", 3 * U], i, []]] for i in range(n)]
        for j in sorted({1, n // 2, n - 1} - {0}):
            if 0 < j < n:
                h.append(["do", ["cancel", j]])
        return h
    if mode == "two_instants":
        return ([["do", ["sched", ["abs", U], i, []]] for i in range(n)] +
                [["do", ["sched", ["abs", 2 * U], 5000 + i, []]] for i in range(n)])
    raise ValueError(mode)


def gen_cases(tier, rng):
    ns = [0, 1, 2, 50, 99, 100, 101, 102, 103, 104, 150, 201, 202, 203, 204, 205, 250, 303, 304, 400]
    modes = ["flat", "flat_abs", "chain", "chain_rel0", "mixed", "two_instants", "chain_past", "flat_past",
             "flat_cancel_idle"]
    if tier == "quick":
        ns = [0, 1, 100, 101, 102, 103, 204, 205, 400]
    small = [2, 3, 4, 7]
    out = []
    for world in vt.WORLDS:
        for mode in modes:
            for n in (ns + small if mode == "flat_cancel_idle" else ns):
                if mode == "two_instants" and n > 250:
                    continue
                # start_test = TestScheduler.start() itself (its own create/subscribe/dispose items at
                # 100 s / 200 s / 1000 s, then the inherited run loop)
                for drive in ("start", "advto") + (("start_test",) if world == "test" else ()):
                    if tier == "quick" and drive == "advto" and n not in (1, 102, 204) + tuple(small):
                        continue
                    if tier == "quick" and drive == "start_test" and n not in (101, 102, 205):
                        continue
                    if tier == "quick" and mode in ("chain_past", "flat_past") and n in (0, 100, 204):
                        continue
                    h = family(mode, n, rng)
                    h.append({"start": ["start"], "advto": ["advto", 5 * U], "start_test": ["start_test"]}[drive])
                    # a drained scheduler is started again
                    if mode == "flat_cancel_idle":
                        # ... with a same-instant batch of which the second is cancelled while the scheduler is idle
                        nh = n + (4 if drive == "start_test" else 0)       # TestScheduler.start() schedules its own items
                        if drive != "start_test":
                            h += [["do", ["sched", ["now"], 99997, []]], ["do", ["sched", ["now"], 99998, []]],
                                  ["do", ["cancel", nh + 1]]]
                    h += [["do", ["sched", ["now"], 99999, []]],
                          {"start": ["start"], "advto": ["advby", U], "start_test": ["start_test"]}[drive]]
                    out.append((world, rng.choice([0, 0, U, 12345]) if mode not in ("flat_abs", "flat_cancel_idle") else 0, h,
                                f"{mode}/{drive}", n))
    nr = 40 if tier == "quick" else 400
    for _ in range(nr):
        world = rng.choice(vt.WORLDS)
        unit = rng.choice([U, 1000, 1])
        past = rng.random() < 0.4          # also due times before the clock (relative delays < 0)
        g = vt.Gen(rng, unit=unit, allow=("cancel", "sleep"), max_depth=3, neg=past)
        h = []
        for _ in range(rng.randrange(1, 4)):
            k = rng.choice([3, 40, 101, 102, 120, 210])
            w = rng.choice([["now"], ["rel", 0], ["abs", unit * rng.randrange(0, 4)]] +
                           ([["rel", -unit], ["rel", -3 * unit]] if past else []))
            for _ in range(k):
                c = g.sched(2)
                c[1] = w
                h.append(["do", c])
            h.append(rng.choice([["start"], ["advby", 4 * unit], ["advto", 20 * unit]] +
                                ([["start_test"]] if world == "test" else [])))
        out.append((world, 0, h, "random", vt.hsize(h)))
    return out


def run(chk):
    proved = chk.build_and_prove()
    tier = chk.tier if proved and not chk.broken else "thorough"
    if tier != chk.tier:
        chk.cov["search"] = "theorem or build broke: scope enlarged to thorough"
    cases = gen_cases(tier, chk.rng)
    gal, failures, nontrivial = [], [], set()
    hist = {"world": {}, "family": {}, "actions_per_history": {"0-99": 0, "100-101": 0, "102-203": 0, ">=204": 0},
            "TestScheduler.start()_calls": 0, "TestScheduler.start()_with>=102_actions_pending": 0,
            "actions_scheduled_into_the_past": 0, "histories_with>=102_actions_scheduled_into_the_past": 0}
    hangs = {}
    kept = []
    for (world, c0, h, fam, n) in cases:
        if hangs.get(world, 0) >= 3:
            continue          # three hanging histories on this scheduler are reported; do not wait for more
        kept.append((world, c0, h, fam, n))
        obs, trace = vt.run_impl(world, c0, h, timeout=5.0)
        if obs and obs[-1] == ("hang",):
            hangs[world] = hangs.get(world, 0) + 1
        chk.cov["evaluations"] += 1
        hist["world"][world] = hist["world"].get(world, 0) + 1
        hist["family"][fam] = hist["family"].get(fam, 0) + 1
        size = vt.hsize(h)
        hist["actions_per_history"]["0-99" if size < 100 else "100-101" if size < 102 else
                                    "102-203" if size < 204 else ">=204"] += 1
        if size >= 102:
            nontrivial.add((world, fam, n, c0))
        npend, npast = 0, 0
        for e in trace:
            if e[0] == "sched":
                npend += 1
                npast += e[3] < e[4]
            elif e[0] == "run":
                npend -= 1
            elif e[0] == "top" and e[1] == "start_test":
                hist["TestScheduler.start()_calls"] += 1
                hist["TestScheduler.start()_with>=102_actions_pending"] += npend >= 102
        hist["actions_scheduled_into_the_past"] += npast
        hist["histories_with>=102_actions_scheduled_into_the_past"] += npast >= 102
        bad = vt.oracle_vt(world, trace)
        # everything scheduled ran exactly once (these families never stop or raise)
        sched = {e[1] for e in trace if e[0] == "sched"}
        cancelled = {e[1] for e in trace if e[0] == "cancel"}
        ran = [e[1] for e in trace if e[0] == "run"]
        if not any(e[0] == "hang" for e in trace) and fam != "random":
            idle_cancels = fam.startswith("flat_cancel_idle")     # every cancel precedes the run of its item
            if sorted(ran) != sorted(sched - cancelled) and (idle_cancels or not (sched & cancelled)):
                bad.append(("not-every-action-ran", f"scheduled {len(sched)} cancelled {len(sched & cancelled)} "
                                                    f"ran {len(ran)}: missing {sorted(sched - cancelled - set(ran))[:5]}"))
            if len(ran) != len(set(ran)):
                bad.append(("action-ran-twice", ""))
        for sig, detail in bad:
            failures.append((size, sig, world, c0, h, fam, n, obs[-4:], detail))
        gal.append((f"({vt.KIND[world]}, {vt.gz(c0)}, {size}%nat, {vt.g_history(h)})", vt.g_obs(obs)))
    cases = kept
    if hangs:
        chk.notes.append(f"hanging histories per scheduler (search cut after 3): {hangs}")
    failures.sort(key=lambda f: f[0])
    seen = set()
    for size, sig, world, c0, h, fam, n, tail, detail in failures:
        if sig == "advance_to-target-equals-clock":
            continue                                     # C28's recorded finding; not this property
        key = (sig, world)
        if key in seen:
            continue
        seen.add(key)
        chk.violation(f"{sig}|{world}|{fam}", {"world": world, "c0": c0, "family": fam, "n": n, "history": h,
                                                "last_observations": tail, "what_failed": detail,
                                                "expected": "start()/advance_to() return after running every "
                                                            "scheduled action"}, size=size)
    bad, logs = lib.correspondence("C29", "corr", IMPORTS, CASE_TY, "model", "(list_eqb oev_eqb)", gal,
                                   prelude=PRELUDE, shard=12)
    chk.cov["traces_validated_against_impl"] = len(gal)
    chk.cov["disagreements_checked"] = len(gal)
    if bad:
        firsts = [i for i in bad if i >= 0][:3]
        chk.tie_broken("correspondence: Core/VTime.v run vs real scheduler (many same-instant actions)",
                       {"n_disagreements": len(bad), "logs": [l[-1500:] for l in logs[:1]],
                        "first_cases": [{"world": cases[i][0], "c0": cases[i][1], "family": cases[i][3],
                                         "n": cases[i][4]} for i in firsts]})
    chk.cov["distinct_nontrivial"] = len(nontrivial)
    chk.cov["rule"] = ("families flat / flat_abs / chain (self-rescheduling at the current time) / chain_rel0 / mixed "
                       "(later items, sleeping, cancelling, nested) / two_instants / chain_past (self-rescheduling "
                       "with delay -1 s, i.e. into the past) / flat_past (n actions due before the clock) with n in "
                       "0..400 same-instant actions around the spin thresholds 101/102 and 203/204, driven by "
                       "start(), by advance_to() and -- on TestScheduler -- by TestScheduler.start() itself "
                       "(start_test), each followed by a restart with the same driver; on VirtualTimeScheduler, "
                       "TestScheduler and HistoricalScheduler (datetime clock), initial clocks 0, 1 s, 12345 us; "
                       "plus random bursts (40 % with negative delays, TestScheduler.start() among the drivers).  "
                       "non-trivial = distinct (world, family, n, c0) with at least 102 actions (spin bump reached)")
    chk.cov["input_distribution"] = hist
    chk.add_samples([{"world": c[0], "c0": c[1], "family": c[3], "n": c[4]} for c in cases[::max(1, len(cases) // 6)]])
    return chk.finish(
        trusted_extra=["Core/VTime.v hand-written model (validated by this run's correspondence)",
                       "wall-clock watchdog lib.with_timeout (SIGALRM raising a BaseException) of 5 s per history"],
        assumptions=["no periodic work in the history (an undisposed periodic action keeps start() running by design)",
                     "single thread"])


def replay(chk, path):
    d = json.load(open(path))
    if "history" not in d:
        print(json.dumps(d, indent=1))
        return 1
    obs, trace = vt.run_impl(d["world"], d["c0"], d["history"], timeout=5.0)
    bad = vt.oracle_vt(d["world"], trace)
    print("world", d["world"], "family", d.get("family"), "n", d.get("n"), "last observations", obs[-4:])
    bad = [b for b in bad if b[0] != "advance_to-target-equals-clock"]      # C28's recorded finding
    sched = {e[1] for e in trace if e[0] == "sched"}
    cancelled = {e[1] for e in trace if e[0] == "cancel"}
    ran = [e[1] for e in trace if e[0] == "run"]
    if not any(e[0] == "hang" for e in trace) and d.get("family") != "random":
        idle_cancels = str(d.get("family")).startswith("flat_cancel_idle")
        if sorted(ran) != sorted(sched - cancelled) and (idle_cancels or not (sched & cancelled)):
            bad.append(("not-every-action-ran", f"scheduled {len(sched)} cancelled {len(sched & cancelled)} "
                                                f"ran {len(ran)}: missing {sorted(sched - cancelled - set(ran))[:5]}"))
        if len(ran) != len(set(ran)):
            bad.append(("action-ran-twice", ""))
    for sig, detail in bad:
        print("FAILS", sig, detail)
    if bad:
        print(f"VIOLATION property=C29 replay={path}")
    return 1 if bad else 0
