"""C16 -- rate-limiting operators (DESIGN.md section 7/C16).  Machines: Ops/Timed.v on
the runner Ops/Multi.v; closed-world theorems over the timer-firing simulator
Ops/TimedSim.v (Props/C16.v); tie: K2 multi-source port-level replay with the
proxy scheduler (harness/k2m.py, harness/timed_table.py); oracle: below, a
direct reading of the property statement on the implementation's log."""
import sched_prec as sp
import timed_extra as te
import timed_table as tt
from timed_table import view, common_timed, elems, terminal, src_view
from k2 import err_id

NAMES = ["debounce", "throttle_with_timeout", "throttle_first", "throttle_with_mapper", "sample_observable",
         "sample_time"]
INF = float("inf")


def o_debounce(inst, res, v):
    d = inst["spec"][1]
    el, term = src_view(v)
    disp = v["dispose_time"] if v["dispose_time"] is not None else INF
    must, may = [], []          # (time, value) that MUST be emitted / MAY additionally be emitted
    for j, (t, tag, x) in enumerate(el):
        due = t + d
        if j + 1 < len(el):                       # a newer element follows
            nxt = el[j + 1][0]
            cut = min(nxt, disp)
            if due < cut:
                must.append((due, x))
            elif due == cut:
                may.append((due, x))              # newer element / dispose exactly at the due time: open
        elif term is not None and term[2] == "C":
            when = min(due, term[0])              # timer, or flush on completion -- whichever comes first
            if when < disp or (when == term[0] and term[0] <= disp):
                must.append((when, x))
            elif when == disp:
                may.append((when, x))
        else:
            cut = min(term[0] if term is not None else INF, disp)
            if due < cut:
                must.append((due, x))
            elif due == cut:
                may.append((due, x))
    got = elems(v["em"])
    rest = list(got)
    for m in must:
        if m not in rest:
            return f"debounce({d}): {m} (time, value) not emitted; emitted {got}; source {[(t, x) for t, _, x in el]} terminal {term}"
        rest.remove(m)
    for r in rest:
        if r not in may:
            return f"debounce({d}): {r} (time, value) emitted but a newer notification arrived within the due time; source {[(t, x) for t, _, x in el]} terminal {term}"
        may.remove(r)
    if got != sorted(got, key=lambda e: e[0]):
        return f"debounce({d}): emissions out of order {got}"
    t = terminal(v["em"])
    if (term is not None) != (t is not None) or (t and (t[0], t[1]) != (term[0], term[2])):
        return f"debounce({d}): source terminal {term}, subscriber got {t}"
    return None


def o_throttle_first(inst, res, v):
    w = inst["spec"][1]
    el, term = src_view(v)
    exp, last = [], None
    for (t, tag, x) in el:
        if last is None or t - last >= w:        # at least the window has passed since the last EMITTED one
            exp.append((t, x))
            last = t
    got = elems(v["em"])
    if got != exp:
        return f"throttle_first({w}): emitted {got}, expected {exp} from {[(t, x) for t, _, x in el]}"
    t = terminal(v["em"])
    if (term is not None) != (t is not None) or (t and (t[0], t[1]) != (term[0], term[2])):
        return f"throttle_first({w}): source terminal {term}, subscriber got {t}"
    return None


def o_throttle_with_mapper(inst, res, v):
    ent = inst["spec"][1]
    exp = []
    pending = None          # (throttle source, element)
    ncalls = 0
    for (t, tag, k, ev) in v["acc"]:
        if exp and exp[-1][1] in "EC":
            break
        if k == 0:
            if ev[0] == "N":
                e = ent[ncalls] if ncalls < len(ent) else ("ok", None)
                if e[0] == "raise":
                    exp.append((tag, "E", e[1]))
                else:
                    pending = (1 + ncalls, ev[1])
                ncalls += 1
            elif ev[0] == "E":
                exp.append((tag, "E", err_id(ev[1])))
            else:
                if pending:
                    exp.append((tag, "N", pending[1]))     # flush on completion
                exp.append((tag, "C", None))
        else:
            if ev[0] == "E":
                exp.append((tag, "E", err_id(ev[1])))
            elif pending and pending[0] == k:              # its throttle observable fires
                exp.append((tag, "N", pending[1]))
                pending = None
    got = [(tag, a, err_id(b) if a == "E" else b) for (t, tag, a, b) in v["em"]]
    if got != exp:
        return f"throttle_with_mapper: emissions (input position, kind, value) {got}, expected {exp}"
    # only the latest throttle observable is subscribed
    for st in v["steps"]:
        if len({k for k in st["live_after"] if k >= 1}) > 1:
            return f"throttle_with_mapper: two throttle observables subscribed after input {st['tag']}"
    return None


def o_sample(inst, res, v, p=None):
    """sampler ticks: accepted notifications (N or C) of source 1, or the periodic timer firings"""
    exp = []
    latest = None
    has = False
    at_end = False
    end_tag = None
    for st in v["steps"]:
        if st["tag"] == 0:
            continue
        if v["dispose_tag"] is not None and st["tag"] >= v["dispose_tag"]:
            break
        i = st["inp"]
        tick = False
        if i[0] == "src" and i[1] in st["live_before"]:
            if i[1] == 0:
                if i[2][0] == "N":
                    latest, has = i[2][1], True
                elif i[2][0] == "E":
                    exp.append((st["tag"], "E", err_id(i[2][1])))
                    break
                else:
                    at_end = True
            elif i[2][0] == "E":
                exp.append((st["tag"], "E", err_id(i[2][1])))
                break
            else:
                tick = True
        elif i[0] == "tick":
            tick = True
        if tick:
            if has:
                exp.append((st["tag"], "N", latest))       # the latest element not sampled yet
                has = False
            if at_end:
                exp.append((st["tag"], "C", None))
                break
    got = [(tag, a, err_id(b) if a == "E" else b) for (t, tag, a, b) in v["em"]]
    if got != exp:
        return f"sample: emissions (input position, kind, value) {got}, expected {exp}"
    if p is not None:
        ticks = [t - res.get("t0", 0) for t, i in res["inputs"] if i[0] == "tick"]   # time since subscription
        if ticks != [p * (j + 1) for j in range(len(ticks))]:
            return f"sample({p}): sampler ticks at {ticks}"
        # a tick is missing only if the run ended (terminal/dispose/horizon) before it was due
        end = min([t for (t, tag, a, b) in v["em"] if a in "EC"] +
                  ([v["dispose_time"]] if v["dispose_time"] is not None else []) + [res["horizon"]])
        if (len(ticks) + 1) * p < end:
            return f"sample({p}): no tick at {(len(ticks) + 1) * p} although the run went on until {end}"
    return None


def oracle(name, inst, res):
    v = view(res)
    c = common_timed(res, v)
    if c:
        return c
    if name in ("debounce", "throttle_with_timeout"):
        return o_debounce(inst, res, v)
    if name == "throttle_first":
        return o_throttle_first(inst, res, v)
    if name == "throttle_with_mapper":
        return o_throttle_with_mapper(inst, res, v)
    if name == "sample_observable":
        return o_sample(inst, res, v)
    return o_sample(inst, res, v, inst["spec"][1])


def feedback_scenarios(chk):
    """oracle-only: the subscriber feeds an element back into the source from inside its own on_next
    (sample with an observable sampler).  debounce, throttle_with_mapper and sample(period) ARE affected by
    feedback too (the pending flag used to be cleared after the downstream call, /repo af47396): they are
    covered by the families fb_debounce, fb_throttle_mapper and fb_sample_period of harness/timed_extra.py;
    throttle_first keeps no pending element."""
    from reactivex import operators as ops
    from reactivex.subject import Subject
    n = 80 if chk.tier == "quick" else 1000
    nontrivial = set()
    for _ in range(n):
        source, sampler = Subject(), Subject()
        out = []
        fb = {}                       # value -> value to push back re-entrantly when it is received
        for v in range(chk.rng.choice([1, 2, 3])):
            if chk.rng.random() < 0.7:
                fb[v * 10] = v * 10 + 1
        def on_next(v):
            out.append(v)
            if v in fb:
                source.on_next(fb[v])
        source.pipe(ops.sample(sampler)).subscribe(on_next)
        script = []
        for step in range(chk.rng.choice([3, 5, 8])):
            if chk.rng.random() < 0.5:
                script.append(("src", chk.rng.choice([0, 10, 20, 5, None])))
            else:
                script.append(("tick",))
        # reference: latest not-yet-sampled element is emitted at each tick; a fed-back element is simply the
        # newest element after that tick
        exp, latest, has = [], None, False
        for op in script:
            if op[0] == "src":
                latest, has = op[1], True
            elif has:
                has = False
                exp.append(latest)
                if latest in fb:
                    latest, has = fb[latest], True
        for op in script:
            if op[0] == "src":
                source.on_next(op[1])
            else:
                sampler.on_next(0)
        chk.cov["evaluations"] += 1
        if out != exp:
            chk.violation(f"C16|feedback|sample|{script}"[:120],
                          {"operator": "sample(sampler observable)", "script": script,
                           "feedback (received value -> value pushed back into the source)": fb,
                           "got": out, "expected": exp,
                           "oracle": "each sampler tick emits the latest not-yet-sampled element"}, size=len(script))
        elif len(exp) >= 2 and any(e in fb for e in exp):
            nontrivial.add(repr((script, fb)))
    return nontrivial


def run(chk):
    ok = chk.build_and_prove()
    # a broken proof / theorem file: enlarge the search for a failing input to the thorough scope
    tt.run_timed(chk, "C16", NAMES, oracle, ncase=None if ok else 2000)
    tt.closed_world(chk, "C16", NAMES)
    nt = feedback_scenarios(chk)
    chk.cov["distinct_nontrivial"] = chk.cov.get("distinct_nontrivial", 0) + len(nt)
    chk.cov["feedback_scenarios_nontrivial"] = len(nt)
    te.run_families(chk, "C16", {"fb_debounce": (300, 4000), "fb_throttle_mapper": (300, 4000),
                                 "twm_kinds": (300, 4000), "fb_sample_period": (150, 2000),
                                 "throttle_first_nonpositive": (40, 300)})
    # scheduler precedence (harness/sched_prec.py): operator scheduler vs subscribe-time scheduler vs default
    sp.run_family(chk, "C16", 400, 6000)
    chk.cov["rule"] = ("per operator: seeded instances (due times / windows / periods 0/5/10/20 ms as float seconds or "
                       "timedelta; scheduler passed to the operator or to subscribe; mapper tables indexed by "
                       "invocation, 12% raising) x seeded timelines of hand-driven hot sources on the proxy "
                       "scheduler's virtual clock (0-5 elements, gaps 0 / due-5 / due / due+5 / 2*due, bursts at one "
                       "instant, values incl. 0 and None, completion/error/none with a pending element, 10% "
                       "non-conforming tails, 15% with a dispose instant; the measured subscription happens at "
                       "proxy-clock reading 0/35/200/1000 ms and in 35% of the cases is the SECOND subscription of the "
                       "same observable object, after a warm-up subscription with its own timeline, fired timers and "
                       "dispose); non-trivial = distinct (machine, delivered input sequence) with >= 2 emissions and "
                       "the oracle satisfied.  Oracle-only families (cov.oracle_only_families; non-trivial = distinct "
                       "parameter sets with >= 2 notifications, a push having happened in the feedback families): "
                       "fb_debounce / fb_sample_period = debounce, throttle_with_timeout, sample(period) under "
                       "TestScheduler with a subscriber that pushes an element / completion / error back into the "
                       "source from inside on_next; fb_throttle_mapper = the same with hand-held throttle observables; "
                       "twm_kinds = throttle_with_mapper whose throttle observables fire inside subscribe(), are "
                       "hand-held, or are real timer(x)/empty()/of() under TestScheduler; throttle_first_nonpositive = "
                       "zero / negative windows (refused with nothing emitted, or everything passes); same-instant "
                       "orders the text leaves open are skipped as ties (counted)")
    chk.cov["rule"] += sp.RULE
    chk.cov["operators_modelled"] = NAMES
    return chk.finish(trusted_extra=[
        "multi-source K2 driver harness/k2m.py with its proxy scheduler (integer-millisecond virtual clock, records "
        "timers/cancels, fires the earliest due timer; source events first at equal instants) and "
        "harness/timed_table.py (instances, timelines)",
        "runner assumption (Ops/Multi.v): the disposable an operator returns holds every subscription and timer it "
        "opened -- checked here by comparing unsubscribe/cancel instants",
        "closed-world comparison (harness/timed_table.py: closed_world): hand-made hot sources whose notifications "
        "are queued before the subscription, under reactivex.testing.TestScheduler and HistoricalScheduler",
        "closed-world theorems are about Ops/TimedSim.v: every requested timer fires exactly at request time + "
        "clamped delay, source events first at equal instants (the proxy scheduler's policy)",
        "harness/timed_table.py run_case/warm_up: the warm-up subscription and the clock offset are applied inside "
        "the build callback handed to k2m.run_multi (the harness state is wiped as k2m does after its own warm-up)",
        "harness/timed_extra.py: oracle-only families with their own hand-made hot source, TestScheduler driver and "
        "references written from the property text (no Coq model behind them)",
        sp.TRUSTED],
        assumptions=["timelines are in integer milliseconds; datetime/timedelta arithmetic is exact on them",
                     "sample(period): runs are cut at a horizon of 3 periods after the last source event"])


def replay(chk, path):
    if sp.is_replay(path):
        return sp.replay("C16", path)
    if te.is_family_replay(path):
        return te.replay_family("C16", path)
    return tt.replay_cases("C16", oracle, path)
