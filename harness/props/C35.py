"""C35 -- periodic scheduling threads state, keeps the period and stops
(virtual-time part).

Theorems (Props/C35.v): on a fresh virtual-time scheduler schedule_periodic(p, f,
st0) followed by advance_to(t) calls f exactly at c0 + (k+1)p <= t with the state
returned by the previous call, until f raises or the subscription is disposed;
in EVERY history no call happens after the disposable was disposed, and a raising
call disposes it.  Tie (K1): (a) solo subscriptions for generated periods, action
tables (counting, cycling, raising at the k-th call, disposing themselves, and
calls that TAKE VIRTUAL TIME: the action sleeps 0 / a fraction of the period / the
period / more than the period, whole and fractional seconds), start
clocks and targets, advanced in one or several advance_to/advance_by steps, with
and without a canceller action at a generated dispose time; (b) random histories
mixing periodic subscriptions with ordinary actions; (c) the observables
reactivex.interval(p) and reactivex.timer(d, p) subscribed on the scheduler, with
observers that take virtual time (scheduler.sleep of 0, whole and fractional
seconds, sometimes more than the period),
compared with the model's periodic subscription (d == p) resp. with the unrolled
self-rescheduling chain (d != p).  All on VirtualTimeScheduler, TestScheduler,
HistoricalScheduler, and through CatchScheduler.  Oracle: an independent Python
computation of the expected calls (k-th call at (k+1) periods, state threading, stop
after raise / dispose) on the implementation's trace.
(d) NewThreadScheduler.schedule_periodic (its own loop on a dedicated thread):
model Core/NewThreadPeriodic.v, theorems C35_nt_* (state threading, the flag is
tested before every invocation -- also when nothing is waited for --, no invocation
at a later instant than a dispose(), dispose during an invocation makes it the last,
exact spacing max(period, duration), first call one period after scheduling).  Tie:
harness/ntpdrv.py drives the REAL loop with a controlled clock / threading.Event /
thread (baton between the loop thread and the main thread) over an exhaustive
single-record scope and seeded scripts (periods incl. 0, durations shorter / equal /
longer than the period, dispose before the first run / during a wait / before and
after the loop's test / during a run from inside and from another thread / twice,
raising invocations); the event trace is compared with the model inside Coq.  Oracle:
ntpdrv.oracle, the statement on the same logs.
The same driver, model and oracle run ThreadPoolScheduler.schedule_periodic (the inherited loop
started through ThreadPoolThread / executor.submit).
(e) EventLoopScheduler.schedule_periodic (own override), TimeoutScheduler (inherited generic
closure on threading.Timer), NewThreadScheduler and ThreadPoolScheduler under K3 with time
(harness/k3_time.py, eldrv.py, rtdrv.py): the subscribing thread, a stopping thread that
waits for the controlled clock, a clock thread and the loop / timer / worker threads under all
schedules up to a preemption bound + seeded random + fine-grained ones; direct, and through
reactivex.interval(p, scheduler=s).subscribe(f) / reactivex.interval(p).subscribe(f,
scheduler=s).  ORACLE ONLY (eldrv.periodic_oracle): tick k gets f^k(st0) (interval: k), ticks
never overlap, first tick >= call + period, consecutive ticks >= a period apart, no tick once a
dispose() returned before the previous tick ended or before the tick could be due, at most one
after any dispose(), none after a raise, keeps going until stopped.  Core/PeriodicRT.v proves the
arithmetic behind the lower bounds (C35_rt_*: next due time >= start + period for all clock
readings, spacing / k-th tick bound along any chain of not-early ticks); not tied to the code.
(c') half of the interval / timer(d, p) cases of (c) hand the scheduler to the FACTORY
(reactivex.interval(p, scheduler=s)) and subscribe without one.
(f) ORACLE ONLY (harness/timer_late.py): reactivex.timer(duetime, period) whose ticks run LATE by 0 / less than /
exactly / more than one / several periods (each -/+ eps): absolute datetime start times in the past, negative
relative due times (float / int / timedelta), other actions and observers that scheduler.sleep past one or more
ticks; VirtualTimeScheduler / TestScheduler / HistoricalScheduler, driven by start() / advance_to / advance_by.
Demanded (from "emit 0, 1, 2, ... once per period"): the values in order; no value before its due time; for
period > 0 never two values at one instant, value k+1 not earlier than one period after a lower bound of value
k's due time, and -- while subscribed -- not later than one period after value k was delivered unless the
scheduler was observed to be busy.  The choice of the next due time after a late tick is left open in between.
NOT covered: mainloop / asyncio schedulers; real thread scheduling delays and the wake-up
latency of Event.wait / Timer in exact-time claims (the K3 family only demands lower bounds)
-- the claim is partial."""
import hashlib
import json
import random
import time

import eldrv as E
import k3
import k3_time as kt
import lib
import ntpdrv
import rtdrv as R
import timer_late as TL
import vt

IMPORTS = "Base.Prelude Core.VTime Core.CatchSched Core.Periodic"
PRELUDE = """
Definition model (c : kind * Z * nat * list tcmd) : list oev :=
  let '(k, c0, fuel, h) := c in observe (run (Cfg k false) fuel (init c0) h).
"""
CASE_TY = "(kind * Z * nat * list tcmd) * list oev"
U = vt.US


def table_of(kind, n, e=1, sleeps=None):
    """sleeps: list of microsecond amounts; the call on state i sleeps sleeps[i % len] (counting tables)"""
    def nx(i, st):
        r = ["next", [], st]
        if sleeps:
            r.append(sleeps[i % len(sleeps)])
        return r
    if kind == "count":
        return [[[i, nx(i, i + 1)] for i in range(60)], ["raise", [], 99]]
    if kind == "cycle":
        return [[[i, nx(i, (i + 1) % n)] for i in range(n)], ["next", [], 0]]
    if kind == "raise":          # raises at the n-th call (0-based)
        return [[[i, nx(i, i + 1)] for i in range(n)], ["raise", [50 + n], e]]
    if kind == "disp":           # disposes its own subscription at the n-th call
        return [[[i, nx(i, i + 1)] for i in range(n)], ["disp", [60 + n]]]
    if kind == "jump":           # arbitrary state threading
        return [[[0, nx(0, 7)], [7, nx(1, -3)], [-3, nx(2, 7)]], ["next", [], 0]]
    raise ValueError(kind)


class Spec:
    """The statement, computed directly (never the model): a periodic subscription made at
    clock c0 has its first call due at c0 + p; a call starts when it is due (or, if the clock
    is already past that, at once), is handed the state returned by the previous call, and
    the next call is due ONE PERIOD AFTER THE START of this one however long it took
    (elapsed-time compensation); so calls are exactly p apart unless one takes longer than
    p.  No call after the action raised or the subscription was disposed.  A canceller
    action due at D competes by (due time, scheduling order) as C28 says."""

    def __init__(self, table, p, c0, st0, dispose_at=None):
        self.entries = {int(k): v for k, v in table[0]}
        self.default = table[1]
        self.p, self.clk, self.st = p, c0, st0
        self.due = c0 + p
        self.k = 0
        self.alive = True
        self.cancel_due = dispose_at      # canceller scheduled after the first call, before all later ones
        self.stuck = False
        self.calls, self.raised = [], []

    def advance_to(self, target):
        if self.stuck or target <= self.clk:
            return
        while True:
            tick = self.alive and self.due <= target
            canc = self.cancel_due is not None and self.cancel_due <= target
            if not tick and not canc:
                break
            if tick and canc:
                tick_first = self.due < self.cancel_due or (self.due == self.cancel_due and self.k == 0)
            else:
                tick_first = tick
            if not tick_first:
                self.clk = max(self.clk, self.cancel_due)
                self.cancel_due = None
                self.alive = False
                continue
            start = max(self.clk, self.due)
            self.calls.append((self.st, start))
            r = self.entries.get(self.st, self.default)
            self.clk = start
            if r[0] != "next":
                self.alive = False
                if r[0] == "raise":
                    self.raised.append(r[2])
                    self.stuck = True            # the exception leaves advance_to (see C29's note)
                    return
                continue
            self.clk = start + (r[3] if len(r) > 3 else 0)
            self.due = start + self.p
            self.st = r[2]
            self.k += 1
        self.clk = max(self.clk, target)

    def advance_by(self, d):
        self.advance_to(self.clk + d)


def oracle_periodic(trace, periods):
    """generic, for any history: per subscription, no call after dispose/raise, state
    threading cannot be checked without the table here (done in solo cases); the calls
    of one subscription are at least one period apart"""
    bad = []
    dead, last = set(), {}
    for ev in trace:
        if ev[0] == "pcancel":
            dead.add(ev[1])
        elif ev[0] == "raise" and ev[3] is not None:
            dead.add(ev[3])
        elif ev[0] == "tick":
            _, pid, st, clk = ev
            if pid in dead:
                bad.append(("periodic-called-after-dispose-or-raise", f"{ev}"))
            if pid in last and clk < last[pid] + periods[pid]:
                bad.append(("periodic-calls-closer-than-period", f"{ev} after call at {last[pid]}"))
            last[pid] = clk
    return bad


def solo_cases(tier, rng):
    out = []
    kinds = [("count", 0), ("cycle", 3), ("jump", 0), ("raise", 0), ("raise", 2), ("raise", 4), ("disp", 0), ("disp", 3)]
    periods = [1, 2, 3, 7] if tier == "quick" else [1, 2, 3, 5, 7, 10]
    for world in vt.WORLDS:
        for unit in ((U, 1000) if tier == "quick" else (U, 250000, 1000, 1)):
            for p in periods:
                for (kind, n) in kinds:
                    for c0 in (0, 200 * unit):
                        t_rel = rng.choice([p * 5, p * 5 + 1, p * 3 - 1, 1, p, 13])
                        P = p * unit
                        sl = rng.choice([None, None, "frac", "frac", "mixed", "over"])
                        sleeps = (None if sl is None else
                                  [P // 4, 0, P // 2, P, 3 * P // 4] if sl == "frac" else
                                  [250000, 2500000, 0, 1000000, P] if sl == "mixed" else
                                  [P // 2, P + P // 2, P // 4, 2 * P, 0])
                        tab = table_of(kind, n, e=rng.choice([0, 1, 2]), sleeps=sleeps)
                        mode = rng.choice(["one", "steps", "cancel", "catch"])
                        out.append((world, unit, c0, P, tab, 0, t_rel * unit, mode, kind + ("" if sl is None else "+sleep-" + sl)))
    return out


def build_solo(case, rng):
    world, unit, c0, p, tab, st0, t_rel, mode, kind = case
    h = [["do", ["periodic", p, tab, st0]]]
    dispose_at = None
    if mode == "cancel":
        d_rel = rng.choice([p, 2 * p, 2 * p + unit, 3 * p - unit, 1 * unit])
        dispose_at = c0 + d_rel
        h.append(["do", ["sched", ["abs", dispose_at], 0, [["pcancel", 0]]]])
    if mode == "steps":
        done = 0
        while done < t_rel:
            step = min(t_rel - done, rng.choice([unit, p, p + unit, 2 * p]))
            h.append(["advby", step])
            done += step
    else:
        h.append(["advto", c0 + t_rel])
    return h, dispose_at


def run(chk):
    proved = chk.build_and_prove()
    tier = chk.tier if proved and not chk.broken else "thorough"
    if tier != chk.tier:
        chk.cov["search"] = "theorem or build broke: scope enlarged to thorough"
    rng = chk.rng
    gal, failures, nontrivial = [], [], set()
    hist = {"world": {}, "solo_mode": {}, "table": {}, "calls": 0, "raised": 0, "disposed": 0,
            "random_histories": 0, "interval": 0, "timer_d_p": 0}

    def fail(size, sig, rep):
        failures.append((size, sig, rep))

    # ---- (a) solo subscriptions ------------------------------------------------
    for case in solo_cases(tier, rng):
        world, unit, c0, p, tab, st0, t_rel, mode, kind = case
        h, dispose_at = build_solo(case, rng)
        catch = {"-1": False, "0": False, "1": False, "2": False} if mode == "catch" else None
        obs, trace = vt.run_impl(world, c0, h, catch=catch, timeout=10.0)
        chk.cov["evaluations"] += 1
        hist["world"][world] = hist["world"].get(world, 0) + 1
        hist["solo_mode"][mode] = hist["solo_mode"].get(mode, 0) + 1
        hist["table"][kind] = hist["table"].get(kind, 0) + 1
        calls = [(e[2], e[3]) for e in trace if e[0] == "tick"]
        spec = Spec(tab, p, c0, st0, dispose_at)
        for tc in h:
            if tc[0] == "advto":
                spec.advance_to(tc[1])
            elif tc[0] == "advby":
                spec.advance_by(tc[1])
        exp, raised = spec.calls, (spec.raised[0] if spec.raised else None)
        hist["calls"] += len(calls)
        hist["calls_taking_time"] = hist.get("calls_taking_time", 0) + sum(1 for e in trace if e[0] == "sleep" and e[1] > 0)
        hist["overruns"] = hist.get("overruns", 0) + sum(1 for e in trace if e[0] == "sleep" and e[1] > p)
        hist["raised"] += raised is not None
        hist["disposed"] += dispose_at is not None
        if len(calls) >= 2:
            nontrivial.add(json.dumps([world, c0, h]))
        rep = {"world": world, "c0": c0, "history": h, "catch": catch, "calls (state, clock)": calls,
               "expected": exp, "expected_raise": raised}
        if calls != exp:
            fail(len(json.dumps(h)), "periodic-calls-differ-from-k-times-period",
                 dict(rep, what_failed=f"calls {calls[:6]} expected {exp[:6]}"))
        excs = [e[1] for e in trace if e[0] == "exc"]
        if (raised is not None) != bool(excs) or (excs and excs[0] != raised):
            fail(len(json.dumps(h)), "periodic-raise-not-propagated",
                 dict(rep, what_failed=f"escaping exceptions {excs}, expected {raised}"))
        for sig, detail in oracle_periodic(trace, {0: p}):
            fail(len(json.dumps(h)), sig, dict(rep, what_failed=detail))
        if mode != "catch":
            gal.append((f"({vt.KIND[world]}, {vt.gz(c0)}, 400%nat, {vt.g_history(h)})", vt.g_obs(obs)))
        else:
            gal.append((f"({vt.KIND[world]}, {vt.gz(c0)}, 400%nat, catch_history (fun _ => false) "
                        f"{vt.g_history(h)})", vt.g_obs(obs)))

    # ---- (b) random histories with periodic subscriptions -----------------------
    nr = 600 if tier == "quick" else 10000
    for _ in range(nr):
        world = rng.choice(vt.WORLDS)
        unit = rng.choice([U, 1000])
        g = vt.Gen(rng, unit=unit, allow=("cancel", "stop", "sleep", "pcancel", "note"), periodic_p=0.25,
                   raise_p=rng.choice([0.0, 0.05]), sleep_p=rng.choice([0.0, 0.5]))
        h = g.history(world, rng.randrange(2, 9), bounded_only=True)
        obs, trace = vt.run_impl(world, 0, h, timeout=10.0)
        chk.cov["evaluations"] += 1
        hist["random_histories"] += 1
        periods = {e[1]: e[2] for e in trace if e[0] == "periodic"}
        if sum(1 for e in trace if e[0] == "tick") >= 2:
            nontrivial.add(json.dumps([world, 0, h]))
        for sig, detail in oracle_periodic(trace, periods):
            fail(vt.hsize(h) * 100 + len(json.dumps(h)), sig,
                 {"world": world, "c0": 0, "history": h, "catch": None, "what_failed": detail})
        if any(e[0] == "hang" for e in trace):
            fail(len(json.dumps(h)), "hang", {"world": world, "c0": 0, "history": h, "catch": None,
                                              "what_failed": "no return within the watchdog"})
        gal.append((f"({vt.KIND[world]}, 0, 3000%nat, {vt.g_history(h)})", vt.g_obs(obs)))

    # ---- (c) interval / timer observables, with observers that take virtual time ---
    n_obs = 0
    hist["observable_scheduler_given_to"] = {}
    for world in vt.WORLDS:
        for (d, p, t_rel, disp) in [(3, 3, 16, None), (1, 1, 5, None), (2, 2, 9, 5), (5, 5, 4, None),
                                    (1, 3, 11, None), (4, 2, 13, None), (0, 2, 7, None), (2, 5, 30, 14)]:
            for c0 in (0, 200 * U):
                for sl in (None, "frac", "mixed"):
                    P = p * U
                    if sl is None:
                        sleeps = None
                    elif d != p:          # timer(d, p): observers that fit into the period
                        sleeps = [P // 4, 0, P // 2, 250000 if P >= 250000 else 0, P]
                    elif sl == "frac":
                        sleeps = [250000, P // 2, 0, 3 * P // 4, P]
                    else:                 # whole and fractional seconds, one overrun
                        sleeps = [P // 4, 2500000 if P >= 3 * U else P // 2, P + P // 2, 0, 1000000 if P >= U else 0]
                    via = "factory" if n_obs % 2 else "subscribe"
                    n_obs += 1
                    emitted, obs, h = run_observable(world, c0, d * U, P, t_rel * U,
                                                     None if disp is None else disp * U, sleeps, via)
                    chk.cov["evaluations"] += 1
                    hist["interval" if d == p else "timer_d_p"] += 1
                    hist["observable_scheduler_given_to"][via] = hist["observable_scheduler_given_to"].get(via, 0) + 1
                    if d == p:
                        tab = [[[i, ["next", [], i + 1] + ([sleeps[i % len(sleeps)]] if sleeps else [])]
                                for i in range(80)], ["raise", [], 99]]
                        spec = Spec(tab, P, c0, 0, None if disp is None else c0 + disp * U)
                        spec.advance_to(c0 + t_rel * U)
                        exp = spec.calls
                    else:
                        exp, k = [], 0
                        while c0 + d * U + k * P <= c0 + t_rel * U and (disp is None or c0 + d * U + k * P < c0 + disp * U):
                            exp.append((k, c0 + d * U + k * P))
                            k += 1
                    if emitted != exp:
                        fail(100, "interval-timer-emissions-differ|scheduler-given-to-" + via,
                             {"world": world, "c0": c0, "driver": "observable",
                              "args": [world, c0, d * U, P, t_rel * U, None if disp is None else disp * U, sleeps, via],
                              "observable": f"timer({d} s, {p} s)" if d != p else f"interval({p} s)",
                              "observer_sleeps_us": sleeps, "dispose_at_rel": disp,
                              "emitted (value, clock)": emitted, "expected": exp,
                              "what_failed": f"emitted {emitted[:6]} expected {exp[:6]}"})
                    if len(emitted) >= 2:
                        nontrivial.add(json.dumps([world, c0, "obs", d, p, t_rel, disp, sl]))
                    gal.append((f"({vt.KIND[world]}, {vt.gz(c0)}, 400%nat, {vt.g_history(h)})", vt.g_obs(obs)))

    # ---- (d) NewThreadScheduler.schedule_periodic: the loop on its dedicated thread ----
    nt_cases = ntpdrv.exhaustive_cases(tier)
    nt_cases += [ntpdrv.random_case(rng, tier) for _ in range(1500 if tier == "quick" else 40000)]
    # the same loop inherited by ThreadPoolScheduler (thread factory = ThreadPoolThread over the executor): every
    # third exhaustive record and a third of the seeded scripts
    for i, cs in enumerate(nt_cases):
        if i % 3 == 1:
            cs["sched"] = "threadpool"
    nt_gal, nt_fail = [], {}
    nth = {"cases": 0, "family": {}, "period": {}, "invocations": 0, "overrunning_invocations": 0,
           "invocations_as_long_as_period": 0, "dispose_calls": {}, "outcome": {}, "raised": 0,
           "no_wait_iterations": 0, "max_invocations": 0, "scheduler": {}}
    with ntpdrv.rebound():
        for case in nt_cases:
            r = ntpdrv.run_case(case)
            chk.cov["evaluations"] += 1
            nth["cases"] += 1
            nth["scheduler"][case.get("sched", "newthread")] = nth["scheduler"].get(case.get("sched", "newthread"), 0) + 1
            fam = case.get("family", "?")
            nth["family"][fam] = nth["family"].get(fam, 0) + 1
            pk = str(case["period"]) if case["period"] in ntpdrv.PERIODS + [-1000] else "other"
            nth["period"][pk] = nth["period"].get(pk, 0) + 1
            nth["outcome"][str(r.outcome)] = nth["outcome"].get(str(r.outcome), 0) + 1
            starts = [e for e in r.log if e[0] == "inv"]
            ends = [e for e in r.log if e[0] in ("end", "raise")]
            nth["invocations"] += len(starts)
            nth["max_invocations"] = max(nth["max_invocations"], len(starts))
            nth["raised"] += sum(1 for e in r.log if e[0] == "raise")
            for a, b in zip(starts, ends):
                nth["overrunning_invocations"] += (b[1] - a[1]) > case["period"]
                nth["invocations_as_long_as_period"] += (b[1] - a[1]) == case["period"]
            for e in r.log:
                if e[0] == "disp":
                    key = f"{e[2]}/{e[3]}"
                    nth["dispose_calls"][key] = nth["dispose_calls"].get(key, 0) + 1
            nth["no_wait_iterations"] += max(0, sum(1 for e in r.log if e[0] == "test")
                                             - sum(1 for e in r.log if e[0] == "wait"))
            if len(starts) >= 2:
                nontrivial.add(json.dumps(["newthread", {k: v for k, v in case.items() if k != "family"}]))
            for sig, msg in ntpdrv.oracle(case, r):
                sz = ntpdrv.size_of(case)
                if sig not in nt_fail or sz < nt_fail[sig][0]:
                    nt_fail[sig] = (sz, {"driver": "newthread", "case": case, "outcome": r.outcome,
                                         "log (kind, clock_us, data, who)": [list(e) for e in r.log],
                                         "what_failed": msg,
                                         "expected_text": "called with the state returned by the previous call, once "
                                         "per period, no call once the returned disposable is disposed (a dispose() "
                                         "that returned before the previous call ended, before the thread ran, or at "
                                         "an earlier clock instant), none after a raise"})
            nt_gal.append(ntpdrv.g_case(case, r))
    for sig, (sz, rep) in nt_fail.items():
        chk.violation(sig, rep, size=sz)
    hist["newthread"] = nth
    nt_bad, nt_logs = lib.correspondence("C35", "ntcorr", ntpdrv.IMPORTS, ntpdrv.CASE_TY, ntpdrv.MODEL_FN,
                                         ntpdrv.EQB, nt_gal)
    if nt_bad:
        firsts = [i for i in nt_bad if i >= 0][:3]
        detail = {"n_disagreements": len(nt_bad), "logs": [l[-1500:] for l in nt_logs[:1]],
                  "first_cases": [{"case": nt_cases[i], "model_input": nt_gal[i][0][:1500],
                                   "implementation": nt_gal[i][1][:1500]} for i in firsts]}
        if firsts:
            detail["model_says"] = lib.coq_show("C35", ntpdrv.IMPORTS,
                                                f"{ntpdrv.MODEL_FN} {nt_gal[firsts[0]][0]}")[:3000]
        chk.tie_broken("correspondence: Core/NewThreadPeriodic.v vs real NewThreadScheduler.schedule_periodic", detail)

    # ---- (e) schedule_periodic on the real-time schedulers under K3 with time (oracle only) ----
    rt_periodic_family(chk, tier, rng, hist, nontrivial)

    # ---- (f) timer(duetime, period) whose ticks run late (oracle only) ----
    timer_late_family(chk, tier, rng, hist, nontrivial)

    failures.sort(key=lambda f: f[0])
    seen = set()
    for size, sig, rep in failures:
        if sig in seen:
            continue
        seen.add(sig)
        chk.violation(f"{sig}|{rep['world']}", dict(rep, expected_text="k-th call at k periods with the state returned "
                                                    "by the previous call; no call after dispose or raise"), size=size)
    bad, logs = lib.correspondence("C35", "corr", IMPORTS, CASE_TY, "model", "(list_eqb oev_eqb)", gal,
                                   prelude=PRELUDE)
    chk.cov["traces_validated_against_impl"] = len(gal) + len(nt_gal)
    chk.cov["disagreements_checked"] = len(gal) + len(nt_gal)
    if bad:
        firsts = [i for i in bad if i >= 0][:3]
        detail = {"n_disagreements": len(bad), "logs": [l[-1500:] for l in logs[:1]],
                  "first_cases": [{"model_input": gal[i][0][:1500], "implementation": gal[i][1][:1500]} for i in firsts]}
        if firsts:
            detail["model_says"] = lib.coq_show("C35", IMPORTS, f"model {gal[firsts[0]][0]}", PRELUDE)[:3000]
        chk.tie_broken("correspondence: periodic part of Core/VTime.v vs real schedule_periodic / interval / timer", detail)
    chk.cov["distinct_nontrivial"] = len(nontrivial)
    chk.cov["rule"] = ("(a) solo: 3 schedulers x time units x periods {1,2,3,7} x 8 action tables (count, cycle, "
                       "arbitrary state jumps, raise at call 0/2/4, self-dispose at call 0/3) x start clock {0, 200} x "
                       "generated target, driven by one advance_to, by several advance_by steps, with a canceller at a "
                       "generated dispose time, or through CatchScheduler; (b) random histories mixing periodic "
                       "subscriptions with ordinary actions (cancel/stop/sleep/raise); (c) reactivex.interval and "
                       "reactivex.timer(d, p) subscribed on the scheduler; (d) NewThreadScheduler.schedule_periodic under "
                       "the controlled clock/Event/thread: EVERY single iteration record of a small domain (dispose "
                       "offset into the wait x before test x after test x duration 0/half/equal/longer than the period "
                       "x dispose during the run from inside/outside x raise; periods 0 and 1000 us) as first iteration "
                       "and after a short / an overrunning predecessor (thorough: all pairs of records of a reduced "
                       "domain), plus seeded scripts of 1..8 (thorough ..19) iterations over periods {0, 1 us, 1 ms, "
                       "0.25 s, 1 s, 3 s, random, -1 ms}, a third of (d) on ThreadPoolScheduler; in (c) every other case "
                       "hands the scheduler to the factory (interval(p, scheduler=s)) instead of subscribe; (e) ORACLE "
                       "ONLY: schedule_periodic on EventLoopScheduler / TimeoutScheduler / NewThreadScheduler / "
                       "ThreadPoolScheduler under K3 with time: fixed + seeded cases of 1-2 subscriptions (direct or "
                       "through reactivex.interval with the scheduler to the factory / to subscribe; periods 0.5 ms .. "
                       "0.25 s as timedelta or float; five transformers; ticks taking 0 / half / the / more than the "
                       "period; raising ticks; ticks that schedule), a stopping thread that waits for the controlled "
                       "clock, one-shot actions next to them, a clock thread, for EventLoopScheduler also exit_if_empty, "
                       "dispose() and schedule_periodic after dispose(); every (case, scheduler) under all schedules with "
                       "<= 2 (thorough 3) preemptions (capped), seeded random and fine-grained schedules.  non-trivial = "
                       "distinct cases with at least two calls/emissions ((e): distinct (case, log) with two ticks and a "
                       "preemption); (f) ORACLE ONLY: reactivex.timer(duetime, period) with ticks that run late: 3 "
                       "virtual-time schedulers x periods {1 ms, 0.25 s, 1 s, 3.000001 s, 5 s, 10 s, 50 s} x eps {1 us, "
                       "1 ms, period/4} x lateness {k*period -eps/+0/+eps for k = 0,1,2,3,5; 0.5, 1.5, 2.33 periods; not "
                       "late by 0.5 / 3 periods} produced by an absolute datetime start time in the past, by a negative "
                       "relative due time (float / int / timedelta), by another action that sleeps until then (started "
                       "1 us / half a period / a period / two periods before the tick or at its very instant; a second "
                       "sleeper later on) or by an observer that sleeps 0.5 .. 6 periods; float / int / timedelta "
                       "periods, period <= 0 with take(n); scheduler to the factory or to subscribe; subscribed directly "
                       "or from inside a scheduled action; int or float clock values; take(n) or not; driven by start() "
                       "(ended by a scheduled dispose / take), one advance_to or several advance_by steps; plus seeded "
                       "random combinations.  (f) non-trivial = distinct cases with >= 2 values of which one was "
                       "delivered after its due time")
    chk.cov["input_distribution"] = hist
    chk.cov["not_covered"] = ("mainloop / asyncio schedulers: periodic scheduling there is not driven here; "
                              "EventLoopScheduler / TimeoutScheduler: oracle on explored interleavings only (no model, "
                              "no theorem; lower bounds on tick times only); "
                              "NewThreadScheduler / ThreadPoolScheduler: real thread-scheduling delays and the wake-up "
                              "latency of Event.wait in the exact-time claims "
                              "(the baton-controlled world has zero latency) (partial)")
    chk.add_samples([{"case": g[0][:300]} for g in gal[::max(1, len(gal) // 4)]], limit=4)
    chk.add_samples([{"newthread_case": g[0][:300], "trace": g[1][:300]}
                     for g in nt_gal[::max(1, len(nt_gal) // 2)]], limit=6)
    return chk.finish(
        trusted_extra=["Core/VTime.v (periodic part) hand-written model, validated by this run's correspondence",
                       "interval/timer: the observable layer (Observable.subscribe, AutoDetachObserver) is executed, "
                       "modelled only through the scheduler calls it makes",
                       "Core/NewThreadPeriodic.v hand-written model of NewThreadScheduler.schedule_periodic's loop, "
                       "validated by this run's correspondence; harness/ntpdrv.py (controlled clock / Event / thread / "
                       "executor: the loop thread and the main thread alternate through a baton)",
                       "harness/k3.py + harness/k3_time.py (baton controller, controlled Condition / Event / Timer / "
                       "Thread / executor / clock; self-test on every run), harness/eldrv.py + harness/rtdrv.py (driver "
                       "of the periodic ops, periodic_oracle)",
                       "harness/timer_late.py (driver + oracle of family (f); the busy intervals the oracle reasons "
                       "with are the ones the sleeping actions / observers logged themselves)"],
        assumptions=["virtual-time schedulers: the only way an action takes virtual time is scheduler.sleep",
                     "new-thread loop: zero latency -- the clock moves only inside disposed.wait (by exactly the "
                     "timeout, or to the instant of the waking dispose()) and inside the action; dispose() is atomic "
                     "w.r.t. the loop's steps (it only sets the Event)",
                     "period > 0 for the closed form (period 0 or negative keeps advance_to busy forever by design)",
                     "K3 family (e): preemption only at the yield points of the chosen granularity; a timer / a timed "
                     "wait never returns before its timeout on the scheduler clock; periods > 0; the start of a tick is "
                     "stamped with the clock the scheduler read last before calling the action",
                     "family (f): READING of 'once per period' for a timer whose tick ran late (the text does not spell "
                     "out a catch-up policy): missed ticks are not delivered in a burst -- consecutive due times are at "
                     "least a period apart and the next tick is never due at the instant of the current one (period > "
                     "0) -- and the next tick is due at most one period after the current one was delivered; any due "
                     "time in between is accepted"])


# ---------------------------------------------------------------------------------------------------------
# (e) EventLoopScheduler / TimeoutScheduler / NewThreadScheduler / ThreadPoolScheduler . schedule_periodic under
#     the time-aware thread controller; cases in the format of harness/eldrv.py
# ---------------------------------------------------------------------------------------------------------

RT_FIXED = [
    # alone; stopped by its last tick
    {"t0": 0, "progs": [[["periodic", 1000, 1]]], "ticks": [], "pspec": {"1": {"fn": "count", "st0": 0, "max": 3}}},
    # float period, a None in the state chain, stopped from another thread between two ticks, a clock thread
    {"t0": 0, "progs": [[["periodic", 1000, 1]], [["sleep", 1500], ["cancel", 1]]], "ticks": [500],
     "pspec": {"1": {"fn": "jump", "st0": 0, "max": 4, "as": "float"}}},
    # stopped at the very instant a tick is due
    {"t0": 5000, "progs": [[["periodic", 1000, 1]], [["sleep", 2000], ["cancel", 1]]], "ticks": [1000],
     "pspec": {"1": {"fn": "cycle3", "st0": 0, "max": 5}}},
    # ticks that take time: less than, exactly, more than the period
    {"t0": 0, "progs": [[["periodic", 1000, 1]]], "ticks": [],
     "pspec": {"1": {"fn": "count", "st0": 0, "max": 4, "durs": [500, 1000, 2500, 0]}}},
    # an overrunning tick disposed from outside while it runs
    {"t0": 0, "progs": [[["periodic", 1000, 1]], [["sleep", 1800], ["cancel", 1]]], "ticks": [],
     "pspec": {"1": {"fn": "count", "st0": 0, "max": 6, "durs": [0, 2000]}}},
    # a tick raises
    {"t0": 0, "progs": [[["periodic", 1000, 1]]], "ticks": [1000],
     "pspec": {"1": {"fn": "count", "st0": 0, "max": 5, "raise_at": 1}}},
    {"t0": 0, "progs": [[["periodic", 2000, 1]]], "ticks": [],
     "pspec": {"1": {"fn": "none", "st0": 5, "max": 5, "raise_at": 0, "as": "float"}}},
    # next to one-shot actions, a tick that schedules
    {"t0": 0, "progs": [[["periodic", 1000, 1], ["rel", 1000, 5]], [["now", 6], ["abs", 2000, 7]]], "ticks": [1000],
     "pspec": {"1": {"fn": "same", "st0": 4, "max": 3, "bodies": {"0": [["rel", 500, 9]]}}}},
    # two subscriptions
    {"t0": 0, "progs": [[["periodic", 1000, 1]], [["periodic", 1500, 2]]], "ticks": [],
     "pspec": {"1": {"fn": "count", "st0": 0, "max": 3}, "2": {"fn": "cycle3", "st0": 0, "max": 2}}},
    # reactivex.interval on the scheduler: through the factory argument / through subscribe(scheduler=)
    {"t0": 0, "progs": [[["periodic", 1000, 1]]], "ticks": [], "pspec": {"1": {"via": "interval_factory", "max": 3}}},
    {"t0": 0, "progs": [[["periodic", 2000, 1]], [["sleep", 4500], ["cancel", 1]]], "ticks": [1000],
     "pspec": {"1": {"via": "interval_subscribe", "max": 6, "as": "float"}}},
    {"t0": 0, "progs": [[["periodic", 15625, 1]]], "ticks": [],
     "pspec": {"1": {"via": "interval_factory", "max": 3, "as": "float", "durs": [0, 20000]}}},
    # ---- EventLoopScheduler only: exit_if_empty; dispose() of the scheduler; schedule_periodic afterwards raises
    {"kinds": ["eventloop"], "eie": True, "t0": 0, "progs": [[["periodic", 1000, 1]], [["sleep", 2500], ["cancel", 1]]],
     "ticks": [], "pspec": {"1": {"fn": "count", "st0": 0, "max": 9}}},
    {"kinds": ["eventloop"], "t0": 0,
     "progs": [[["periodic", 1000, 1], ["sleep", 2500], ["dispose"], ["periodic", 1000, 2]]], "ticks": [],
     "pspec": {"1": {"fn": "count", "st0": 0, "max": 9}, "2": {"fn": "count", "st0": 0, "max": 2}}},
    {"kinds": ["eventloop"], "t0": 0, "progs": [[["periodic", 1000, 1]], [["sleep", 1000], ["dispose"], ["periodic", 500, 2]]],
     "ticks": [1000], "pspec": {"1": {"fn": "count", "st0": 0, "max": 3}, "2": {"fn": "same", "st0": 4, "max": 2}}},
    # subscribed from inside an action running on the loop thread
    {"kinds": ["eventloop"], "eie": True, "t0": 0, "progs": [[["now", 1], ["rel", 2500, 2]]],
     "bodies": {"1": [["periodic", 1000, 3]], "2": [["cancel", 3]]}, "ticks": [],
     "pspec": {"3": {"fn": "count", "st0": 0, "max": 6}}},
]


def rt_gen_case(rng):
    labels = iter(range(1, 40))
    t0 = rng.choice([0, 5000])
    progs, pspec = [], {}
    for _ in range(rng.choice([1, 1, 1, 2])):
        a = next(labels)
        p = rng.choice([500, 1000, 1000, 2000, 15625, 250000])
        via = rng.choice(["direct", "direct", "direct", "interval_factory", "interval_subscribe"])
        fn = rng.choice(list(ntpdrv.FNS)) if via == "direct" else "count"
        spec = {"fn": fn, "st0": ntpdrv.ST0[fn] if via == "direct" else 0, "max": rng.choice([2, 3, 3, 4]),
                "as": rng.choice(["timedelta", "float"]), "via": via}
        if rng.random() < 0.4:
            spec["durs"] = [rng.choice([0, p // 2, p, p + p // 2, 2 * p + 7]) for _ in range(3)]
        if via == "direct" and rng.random() < 0.2:
            spec["raise_at"] = rng.randrange(spec["max"])
        if rng.random() < 0.2:
            spec["bodies"] = {str(rng.randrange(spec["max"])): [["rel", rng.choice([0, p // 2, p]), next(labels)]]}
        pspec[str(a)] = spec
        progs.append([["periodic", p, a]])
        x = rng.random()
        if x < 0.5:
            progs.append([["sleep", rng.choice([p // 2, p, p + p // 2, 2 * p, 2 * p + 1, 3 * p])], ["cancel", a]])
        elif x < 0.6:
            progs[-1].append(["cancel", a])
    if rng.random() < 0.3:
        progs.append([rng.choice([["now", next(labels)], ["rel", 1000, next(labels)]])])
    ticks = [rng.choice([500, 1000, 1000, 2500]) for _ in range(rng.choice([0, 0, 1, 2]))]
    case = {"t0": t0, "progs": progs, "ticks": ticks, "pspec": pspec}
    if rng.random() < 0.2:
        case["kinds"] = ["eventloop"]
        case["eie"] = rng.random() < 0.5
        progs.append([["sleep", rng.choice([500, 1500, 2500])], ["dispose"],
                      ["periodic", 1000, 38]])
        pspec["38"] = {"fn": "count", "st0": 0, "max": 2}
    return case


def rt_oracle(case, r):
    kind = case["kind"]
    bad = E.periodic_oracle(case, r, kind, pid="C35", full=True)
    if not r.error:
        for i, e in enumerate(r.log):
            if e[2] != "thread-died":
                continue
            if e[3] == "ActionError" and any(x[0] == e[0] and x[2] == "praise" for x in r.log[:i]):
                continue
            if e[3] == "DisposedException" and kind == "eventloop" and any(x[2] == "disposecall" for x in r.log[:i]):
                continue          # the re-scheduling call of a tick after dispose() of the scheduler (C31)
            bad.append((f"C35 periodic|{kind}|thread-died|{e[3]}", f"thread {e[0]} died: {e[3:]}"))
    return bad


def rt_periodic_family(chk, tier, rng, hist, nontrivial):
    quick = tier == "quick"
    t_start = time.time()
    t_budget = 22 if quick else 600
    ok_st, st_facts = kt.self_test(2)
    if not ok_st:
        chk.tie_broken("k3_time self-test failed", st_facts)
    cases = list(RT_FIXED) + [rt_gen_case(rng) for _ in range(10 if quick else 300)]
    lim = 8 if quick else 250
    rth = {"base_cases": len(cases), "runs": {}, "ticks": {}, "runs_with_two_or_more_ticks": 0, "via": {},
           "stopped_by_another_thread": 0, "raised": 0, "window_ticks": 0, "distinct_logs": 0,
           "schedule_periodic_raised_DisposedException": 0, "base_cases_run": 0}
    distinct = set()
    fails = {}

    def judge(case, r, fine, sched):
        kind = case["kind"]
        chk.cov["evaluations"] += 1
        rth["runs"][kind] = rth["runs"].get(kind, 0) + 1
        ticks = [e for e in r.log if e[2] == "pstart"]
        rth["ticks"][kind] = rth["ticks"].get(kind, 0) + len(ticks)
        rth["runs_with_two_or_more_ticks"] += len(ticks) >= 2
        rth["raised"] += any(e[2] == "praise" for e in r.log)
        rth["schedule_periodic_raised_DisposedException"] += sum(
            1 for e in r.log if e[2] == "raise" and str(e[3]) in case["pspec"])
        h = hashlib.sha1(json.dumps([case, r.log], default=str).encode()).hexdigest()
        distinct.add(h)
        if len(ticks) >= 2 and k3.preemptions(r.trace) > 0:
            nontrivial.add("rt:" + h)
        for sig, msg in rt_oracle(case, r):
            if sig.startswith("NOTE "):
                rth["window_ticks"] += 1
                continue
            sz = sum(len(p) for p in case["progs"]) * 100 + len(sched)
            if sig not in fails or sz < fails[sig][0]:
                fails[sig] = (sz, {"driver": "rt-periodic", "case": case, "schedule": sched, "fine": fine,
                                   "what_failed": msg,
                                   "implementation_log": [list(map(str, e)) for e in r.log],
                                   "expected_text": "tick k gets f^k(st0), ticks never overlap, first tick >= call + "
                                   "period, consecutive ticks >= a period apart, no tick once a dispose() of the "
                                   "returned disposable returned before the previous tick ended or before the tick "
                                   "could be due, at most one tick after any dispose(), none after a raise"})

    with E.rebound():
        for ci, b in enumerate(cases):
            if time.time() - t_start > t_budget:
                chk.notes.append(f"rt-periodic: time budget reached after {ci} of {len(cases)} base cases")
                break
            rth["base_cases_run"] += 1
            for sp in b["pspec"].values():
                rth["via"][sp.get("via", "direct")] = rth["via"].get(sp.get("via", "direct"), 0) + 1
            rth["stopped_by_another_thread"] += any(op[0] == "cancel" for p in b["progs"] for op in p)
            for kind in b.get("kinds", R.KINDS):
                case = dict({k: v for k, v in b.items() if k != "kinds"}, kind=kind)
                box = {}

                def once(chooser, fine):
                    r = R.run_case(case, chooser, fine=fine)
                    box["r"] = r
                    return r.trace, None
                for sched, _ in k3.explore(lambda ch: once(ch, False), 2 if quick else 3, limit=lim):
                    judge(case, box["r"], False, sched)
                for _ in range(3 if quick else 30):
                    r = R.run_case(case, k3.random_chooser(rng), fine=False)
                    judge(case, r, False, r.schedule)
                for sched, _ in k3.explore(lambda ch: once(ch, True), 1 if quick else 2, limit=max(3, lim // 3)):
                    judge(case, box["r"], True, sched)
                for _ in range(1 if quick else 10):
                    r = R.run_case(case, k3.random_chooser(rng), fine=True)
                    judge(case, r, True, r.schedule)
    for sig, (sz, rep) in fails.items():
        chk.violation(sig, rep, size=sz)
    rth["distinct_logs"] = len(distinct)
    rth["seconds"] = round(time.time() - t_start, 1)
    rth["k3_time_self_test"] = "ok" if ok_st else "FAILED"
    hist["rt_periodic_under_k3"] = rth


# ---------------------------------------------------------------------------------------------------------
# (f) reactivex.timer(duetime, period) with ticks that run late; cases / driver / oracle in harness/timer_late.py
# ---------------------------------------------------------------------------------------------------------

TL_EXPECTED = ("values 0, 1, 2, ... in order; value 0 not before the due time; for period > 0: never two values at "
               "one instant, value k+1 not earlier than one period after (a lower bound of) value k's due time, and "
               "delivered no later than one period after value k unless the scheduler was busy / the subscription "
               "disposed; nothing after dispose")


def timer_late_family(chk, tier, rng, hist, nontrivial):
    t_start = time.time()
    # own generator: section (e) is time-budgeted, so the state of chk.rng after it depends on the machine load
    rng = random.Random(f"C35-timer-late-{chk.seed}")
    cases = TL.systematic_cases(rng, tier)
    cases += [TL.random_case(rng) for _ in range(6000 if tier == "quick" else 120000)]
    th = {"cases": len(cases), "family": {}, "world": {}, "due_form": {}, "period_form": {}, "drive": {}, "via": {},
          "with_take": 0, "with_dispose": 0, "subscribed_inside_an_action": 0, "int_clock_values": 0,
          "period_le_0": 0, "values": 0}
    tot = {}
    fails = {}
    for case in cases:
        r = TL.run_case(case)
        chk.cov["evaluations"] += 1
        bad, st = TL.oracle(case, r)
        for k, v in st.items():
            tot[k] = tot.get(k, 0) + v
        for key, val in (("family", case.get("family", "?")), ("world", case["world"]),
                         ("due_form", case["due"]["form"]), ("period_form", case["period"]["form"]),
                         ("drive", case["drive"][0]), ("via", case["via"])):
            th[key][val] = th[key].get(val, 0) + 1
        th["with_take"] += case.get("take") is not None
        th["with_dispose"] += case.get("dispose_at") is not None
        th["subscribed_inside_an_action"] += case.get("sub_at", 0) > 0
        th["int_clock_values"] += bool(case.get("iwp"))
        th["period_le_0"] += case["period"]["us"] <= 0
        th["values"] += st["ticks"]
        if st["ticks"] >= 2 and st["late_ticks"] >= 1:
            nontrivial.add("tl:" + json.dumps({k: v for k, v in case.items() if k != "family"}, sort_keys=True))
        for sig, msg in bad:
            sz = TL.size_of(case)
            if sig not in fails or sz < fails[sig][0]:
                fails[sig] = (sz, {"driver": TL.DRIVER, "case": case, "what_failed": msg,
                                   "log": r["log"], "error": r["error"], "expected_text": TL_EXPECTED})
    for sig, (sz, rep) in fails.items():
        chk.violation(sig, rep, size=sz)
    th["ticks_late_wrt_present_policy"] = {k: tot.get(k, 0) for k in (
        "late_ticks", "late_less", "late_exactly_one_period", "late_more", "late_several")}
    th["ticks_coinciding_with_the_present_catch_up_policy"] = tot.get("ref_policy_ticks", 0)
    th["ticks_elsewhere_in_the_accepted_interval"] = tot.get("not_ref_policy_ticks", 0)
    th["ticks_shown_to_run_at_their_due_time"] = tot.get("sharpened", 0)
    th["seconds"] = round(time.time() - t_start, 1)
    hist["timer_with_late_ticks"] = th


def run_observable(world, c0, d, p, t_rel, disp, sleeps=None, via="subscribe"):
    """subscribe reactivex.timer(d, p) (interval when d == p) on the real scheduler at clock c0,
    optionally dispose the subscription at c0+disp, advance to c0+t_rel.  Returns the emissions
    (value, clock), the observation list in the model's alphabet and the equivalent model history.
    via: "subscribe" = the scheduler is given to subscribe(scheduler=s) only; "factory" = to the factory
    (interval(p, scheduler=s) / timer(d, p, scheduler=s)) and subscribe gets none."""
    lib.import_repo()
    import reactivex
    w = vt.World(world, c0)
    s = w.s
    emitted, obs = [], []

    def on_next(v):
        emitted.append((v, w.us(s.clock)))
        if sleeps and sleeps[v % len(sleeps)]:
            s.sleep(w.rel_(sleeps[v % len(sleeps)]))      # the observer takes virtual time
    if via == "subscribe":
        src = reactivex.interval(w.rel_(p)) if d == p else reactivex.timer(w.rel_(d), w.rel_(p))
        sub = src.subscribe(on_next, scheduler=s)
    else:
        src = reactivex.interval(w.rel_(p), scheduler=s) if d == p \
            else reactivex.timer(w.rel_(d), w.rel_(p), scheduler=s)
        sub = src.subscribe(on_next)
    obs.append(("clock", w.us(s.clock)))
    if disp is not None:
        s.schedule_absolute(w.abs_(c0 + disp), lambda sc, st: sub.dispose())
        obs.append(("clock", w.us(s.clock)))
    status, _ = lib.with_timeout(10.0, s.advance_to, w.abs_(c0 + t_rel))
    if status == "timeout":
        obs.append(("hang",))
        return emitted, obs, []
    if via != "subscribe":
        try:                      # should the factory have lost the scheduler, a real timer would be pending
            sub.dispose()
        except Exception:
            pass
    n = len(emitted)
    if d == p:
        # interval = schedule_periodic(p, count -> on_next(count); count + 1, 0)
        tab = [[[i, ["next", [], i + 1] + ([sleeps[i % len(sleeps)]] if sleeps else [])]
                for i in range(n + 3)], ["raise", [], 99]]
        h = [["do", ["periodic", p, tab, 0]]]
        if disp is not None:
            h.append(["do", ["sched", ["abs", c0 + disp], -1, [["pcancel", 0]]]])
        h.append(["advto", c0 + t_rel])
        seq = [("clock", c0)] + ([("clock", c0)] if disp is not None else [])
        seq += [("tick", 0, v, k) for v, k in emitted] + [("clock", w.us(s.clock))]
        return emitted, seq, h
    # timer(d, p), d != p: the self-rescheduling absolute-time chain, unrolled n + 2 deep;
    # the action at step k logs label k (the value emitted) and schedules step k + 1
    def chain(k):
        if k > n + 1:
            return []
        body = ([["sleep", sleeps[k % len(sleeps)]]] if sleeps and sleeps[k % len(sleeps)] else []) + chain(k + 1)
        return [["sched", ["abs", c0 + d + k * p], k, body]]
    h = [["do", chain(0)[0]]]
    seq = [("clock", c0)]
    if disp is not None:
        # disposing the MultipleAssignmentDisposable cancels the pending item: in the model, cancel the
        # item that is pending at that time = the (number of emissions before disp)-th item of the chain
        # ids: chain step 0 = item 0, the canceller = item 1, chain step k >= 1 = item k + 1
        pending = len(emitted)                    # steps 0..n-1 ran, step n is pending
        h.append(["do", ["sched", ["abs", c0 + disp], -1, [["cancel", pending + 1 if pending >= 1 else 0]]]])
        seq.append(("clock", c0))
    h.append(["advto", c0 + t_rel])
    seq += [("run", v, k) for v, k in emitted] + [("clock", w.us(s.clock))]
    return emitted, seq, h


def replay(chk, path):
    d = json.load(open(path))
    if d.get("driver") == "newthread":
        with ntpdrv.rebound():
            r = ntpdrv.run_case(d["case"])
        print("case", json.dumps(d["case"]))
        print("log (kind, clock_us, data, who):")
        for e in r.log:
            print("   ", e)
        print("outcome", r.outcome, r.crash or "")
        bad = ntpdrv.oracle(d["case"], r)
        for sig, msg in bad:
            print("FAILS", sig, msg)
        if bad:
            print(f"VIOLATION property=C35 replay={path}")
        return 1 if bad else 0
    if d.get("driver") == "rt-periodic":
        with E.rebound():
            r = R.run_case(d["case"], k3.follow(d["schedule"], lenient=True), fine=d.get("fine", False))
        print("case", json.dumps(d["case"]))
        for e in r.log:
            print("   ", e)
        bad = [b for b in rt_oracle(d["case"], r) if not b[0].startswith("NOTE ")]
        for sig, msg in bad:
            print("FAILS", sig, msg)
        if bad:
            print(f"VIOLATION property=C35 replay={path}")
        return 1 if bad else 0
    if d.get("driver") == TL.DRIVER:
        r = TL.run_case(d["case"])
        print("case", json.dumps(d["case"]))
        print("log:")
        for e in r["log"]:
            print("   ", e)
        if r["error"]:
            print("error", r["error"])
        bad, _ = TL.oracle(d["case"], r)
        for sig, msg in bad:
            print("FAILS", sig, msg)
        if bad:
            print(f"VIOLATION property=C35 replay={path}")
        return 1 if bad else 0
    if d.get("driver") == "observable":
        emitted, obs, h = run_observable(*d["args"])
        print("emitted (value, clock)", emitted)
        print("expected", d.get("expected"))
        bad = [list(x) for x in emitted] != [list(x) for x in d.get("expected", [])]
        if bad:
            print("FAILS interval-timer-emissions-differ")
            print(f"VIOLATION property=C35 replay={path}")
        return 1 if bad else 0
    if "history" not in d:
        print(json.dumps(d, indent=1))
        return 1
    obs, trace = vt.run_impl(d["world"], d["c0"], d["history"], catch=d.get("catch"))
    calls = [(e[2], e[3]) for e in trace if e[0] == "tick"]
    print("history", json.dumps(d["history"]))
    print("calls (state, clock)", calls)
    print("expected", d.get("expected"))
    periods = {e[1]: e[2] for e in trace if e[0] == "periodic"}
    bad = oracle_periodic(trace, periods)
    if "expected" in d and [list(x) for x in calls] != [list(x) for x in d["expected"]]:
        bad.append(("periodic-calls-differ-from-k-times-period", ""))
    for sig, detail in bad:
        print("FAILS", sig, detail)
    if bad:
        print(f"VIOLATION property=C35 replay={path}")
    return 1 if bad else 0
