"""C27 -- RefCountDisposable releases its resource only after all dependents.

Theorems (Props/C27.v): all one-thread histories (at most once; exactly when and
only after primary + all dependents; double dispose of a dependent is a no-op;
inert after release) and the invariant over ALL schedules of any number of
threads.  Tie: K1 + K3 against the real class with a spy underlying item.
Oracle: dispose() count of the underlying item and its timing relative to the
dispose() calls on the primary and on the dependents handed out."""
import dispcheck

KINDS = ("refcount",)


def run(chk):
    return dispcheck.run_check(
        chk, KINDS,
        "RefCountDisposable over a spy item; calls: obtain a dependent (property disposable), dispose dependent k "
        "(k-th handed out, shared between threads), dispose the primary, read is_disposed",
        extra_assumptions=["release() is only called through dependents (it is not part of the public contract the "
                           "property talks about)"])


def replay(chk, path):
    return dispcheck.replay(chk, path)
