"""C27 -- RefCountDisposable releases its resource only after all dependents.

Theorems (Props/C27.v): all one-thread histories (at most once; exactly when and
only after primary + all dependents; double dispose of a dependent is a no-op;
inert after release) and the invariant over ALL schedules of any number of
threads; at most one parent.release() per dependent for ALL schedules of any
number of threads disposing the same dependent (Core/RefCountOnce.v).
Tie: K1 + K3 against the real class with a spy underlying item (logs compared
step for step; release() calls per handle compared with the ghost counter).
Oracle: dispose() count of the underlying item and its timing relative to the
dispose() calls on the primary and on the dependents handed out (exactly one at
quiescence iff primary and all dependents were disposed; none while a dependent
handed out is undisposed); at most one release() per dependent."""
import dispcheck

KINDS = ("refcount",)


def run(chk):
    return dispcheck.run_check(
        chk, KINDS,
        "RefCountDisposable over a spy item; calls: obtain a dependent (property disposable), dispose dependent k "
        "(k-th handed out, shared between threads), dispose the primary, read is_disposed",
        extra_assumptions=["release() is only called through dependents (it is not part of the public contract the "
                           "property talks about)"])


def replay(chk, path):
    return dispcheck.replay(chk, path)
