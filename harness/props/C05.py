"""C05 -- element-wise operators match their list semantics.

Theorems (Props/C05.v): for every finite input, exec(machine)(events xs t) is
the tagged list computation.  Tie: K2 -- each machine of Ops/Elementwise.v is
run by Coq on exactly the inputs pushed through the real operator (hot source,
conforming and non-conforming, raising callbacks); oracle: the Python list
computation, evaluated directly on the implementation's output."""
import json
import random

import k2
import lib
from k2 import Pool, POOL, UserError
from lib import gz, glist, gbool, gopt

IMPORTS = "Base.Prelude Base.CaseLib Ops.Machine Ops.Elementwise"


def ops_table(values=None, extended=False):
    """name -> generator(rng) of operator instances.  The default table is shared with C01/C02/C03/C08/C09
    (inputs: pool values, machine type `mealy Z ty`); `extended=True` (C05 only) adds the generators whose
    inputs are not plain pool values (notification objects, tuples, dicts, attribute records) or whose
    result is a literal None (default_if_empty())."""
    import reactivex as rx
    from reactivex import operators as ops
    from reactivex.notification import OnNext, OnError, OnCompleted
    pool = Pool(values if values is not None else POOL)
    K = pool.K
    idenc = lambda v: gz(pool.id(v))
    T = {}

    def reg(name, gen):
        T[name] = gen

    def idx(t):   # indexed callback from a table
        return (lambda v, i: t.at_call(v, i))

    class IdxTable(k2.Table):
        def call2(self, v, i):
            j = (self.pool.id(v) + i) % K
            self.calls.append(j)
            k2.CALLS.append(k2.CURRENT_TAG[0])
            r = self.at(j)
            if r[0] == "raise":
                raise UserError(r[1])
            return self.post(r[1])

        def gallina2(self):
            return f"(fun x i => {self.gallina()} ((x + Z.of_nat i) mod {K}))"

    def idx_pred(rng):
        t = k2.rand_pred(rng, pool)
        it = IdxTable(pool, t.entries, t.default, gbool)
        return it

    def idx_map(rng):
        t = k2.rand_map(rng, pool)
        it = IdxTable(pool, t.entries, t.default, gz, post=lambda i: pool.val(i))
        return it

    Z = dict(ty="Z", eqb="Z.eqb", enc=idenc, poolvals=True)

    class IdIdx:
        """the default of map_indexed(): (value, index) -> value"""
        @staticmethod
        def call2(v, i):
            return v

    def g_map(rng):
        f = k2.rand_map(rng, pool)
        if rng.random() < 0.12:        # ops.map(): `mapper or identity`
            return dict(py=ops.map(), coq="op_map (fun x => Ok x)", spec=("map", lambda v: v), **Z)
        return dict(py=ops.map(f), coq=f"op_map {f.gallina()}", spec=("map", f), **Z)
    reg("map", g_map)

    def g_map_indexed(rng):
        f = idx_map(rng)
        if rng.random() < 0.12:        # ops.map_indexed(): `mapper_indexed or _identity`
            return dict(py=ops.map_indexed(), coq="op_map_indexed (fun x _ => Ok x)",
                        spec=("map_indexed", IdIdx), **Z)
        return dict(py=ops.map_indexed(f.call2), coq=f"op_map_indexed {f.gallina2()}", spec=("map_indexed", f), **Z)
    reg("map_indexed", g_map_indexed)

    def g_filter(rng):
        p = k2.rand_pred(rng, pool)
        return dict(py=ops.filter(p), coq=f"op_filter {p.gallina()}", spec=("filter", p), **Z)
    reg("filter", g_filter)

    def g_filter_indexed(rng):
        p = idx_pred(rng)
        return dict(py=ops.filter_indexed(p.call2), coq=f"op_filter_indexed {p.gallina2()}",
                    spec=("filter_indexed", p), **Z)
    reg("filter_indexed", g_filter_indexed)

    def g_take(rng):
        n = rng.choice([0, 1, 2, 3, 5, 9])
        return dict(py=ops.take(n), coq=f"op_take {n}", spec=("take", n), **Z)
    reg("take", g_take)

    def g_skip(rng):
        n = rng.choice([0, 1, 2, 3, 5, 9])
        return dict(py=ops.skip(n), coq=f"op_skip {n}", spec=("skip", n), **Z)
    reg("skip", g_skip)

    def g_take_while(rng):
        p = k2.rand_pred(rng, pool)
        inc = rng.random() < 0.5
        return dict(py=ops.take_while(p, inclusive=inc), coq=f"op_take_while {p.gallina()} {gbool(inc)}",
                    spec=("take_while", p, inc), **Z)
    reg("take_while", g_take_while)

    def g_take_while_indexed(rng):
        p = idx_pred(rng)
        inc = rng.random() < 0.5
        return dict(py=ops.take_while_indexed(p.call2, inclusive=inc),
                    coq=f"op_take_while_indexed {p.gallina2()} {gbool(inc)}",
                    spec=("take_while_indexed", p, inc), **Z)
    reg("take_while_indexed", g_take_while_indexed)

    def g_skip_while(rng):
        p = k2.rand_pred(rng, pool)
        return dict(py=ops.skip_while(p), coq=f"op_skip_while {p.gallina()}", spec=("skip_while", p), **Z)
    reg("skip_while", g_skip_while)

    def g_skip_while_indexed(rng):
        p = idx_pred(rng)
        return dict(py=ops.skip_while_indexed(p.call2), coq=f"op_skip_while_indexed {p.gallina2()}",
                    spec=("skip_while_indexed", p), **Z)
    reg("skip_while_indexed", g_skip_while_indexed)

    cls_tbl = "(tbl [" + "; ".join(f"({i}, Ok {c})" for i, c in enumerate(pool.cls)) + "] (Ok 0))"
    eq_cmp = (f"(fun a b => match {cls_tbl} a, {cls_tbl} b with Ok x, Ok y => Ok (x =? y) "
              f"| _, _ => Raise 0 end)")

    def rand_cmp(rng):
        """equality comparer over pool values, symmetric in its arguments: either an arbitrary relation (may
        raise) given by a predicate table on (id a + id b) mod K, or the equivalence 'same id modulo m'.
        -> (python callable, Gallina text, ref(a, b) -> ('ok', bool) | ('raise', code))"""
        if rng.random() < 0.5:
            m = rng.choice([2, 3, 4])
            ref = lambda a, b: ("ok", pool.id(a) % m == pool.id(b) % m)
            g = f"(fun a b => Ok ((a mod {m}) =? (b mod {m})))"
        else:
            p = k2.rand_pred(rng, pool)
            ref = lambda a, b: p.at((pool.id(a) + pool.id(b)) % K)
            g = f"(fun a b => {p.gallina()} ((a + b) mod {K}))"

        def cmp(a, b):
            k2.CALLS.append(k2.CURRENT_TAG[0])
            r = ref(a, b)
            if r[0] == "raise":
                raise UserError(r[1])
            return r[1]
        return cmp, g, ref

    def g_distinct(rng):
        mode = rng.choice(["plain", "key", "cmp", "keycmp"])
        if mode == "plain":
            return dict(py=ops.distinct(), coq=f"op_distinct (fun x => Ok x) {eq_cmp}", spec=("distinct",), **Z)
        if mode == "key":
            f = k2.rand_map(rng, pool)
            return dict(py=ops.distinct(f), coq=f"op_distinct {f.gallina()} {eq_cmp}", spec=("distinct_key", f), **Z)
        # user comparer, alone or together with a key mapper (then it sees the keys)
        f = k2.rand_map(rng, pool) if mode == "keycmp" else None
        cmp, g, ref = rand_cmp(rng)
        return dict(py=ops.distinct(f, cmp), coq=f"op_distinct {f.gallina() if f else '(fun x => Ok x)'} {g}",
                    spec=("distinct_" + mode, f, ref), **Z)
    reg("distinct", g_distinct)

    def g_duc(rng):
        mode = rng.choice(["plain", "key", "cmp", "keycmp"])
        if mode == "plain":
            return dict(py=ops.distinct_until_changed(),
                        coq=f"op_distinct_until_changed (fun x => Ok x) {eq_cmp}", spec=("duc",), **Z)
        if mode == "key":
            f = k2.rand_map(rng, pool)
            return dict(py=ops.distinct_until_changed(f),
                        coq=f"op_distinct_until_changed {f.gallina()} {eq_cmp}", spec=("duc_key", f), **Z)
        f = k2.rand_map(rng, pool) if mode == "keycmp" else None
        cmp, g, ref = rand_cmp(rng)
        return dict(py=ops.distinct_until_changed(f, cmp),
                    coq=f"op_distinct_until_changed {f.gallina() if f else '(fun x => Ok x)'} {g}",
                    spec=("duc_" + mode, f, ref), **Z)
    reg("distinct_until_changed", g_duc)

    def g_pairwise(rng):
        return dict(py=ops.pairwise(), coq="op_pairwise", ty="(Z * Z)", eqb="(pair_eqb Z.eqb Z.eqb)",
                    enc=lambda v: f"({gz(pool.id(v[0]))}, {gz(pool.id(v[1]))})", spec=("pairwise",))
    reg("pairwise", g_pairwise)

    def g_start_with(rng):
        args = [pool.val(rng.randrange(K)) for _ in range(rng.choice([0, 1, 2, 3]))]
        return dict(py=ops.start_with(*args), coq=f"op_start_with {glist([pool.id(a) for a in args])}",
                    spec=("start_with", args), **Z)
    reg("start_with", g_start_with)

    def g_die(rng):
        d = pool.val(rng.randrange(K))
        return dict(py=ops.default_if_empty(d), coq=f"op_default_if_empty {gz(pool.id(d))}",
                    spec=("default_if_empty", d), **Z)
    reg("default_if_empty", g_die)

    reg("ignore_elements", lambda rng: dict(py=ops.ignore_elements(), coq="op_ignore_elements",
                                            spec=("ignore_elements",), **Z))

    def g_take_last(rng):
        n = rng.choice([0, 1, 2, 3, 5, 9])
        return dict(py=ops.take_last(n), coq=f"op_take_last {n}", spec=("take_last", n), **Z)
    reg("take_last", g_take_last)

    def g_skip_last(rng):
        n = rng.choice([0, 1, 2, 3, 5, 9])
        return dict(py=ops.skip_last(n), coq=f"op_skip_last {n}", spec=("skip_last", n), **Z)
    reg("skip_last", g_skip_last)

    def g_tlb(rng):
        n = rng.choice([0, 1, 2, 3, 5, 9])
        return dict(py=ops.take_last_buffer(n), coq=f"op_take_last_buffer {n}", ty="(list Z)",
                    eqb="(list_eqb Z.eqb)", enc=lambda v: glist([pool.id(x) for x in v]),
                    spec=("take_last_buffer", n), snapshot=True)
    reg("take_last_buffer", g_tlb)

    def g_element_at(rng):
        n = rng.choice([0, 1, 2, 4, 8])
        if rng.random() < 0.5:
            d = pool.val(rng.randrange(K))
            return dict(py=ops.element_at_or_default(n, d),
                        coq=f"op_element_at {n} (Some {gz(pool.id(d))}) (-1)", spec=("element_at", n, True, d), **Z)
        return dict(py=ops.element_at(n), coq=f"op_element_at {n} None (-1)", spec=("element_at", n, False, None), **Z)
    reg("element_at", g_element_at)

    def g_find(rng):
        p = idx_pred(rng)
        yi = rng.random() < 0.5

        def pred3(v, i, src):
            return p.call2(v, i)

        def enc(v):
            if yi:
                return f"(inr {gz(v)})"
            return "(inl None)" if (v is None and enc.none_is_absent) else f"(inl (Some {gz(pool.id(v))}))"
        enc.none_is_absent = False
        return dict(py=(ops.find_index(pred3) if yi else ops.find(pred3)),
                    coq=f"op_find {p.gallina2()} {gbool(yi)}", ty="(option Z + Z)",
                    eqb="(sum_eqb (option_eqb Z.eqb) Z.eqb)", enc=enc, spec=("find", p, yi), find_enc=True)
    reg("find", g_find)

    def g_materialize(rng):
        def enc(n):
            if isinstance(n, OnNext):
                return f"(Next {gz(pool.id(n.value))})"
            if isinstance(n, OnError):
                return f"(Err {gz(k2.err_id(n.exception))})"
            return "Done"
        return dict(py=ops.materialize(), coq="op_materialize", ty="(ev Z)", eqb="(ev_eqb Z.eqb)", enc=enc,
                    spec=("materialize",))
    reg("materialize", g_materialize)
    if not extended:
        return pool, T

    # ------------------------------------------------------------------ C05 only
    def tail(rng, ins, extra):
        """terminal / non-conforming tail exactly as k2.gen_inputs does it"""
        t = rng.random()
        if t < 0.55:
            ins.append(("C",))
        elif t < 0.85:
            ins.append(("E", UserError(rng.choice([11, 12]))))
        if rng.random() >= 0.8:
            for _ in range(rng.randint(1, 3)):
                ins.append(rng.choice([("N", extra(rng)), ("C",), ("E", UserError(13))]))
        return ins

    def lengths(rng, maxlen):
        return rng.choice([0, 1, 1, 2, 2, 3, 3, 4, 5, maxlen])

    # default_if_empty(): the default is a literal None
    if any(v is None for v in pool.values):
        reg("default_if_empty()", lambda rng: dict(py=ops.default_if_empty(),
                                                   coq=f"op_default_if_empty {gz(pool.id(None))}",
                                                   spec=("default_if_empty", None), **Z))

    # _dematerialize.py: the ELEMENTS are notification objects
    def g_dematerialize(rng):
        def notif(rng):
            r = rng.random()
            if r < 0.82:
                return OnNext(pool.val(rng.randrange(K)))
            if r < 0.91:
                return OnCompleted()
            return OnError(UserError(rng.choice([15, 16])))

        def gen_inputs(rng, maxlen=7):
            return tail(rng, [("N", notif(rng)) for _ in range(lengths(rng, maxlen))], notif)

        def enc_in(n):
            if isinstance(n, OnNext):
                return f"(Next {gz(pool.id(n.value))})"
            if isinstance(n, OnError):
                return f"(Err {gz(k2.err_id(n.exception))})"
            return "Done"
        return dict(py=ops.dematerialize(), coq="op_dematerialize", in_ty="(ev Z)", enc_in=enc_in,
                    gen_inputs=gen_inputs, spec=("dematerialize",), **Z)
    reg("dematerialize", g_dematerialize)

    # starmap: map(lambda values: mapper(*values)); the elements are tuples
    def g_starmap(rng):
        f = k2.rand_map(rng, pool)
        noarg = rng.random() < 0.15

        def f2(a, b):
            return f(pool.val((pool.id(a) + pool.id(b)) % K))

        def tup(rng):
            n = 2 if (noarg or rng.random() < 0.9) else rng.choice([1, 3])   # wrong arity: TypeError in the list computation too
            return tuple(pool.val(rng.randrange(K)) for _ in range(n))

        def gen_inputs(rng, maxlen=7):
            return tail(rng, [("N", tup(rng)) for _ in range(lengths(rng, maxlen))], tup)
        enc_in = lambda t: glist([pool.id(v) for v in t])
        if noarg:                      # starmap(): the tuple is passed on unchanged
            return dict(py=ops.starmap(), coq="op_map (fun l : list Z => Ok l)", in_ty="(list Z)", enc_in=enc_in,
                        gen_inputs=gen_inputs, ty="(list Z)", eqb="(list_eqb Z.eqb)", enc=enc_in,
                        spec=("starmap", None))
        coq = (f"op_map (fun l : list Z => match l with [a; b] => {f.gallina()} ((a + b) mod {K}) "
               f"| _ => Raise {gz(k2.LIB_ERRORS['TypeError'])} end)")
        return dict(py=ops.starmap(f2), coq=coq, in_ty="(list Z)", enc_in=enc_in, gen_inputs=gen_inputs,
                    spec=("starmap", f2), **Z)
    reg("starmap", g_starmap)

    # pluck / pluck_attr: map(lambda x: x[key]) / map(lambda x: getattr(x, prop)); the elements are dicts with
    # (falsy) pool values as keys / attribute records
    hashable_ids = [i for i, v in enumerate(pool.values) if not isinstance(v, (list, dict))]
    ATTRS = ["a", "b", "c"]

    def g_pluck(rng):
        import types
        attr = rng.random() < 0.3
        if attr:
            want = rng.choice(ATTRS)

            def elem(rng):
                names = [n for n in ATTRS if rng.random() < 0.7]
                return types.SimpleNamespace(**{n: pool.val(rng.randrange(K)) for n in names})
            enc_in = lambda o: "[" + "; ".join(f"({ATTRS.index(n)}, {gz(pool.id(v))})"
                                               for n, v in sorted(vars(o).items())) + "]"
            want_id, exn, py = ATTRS.index(want), k2.LIB_ERRORS["AttributeError"], ops.pluck_attr(want)
        else:
            kid = rng.choice(hashable_ids[:8])         # the looked-up key: mostly None / 0 / False / '' / () / 0.0
            want = pool.val(kid)

            def elem(rng):
                ks = [kid] if rng.random() < 0.8 else []
                ks += [rng.choice(hashable_ids) for _ in range(rng.choice([0, 1, 2]))]
                rng.shuffle(ks)
                return {pool.val(k): pool.val(rng.randrange(K)) for k in ks}
            # a dict is rendered as (equality class of the key, id of the value): Python merges equal keys (0, False, 0.0)
            enc_in = lambda d: "[" + "; ".join(f"({pool.cls[pool.id(k)]}, {gz(pool.id(v))})" for k, v in d.items()) + "]"
            want_id, exn, py = pool.cls[kid], k2.LIB_ERRORS["KeyError"], ops.pluck(want)

        def gen_inputs(rng, maxlen=7):
            return tail(rng, [("N", elem(rng)) for _ in range(lengths(rng, maxlen))], elem)
        coq = (f"op_map (fun d : list (Z * Z) => match find (fun kv => fst kv =? {want_id}) d with "
               f"Some kv => Ok (snd kv) | None => Raise {gz(exn)} end)")
        return dict(py=py, coq=coq, in_ty="(list (Z * Z))", enc_in=enc_in, gen_inputs=gen_inputs,
                    spec=("pluck_attr" if attr else "pluck", want), **Z)
    reg("pluck", g_pluck)
    return pool, T


def expected(spec, xs, term, pool):
    """The equivalent Python list computation: -> (elements, terminal) where
    terminal is 'C', ('E', code) or None (no terminal yet); with the tag of every
    output (position of the input that determines it)."""
    name = spec[0]
    n = len(xs)
    out = []          # (tag, value)
    end = None        # (tag, 'C' | ('E', code))
    tin = n + 1       # tag of the source terminal

    def src_end():
        if term == "C":
            return (tin, "C")
        if term is None:
            return None
        return (tin, ("E", term))

    def call(t, *a):
        try:
            return ("ok", t(*a) if not hasattr(t, "call2") or len(a) == 1 else t.call2(*a))
        except UserError as e:
            return ("raise", e.code)

    if name in ("map", "filter", "take_while", "skip_while"):
        f = spec[1]
        running = (name == "skip_while")
        skipping = True
        for k, x in enumerate(xs):
            r = call(f, x) if not (name == "skip_while" and not skipping) else ("ok", False)
            if r[0] == "raise":
                end = (k + 1, ("E", r[1]))
                break
            if name == "map":
                out.append((k + 1, r[1]))
            elif name == "filter":
                if r[1]:
                    out.append((k + 1, x))
            elif name == "take_while":
                if r[1]:
                    out.append((k + 1, x))
                else:
                    if spec[2]:
                        out.append((k + 1, x))
                    end = (k + 1, "C")
                    break
            else:
                if skipping and r[1]:
                    continue
                skipping = False
                out.append((k + 1, x))
        return out, end or src_end()
    if name in ("map_indexed", "filter_indexed", "take_while_indexed", "skip_while_indexed"):
        f = spec[1]
        skipping = True
        for k, x in enumerate(xs):
            if name == "skip_while_indexed" and not skipping:
                out.append((k + 1, x))
                continue
            try:
                r = ("ok", f.call2(x, k))
            except UserError as e:
                r = ("raise", e.code)
            if r[0] == "raise":
                end = (k + 1, ("E", r[1]))
                break
            if name == "map_indexed":
                out.append((k + 1, r[1]))
            elif name == "filter_indexed":
                if r[1]:
                    out.append((k + 1, x))
            elif name == "take_while_indexed":
                if r[1]:
                    out.append((k + 1, x))
                else:
                    if spec[2]:
                        out.append((k + 1, x))
                    end = (k + 1, "C")
                    break
            else:
                if r[1]:
                    continue
                skipping = False
                out.append((k + 1, x))
        return out, end or src_end()
    if name == "take":
        c = spec[1]
        if c == 0:
            return [], (0, "C")
        out = [(k + 1, x) for k, x in enumerate(xs[:c])]
        return out, ((c, "C") if n >= c else src_end())
    if name == "skip":
        return [(k + 1, x) for k, x in enumerate(xs) if k >= spec[1]], src_end()
    if name == "pairwise":
        return [(k + 2, (xs[k], xs[k + 1])) for k in range(n - 1)], src_end()
    if name == "start_with":
        return [(0, a) for a in spec[1]] + [(k + 1, x) for k, x in enumerate(xs)], src_end()
    if name == "default_if_empty":
        if term == "C" and n == 0:
            return [(tin, spec[1])], (tin, "C")
        return [(k + 1, x) for k, x in enumerate(xs)], src_end()
    if name == "ignore_elements":
        return [], src_end()
    if name == "take_last":
        if term == "C":
            c = spec[1]
            return [(tin, x) for x in (xs[-c:] if c else [])], (tin, "C")
        return [], src_end()
    if name == "skip_last":
        c = spec[1]
        return [(k + c + 1, x) for k, x in enumerate(xs[:max(0, n - c)])], src_end()
    if name == "take_last_buffer":
        if term == "C":
            c = spec[1]
            return [(tin, (xs[-c:] if c else []))], (tin, "C")
        return [], src_end()
    if name == "element_at":
        _, i, has_d, d = spec
        if n > i:
            return [(i + 1, xs[i])], (i + 1, "C")
        if term == "C":
            return ([(tin, d)], (tin, "C")) if has_d else ([], (tin, ("E", -1)))
        return [], src_end()
    if name == "find":
        _, p, yi = spec
        for k, x in enumerate(xs):
            try:
                r = p.call2(x, k)
            except UserError as e:
                return [], (k + 1, ("E", e.code))
            if r:
                return [(k + 1, k if yi else x)], (k + 1, "C")
        if term == "C":
            return [(tin, -1 if yi else None)], (tin, "C")
        return [], src_end()
    if name == "materialize":
        from reactivex.notification import OnNext, OnError, OnCompleted
        out = [(k + 1, ("N", x)) for k, x in enumerate(xs)]
        if term == "C":
            return out + [(tin, ("C",))], (tin, "C")
        if term is None:
            return out, None
        return out + [(tin, ("E", term))], (tin, "C")
    if name in ("distinct", "distinct_key", "duc", "duc_key"):
        keyf = spec[1] if len(spec) > 1 else None
        seen, last, has = [], None, False
        for k, x in enumerate(xs):
            if keyf is not None:
                try:
                    key = keyf(x)
                except UserError as e:
                    return out, (k + 1, ("E", e.code))
            else:
                key = x
            if name.startswith("distinct"):
                if not any(s == key for s in seen):
                    seen.append(key)
                    out.append((k + 1, x))
            else:
                if not has or not (last == key):
                    has, last = True, key
                    out.append((k + 1, x))
        return out, src_end()
    if name in ("distinct_cmp", "distinct_keycmp", "duc_cmp", "duc_keycmp"):
        # user comparer (on the keys), optionally with a key mapper.  Judged only when, on the keys of THIS
        # input, the comparer never raises and is an equivalence relation: then every reading of "distinct
        # according to the comparer" gives the same list (otherwise: model comparison only)
        keyf, ref = spec[1], spec[2]
        keys = []
        for k, x in enumerate(xs):
            if keyf is not None:
                try:
                    keys.append(keyf(x))
                except UserError as e:
                    end = (k + 1, ("E", e.code))
                    break
            else:
                keys.append(x)
        rel = {}
        for i, a in enumerate(keys):
            for j, b in enumerate(keys):
                r = ref(a, b)
                if r[0] == "raise":
                    return None
                rel[(i, j)] = bool(r[1])
        n_ = len(keys)
        if not (all(rel[(i, i)] for i in range(n_))
                and all(rel[(i, j)] == rel[(j, i)] for i in range(n_) for j in range(n_))
                and all(rel[(i, l)] for i in range(n_) for j in range(n_) for l in range(n_)
                        if rel[(i, j)] and rel[(j, l)])):
            return None
        for k in range(n_):
            if name.startswith("distinct"):
                if not any(rel[(j, k)] for j in range(k)):
                    out.append((k + 1, xs[k]))
            elif k == 0 or not rel[(k - 1, k)]:
                out.append((k + 1, xs[k]))
        return out, end or src_end()
    if name == "dematerialize":
        from reactivex.notification import OnNext, OnError
        for k, n in enumerate(xs):
            if isinstance(n, OnNext):
                out.append((k + 1, n.value))
            elif isinstance(n, OnError):
                return out, (k + 1, ("E", k2.err_id(n.exception)))
            else:
                return out, (k + 1, "C")
        return out, src_end()
    if name == "starmap":
        fn = spec[1]
        for k, t in enumerate(xs):
            try:
                out.append((k + 1, t if fn is None else fn(*t)))
            except UserError as e:
                return out, (k + 1, ("E", e.code))
            except TypeError:
                return out, (k + 1, ("E", k2.LIB_ERRORS["TypeError"]))
        return out, src_end()
    if name in ("pluck", "pluck_attr"):
        want = spec[1]
        for k, x in enumerate(xs):
            try:
                out.append((k + 1, x[want] if name == "pluck" else getattr(x, want)))
            except KeyError:
                return out, (k + 1, ("E", k2.LIB_ERRORS["KeyError"]))
            except AttributeError:
                return out, (k + 1, ("E", k2.LIB_ERRORS["AttributeError"]))
        return out, src_end()
    return None   # no independent oracle for this variant (model comparison only)


def canon_out(res, spec, pool):
    """implementation output in the oracle's vocabulary"""
    out, end = [], None
    from reactivex.notification import OnNext, OnError, OnCompleted
    for (t, k, p) in res["out"]:
        if k == "N":
            if spec[0] == "materialize":
                if isinstance(p, OnNext):
                    p = ("N", p.value)
                elif isinstance(p, OnError):
                    p = ("E", k2.err_id(p.exception))
                else:
                    p = ("C",)
            out.append((t, p))
        elif k == "E":
            end = (t, ("E", k2.err_id(p)))
        else:
            end = (t, "C")
    return out, end


def same(a, b):
    """equality that distinguishes None/0/False/''/() etc. (type and repr)"""
    return repr(a) == repr(b) and type(a) == type(b)


def g_ins(inst, ins, ipool):
    """Gallina rendering of the pushed notifications (elements through the instance's own encoder, if any)"""
    enc_in = inst.get("enc_in")
    if enc_in is None:
        return k2.g_inputs(ins, ipool)

    def one(ev):
        if ev[0] == "N":
            return f"Next {enc_in(ev[1])}"
        if ev[0] == "E":
            return f"Err {gz(k2.err_id(ev[1]))}"
        return "Done"
    return "[" + "; ".join(one(e) for e in ins) + "]"


def gen_case(pool, T, name, case_seed, maxlen=7, gen_inputs=None):
    """everything about one case is drawn from its own seed (recorded in the replay file)"""
    rng = random.Random(case_seed)
    inst = T[name](rng)
    ipool = inst.get("pool", pool)
    if inst.get("gen_inputs") is not None:
        ins = inst["gen_inputs"](rng, maxlen)
    else:
        ins = (gen_inputs or k2.gen_inputs)(rng, ipool, maxlen=maxlen)
    warm = None
    if rng.random() < 0.4:
        if inst.get("gen_inputs") is not None:
            warm = inst["gen_inputs"](rng, 3)[:4]
        elif hasattr(ipool, "values") and not hasattr(ipool, "_ids"):
            warm = ([("N", rng.choice(ipool.values)) for _ in range(rng.choice([1, 2, 3]))]
                    + rng.choice([[], [("E", k2.UserError(14))], [("C",)]]))
        else:
            warm = k2.gen_warmup(rng, ipool)
    return inst, ipool, ins, warm


def judge(name, inst, ipool, ins, warm, expected):
    """run one case on the implementation and evaluate the oracle -> dict"""
    res = k2.run_hot(lambda s: s.pipe(inst["py"]), ins, warmup=warm)
    if res["build_error"] is not None:
        raise RuntimeError(f"{name}: build error {res['build_error']!r}")
    # conforming prefix = what the statement quantifies over
    xs, term, conforming = [], None, True
    for j, e in enumerate(ins):
        if e[0] == "N":
            xs.append(e[1])
        else:
            term = "C" if e[0] == "C" else e[1].code
            conforming = (j == len(ins) - 1)
            break
    exp = expected(inst["spec"], xs, term, ipool)
    got = canon_out(res, inst["spec"], ipool)
    ok = None
    if exp is not None:
        eo, ee = exp
        ok = (len(eo) == len(got[0]) and all(a[0] == b[0] and same(a[1], b[1]) for a, b in zip(eo, got[0]))
              and ee == got[1])
    return dict(res=res, xs=xs, term=term, conforming=conforming, exp=exp, got=got, ok=ok)


def run(chk):
    chk.build_and_prove()
    pool, T = ops_table(extended=True)
    run_table(chk, "C05", pool, T, expected, IMPORTS)
    import sys
    import c05_fwd
    chk.cov["distinct_nontrivial"] += c05_fwd.run_family(chk, sys.modules[__name__], pool, T)
    import c05_feedback
    chk.cov["distinct_nontrivial"] += c05_feedback.run_family(chk, sys.modules[__name__], pool, T)
    chk.cov["rule"] += ("; the table includes (C05 only) dematerialize over notification objects (OnNext / OnError / "
                        "OnCompleted elements, elements after an inner terminal), starmap over tuples (2 arguments, "
                        "10% wrong arity; starmap() without mapper), pluck over dicts keyed by falsy pool values and "
                        "pluck_attr over attribute records (missing key / attribute), map() / map_indexed() / "
                        "default_if_empty() without argument, distinct / distinct_until_changed with key mapper AND "
                        "comparer; comparer variants are judged by the list oracle when the comparer raises on no "
                        "pair of keys of the input"
                        "; scheduler-forwarding family (harness/c05_fwd.py, oracle only; counts in coverage."
                        "sched_forward): every operator of the table x source kind (own recording source subscribed "
                        "with a sentinel scheduler / under TestScheduler.start: every subscription the source receives "
                        "must carry the very scheduler object handed to subscribe; reactivex.interval(p), timer(d, p), "
                        "timer(d), hot.delay(d), from_iterable.delay(d) without scheduler argument: the source alone "
                        "is measured under a fresh TestScheduler and the pipeline must give the list computation over "
                        "that timeline, each output at the virtual time of its input) x mode (single, the operator "
                        "applied twice, operator ; share(), share() ; operator); its non-trivial cases (>=2 source "
                        "elements, non-empty expected output, oracle satisfied) are added to distinct_nontrivial"
                        "; re-entrant feedback family (harness/c05_feedback.py, oracle only; counts in coverage."
                        "feedback): every operator of the table x source (reactivex Subject / hand-made hot probe) x "
                        "seeded nesting script (chain: every on_next of the subscriber pushes the next queued "
                        "notification into the source; random / pairs: 0..2 pushes per on_next; boundary: a single "
                        "nesting on_next): the queue (0..8 elements, then completion / error / nothing) is popped at "
                        "the head by every push, so the order of making is the queue order; judged by the list "
                        "computation over that order with stack-clock tags (an output carries the position of the "
                        "innermost delivery on the stack when it reaches the subscriber); a source terminal made "
                        "re-entrantly: terminal judged up to {list computation's, source's own}; find and element_at "
                        "are compared for coverage only (coverage.feedback.observed_only); its non-trivial cases "
                        "(>= 1 nested push, >= 2 elements, non-empty expected output, oracle satisfied) are added to "
                        "distinct_nontrivial")
    return chk.finish(trusted_extra=["hot-source K2 driver (harness/k2.py); callback tables mirrored in Gallina",
                                     "reactivex.testing.TestScheduler / hot observable and the recording probe source of "
                                     "harness/c05_fwd.py (scheduler-forwarding family)",
                                     "reactivex.subject.Subject as a feedback source and the hand-made hot probe / stack "
                                     "clock of harness/c05_feedback.py (re-entrant feedback family)"])


def run_table(chk, pid, pool, T, expected, IMPORTS, in_ty="Z", ncase=None, maxlen=7, gen_inputs=None):
    """generic K2 loop over a table of operator-instance generators"""
    import reactivex
    ncase = ncase or (40 if chk.tier == "quick" else 400)
    gal = {}      # per (in_ty,ty,eqb) group of cases
    per_op = {}
    meta = []
    nontrivial = set()
    variants = {}
    term_hist = {"C": 0, "E": 0, "none": 0, "nonconforming": 0, "callback_raises": 0, "resubscribed": 0,
                 "judged_by_list_oracle": 0, "model_only": 0}
    for name in T:
        per_op[name] = 0
        for ci in range(ncase):
            case_seed = chk.rng.getrandbits(48)
            inst, ipool, ins, warm = gen_case(pool, T, name, case_seed, maxlen, gen_inputs)
            if warm is not None:
                term_hist["resubscribed"] += 1
            j = judge(name, inst, ipool, ins, warm, expected)
            res, xs, term, exp, got = j["res"], j["xs"], j["term"], j["exp"], j["got"]
            chk.cov["evaluations"] += 1
            per_op[name] += 1
            vkey = f"{name}:{inst['spec'][0]}"
            variants[vkey] = variants.get(vkey, 0) + 1
            term_hist["C" if term == "C" else ("none" if term is None else "E")] += 1
            if not j["conforming"]:
                term_hist["nonconforming"] += 1
            gi = g_ins(inst, ins, ipool)
            sig = f"{name}|{inst['coq']}|{gi}"
            rep = {"table": pid, "operator": name, "case_seed": case_seed, "instance": inst["coq"],
                   "inputs (ids into pool)": gi, "pool": [repr(v) for v in getattr(ipool, "values", [])]}
            # --- oracle: python list computation (well-formed prefix; later inputs must change nothing)
            if res["escapes"]:
                chk.violation(f"escape|{name}|{type(res['escapes'][0][1]).__name__}",
                              dict(rep, escaped=[(t, repr(e)) for t, e in res["escapes"]],
                                   expected="no exception propagates into the emitter"), size=len(ins))
            elif exp is not None:
                eo, ee = exp
                term_hist["judged_by_list_oracle"] += 1
                if j["ok"] and eo and len(xs) > 1:
                    nontrivial.add(sig)
                if any(e[1] == ("E", c) for e in [ee] if e for c in (21, 22, 31, 32, 51, 52, 53)):
                    term_hist["callback_raises"] += 1
                if not j["ok"]:
                    chk.violation(f"list-semantics|{name}|{gi}|{inst['coq'][:60]}",
                                  dict(rep, **{"implementation (tag, value)": repr(got), "expected": repr(exp),
                                               "oracle": "equivalent Python list computation, outputs tagged with "
                                                         "the input that determines them"}), size=len(ins))
            else:
                term_hist["model_only"] += 1
            # --- model side
            enc = inst["enc"]
            if inst.get("find_enc"):
                # find emits None both as 'absent' and as a found None element: decide by tag
                last_tag = res["out"][0][0] if res["out"] else None
                enc.none_is_absent = (term == "C" and last_tag == len(xs) + 1)
            ity = inst.get("in_ty", in_ty)
            key = (ity, inst["ty"], inst["eqb"])
            gal.setdefault(key, []).append((f"({inst['coq']}, {gi})", k2.g_out(res, enc)))
            meta.append((key, len(gal[key]) - 1, name, inst["coq"], gi))
    total_bad = 0
    for (ity, ty, eqb), cases in gal.items():
        prelude = (f"Definition model (c : mealy {ity} {ty} * list (ev {ity})) := exec (fst c) (snd c).\n")
        bad, logs = lib.correspondence(pid, "k2_" + str(abs(hash((ity, ty, eqb))) % 10**6), IMPORTS,
                                       f"(mealy {ity} {ty} * list (ev {ity})) * list (nat * ev {ty})",
                                       "model", f"(tagged_eqb {eqb})", cases, prelude=prelude)
        chk.cov["traces_validated_against_impl"] += len(cases)
        chk.cov["disagreements_checked"] += len(cases)
        if bad:
            total_bad += len(bad)
            firsts = [cases[i] for i in bad if i >= 0][:3]
            detail = {"n": len(bad), "first (machine+inputs, implementation output)": firsts, "logs": logs[:1]}
            if firsts:
                detail["model_says"] = lib.coq_show(pid, IMPORTS, f"model {firsts[0][0]}", prelude)
            chk.tie_broken(f"correspondence K2 ({ity} -> {ty}): machine vs implementation", detail)
    chk.cov["distinct_nontrivial"] = len(nontrivial)
    chk.cov["rule"] = ("per operator: seeded random instance (callback tables over a 16-value pool headed by the "
                       "falsy values; ~15% raising callbacks) x seeded input (0..7 elements, completion/error/"
                       "no terminal, 20% non-conforming tails); non-trivial = distinct (operator instance, input) "
                       "with >=2 source elements, a non-empty expected output and the oracle satisfied")
    chk.cov["input_distribution"] = {"per_operator": per_op, "per_variant": variants, "terminals": term_hist}
    chk.cov["operators_modelled"] = sorted(T)
    chk.add_samples([{"operator": m[2], "machine": m[3], "inputs": m[4]}
                     for m in meta[::max(1, len(meta) // 5)]])


def replay_table(chk, path, pid, pool, T, expected, gen_inputs=None):
    """re-generate the recorded case from its seed, run it on the current tree, re-evaluate the oracle"""
    d = json.load(open(path))
    if "case_seed" not in d or d.get("operator") not in T:
        print(json.dumps(d, indent=1))
        return 1
    name = d["operator"]
    inst, ipool, ins, warm = gen_case(pool, T, name, d["case_seed"], 7, gen_inputs)
    j = judge(name, inst, ipool, ins, warm, expected)
    print(f"[{pid}] replay {name}  machine: {inst['coq']}")
    print(f"  inputs        : {g_ins(inst, ins, ipool)}" + ("   (after an abandoned earlier subscription)" if warm else ""))
    print(f"  implementation: {j['got']!r}   escapes: {[(t, repr(e)) for t, e in j['res']['escapes']]}")
    print(f"  expected      : {j['exp']!r}")
    if j["res"]["escapes"] or j["ok"] is False:
        print(f"VIOLATION property={pid} replay={path}")
        return 1
    print(f"[{pid}] the recorded case no longer fails on the current tree")
    return 0


def replay(chk, path):
    pool, T = ops_table(extended=True)
    d = json.load(open(path))
    if d.get("family") == "sched_forward":
        import sys
        import c05_fwd
        return c05_fwd.replay(chk, sys.modules[__name__], d, path, pool, T)
    if d.get("family") == "feedback":
        import sys
        import c05_feedback
        return c05_feedback.replay(chk, sys.modules[__name__], d, path, pool, T)
    return replay_table(chk, path, "C05", pool, T, expected)
