"""C05 -- element-wise operators match their list semantics.

Theorems (Props/C05.v): for every finite input, exec(machine)(events xs t) is
the tagged list computation.  Tie: K2 -- each machine of Ops/Elementwise.v is
run by Coq on exactly the inputs pushed through the real operator (hot source,
conforming and non-conforming, raising callbacks); oracle: the Python list
computation, evaluated directly on the implementation's output."""
import json

import k2
import lib
from k2 import Pool, POOL, UserError
from lib import gz, glist, gbool, gopt

IMPORTS = "Base.Prelude Base.CaseLib Ops.Machine Ops.Elementwise"


def ops_table(values=None):
    import reactivex as rx
    from reactivex import operators as ops
    from reactivex.notification import OnNext, OnError, OnCompleted
    pool = Pool(values if values is not None else POOL)
    K = pool.K
    idenc = lambda v: gz(pool.id(v))
    T = {}

    def reg(name, gen):
        T[name] = gen

    def idx(t):   # indexed callback from a table
        return (lambda v, i: t.at_call(v, i))

    class IdxTable(k2.Table):
        def call2(self, v, i):
            j = (self.pool.id(v) + i) % K
            self.calls.append(j)
            k2.CALLS.append(k2.CURRENT_TAG[0])
            r = self.at(j)
            if r[0] == "raise":
                raise UserError(r[1])
            return self.post(r[1])

        def gallina2(self):
            return f"(fun x i => {self.gallina()} ((x + Z.of_nat i) mod {K}))"

    def idx_pred(rng):
        t = k2.rand_pred(rng, pool)
        it = IdxTable(pool, t.entries, t.default, gbool)
        return it

    def idx_map(rng):
        t = k2.rand_map(rng, pool)
        it = IdxTable(pool, t.entries, t.default, gz, post=lambda i: pool.val(i))
        return it

    Z = dict(ty="Z", eqb="Z.eqb", enc=idenc, poolvals=True)

    def g_map(rng):
        f = k2.rand_map(rng, pool)
        return dict(py=ops.map(f), coq=f"op_map {f.gallina()}", spec=("map", f), **Z)
    reg("map", g_map)

    def g_map_indexed(rng):
        f = idx_map(rng)
        return dict(py=ops.map_indexed(f.call2), coq=f"op_map_indexed {f.gallina2()}", spec=("map_indexed", f), **Z)
    reg("map_indexed", g_map_indexed)

    def g_filter(rng):
        p = k2.rand_pred(rng, pool)
        return dict(py=ops.filter(p), coq=f"op_filter {p.gallina()}", spec=("filter", p), **Z)
    reg("filter", g_filter)

    def g_filter_indexed(rng):
        p = idx_pred(rng)
        return dict(py=ops.filter_indexed(p.call2), coq=f"op_filter_indexed {p.gallina2()}",
                    spec=("filter_indexed", p), **Z)
    reg("filter_indexed", g_filter_indexed)

    def g_take(rng):
        n = rng.choice([0, 1, 2, 3, 5, 9])
        return dict(py=ops.take(n), coq=f"op_take {n}", spec=("take", n), **Z)
    reg("take", g_take)

    def g_skip(rng):
        n = rng.choice([0, 1, 2, 3, 5, 9])
        return dict(py=ops.skip(n), coq=f"op_skip {n}", spec=("skip", n), **Z)
    reg("skip", g_skip)

    def g_take_while(rng):
        p = k2.rand_pred(rng, pool)
        inc = rng.random() < 0.5
        return dict(py=ops.take_while(p, inclusive=inc), coq=f"op_take_while {p.gallina()} {gbool(inc)}",
                    spec=("take_while", p, inc), **Z)
    reg("take_while", g_take_while)

    def g_take_while_indexed(rng):
        p = idx_pred(rng)
        inc = rng.random() < 0.5
        return dict(py=ops.take_while_indexed(p.call2, inclusive=inc),
                    coq=f"op_take_while_indexed {p.gallina2()} {gbool(inc)}",
                    spec=("take_while_indexed", p, inc), **Z)
    reg("take_while_indexed", g_take_while_indexed)

    def g_skip_while(rng):
        p = k2.rand_pred(rng, pool)
        return dict(py=ops.skip_while(p), coq=f"op_skip_while {p.gallina()}", spec=("skip_while", p), **Z)
    reg("skip_while", g_skip_while)

    def g_skip_while_indexed(rng):
        p = idx_pred(rng)
        return dict(py=ops.skip_while_indexed(p.call2), coq=f"op_skip_while_indexed {p.gallina2()}",
                    spec=("skip_while_indexed", p), **Z)
    reg("skip_while_indexed", g_skip_while_indexed)

    cls_tbl = "(tbl [" + "; ".join(f"({i}, Ok {c})" for i, c in enumerate(pool.cls)) + "] (Ok 0))"
    eq_cmp = (f"(fun a b => match {cls_tbl} a, {cls_tbl} b with Ok x, Ok y => Ok (x =? y) "
              f"| _, _ => Raise 0 end)")

    def g_distinct(rng):
        mode = rng.choice(["plain", "key", "cmp"])
        if mode == "plain":
            return dict(py=ops.distinct(), coq=f"op_distinct (fun x => Ok x) {eq_cmp}", spec=("distinct",), **Z)
        if mode == "key":
            f = k2.rand_map(rng, pool)
            return dict(py=ops.distinct(f), coq=f"op_distinct {f.gallina()} {eq_cmp}", spec=("distinct_key", f), **Z)
        # comparer that may raise: defined on (a+b) mod K
        p = k2.rand_pred(rng, pool)

        def cmp(a, b):
            j = (pool.id(a) + pool.id(b)) % K
            r = p.at(j)
            if r[0] == "raise":
                raise UserError(r[1])
            return r[1]
        return dict(py=ops.distinct(None, cmp),
                    coq=f"op_distinct (fun x => Ok x) (fun a b => {p.gallina()} ((a + b) mod {K}))",
                    spec=("distinct_cmp", p), **Z)
    reg("distinct", g_distinct)

    def g_duc(rng):
        mode = rng.choice(["plain", "key", "cmp"])
        if mode == "plain":
            return dict(py=ops.distinct_until_changed(),
                        coq=f"op_distinct_until_changed (fun x => Ok x) {eq_cmp}", spec=("duc",), **Z)
        if mode == "key":
            f = k2.rand_map(rng, pool)
            return dict(py=ops.distinct_until_changed(f),
                        coq=f"op_distinct_until_changed {f.gallina()} {eq_cmp}", spec=("duc_key", f), **Z)
        p = k2.rand_pred(rng, pool)

        def cmp(a, b):
            j = (pool.id(a) + pool.id(b)) % K
            r = p.at(j)
            if r[0] == "raise":
                raise UserError(r[1])
            return r[1]
        return dict(py=ops.distinct_until_changed(None, cmp),
                    coq=f"op_distinct_until_changed (fun x => Ok x) (fun a b => {p.gallina()} ((a + b) mod {K}))",
                    spec=("duc_cmp", p), **Z)
    reg("distinct_until_changed", g_duc)

    def g_pairwise(rng):
        return dict(py=ops.pairwise(), coq="op_pairwise", ty="(Z * Z)", eqb="(pair_eqb Z.eqb Z.eqb)",
                    enc=lambda v: f"({gz(pool.id(v[0]))}, {gz(pool.id(v[1]))})", spec=("pairwise",))
    reg("pairwise", g_pairwise)

    def g_start_with(rng):
        args = [pool.val(rng.randrange(K)) for _ in range(rng.choice([0, 1, 2, 3]))]
        return dict(py=ops.start_with(*args), coq=f"op_start_with {glist([pool.id(a) for a in args])}",
                    spec=("start_with", args), **Z)
    reg("start_with", g_start_with)

    def g_die(rng):
        d = pool.val(rng.randrange(K))
        return dict(py=ops.default_if_empty(d), coq=f"op_default_if_empty {gz(pool.id(d))}",
                    spec=("default_if_empty", d), **Z)
    reg("default_if_empty", g_die)

    reg("ignore_elements", lambda rng: dict(py=ops.ignore_elements(), coq="op_ignore_elements",
                                            spec=("ignore_elements",), **Z))

    def g_take_last(rng):
        n = rng.choice([0, 1, 2, 3, 5, 9])
        return dict(py=ops.take_last(n), coq=f"op_take_last {n}", spec=("take_last", n), **Z)
    reg("take_last", g_take_last)

    def g_skip_last(rng):
        n = rng.choice([0, 1, 2, 3, 5, 9])
        return dict(py=ops.skip_last(n), coq=f"op_skip_last {n}", spec=("skip_last", n), **Z)
    reg("skip_last", g_skip_last)

    def g_tlb(rng):
        n = rng.choice([0, 1, 2, 3, 5, 9])
        return dict(py=ops.take_last_buffer(n), coq=f"op_take_last_buffer {n}", ty="(list Z)",
                    eqb="(list_eqb Z.eqb)", enc=lambda v: glist([pool.id(x) for x in v]),
                    spec=("take_last_buffer", n), snapshot=True)
    reg("take_last_buffer", g_tlb)

    def g_element_at(rng):
        n = rng.choice([0, 1, 2, 4, 8])
        if rng.random() < 0.5:
            d = pool.val(rng.randrange(K))
            return dict(py=ops.element_at_or_default(n, d),
                        coq=f"op_element_at {n} (Some {gz(pool.id(d))}) (-1)", spec=("element_at", n, True, d), **Z)
        return dict(py=ops.element_at(n), coq=f"op_element_at {n} None (-1)", spec=("element_at", n, False, None), **Z)
    reg("element_at", g_element_at)

    def g_find(rng):
        p = idx_pred(rng)
        yi = rng.random() < 0.5

        def pred3(v, i, src):
            return p.call2(v, i)

        def enc(v):
            if yi:
                return f"(inr {gz(v)})"
            return "(inl None)" if (v is None and enc.none_is_absent) else f"(inl (Some {gz(pool.id(v))}))"
        enc.none_is_absent = False
        return dict(py=(ops.find_index(pred3) if yi else ops.find(pred3)),
                    coq=f"op_find {p.gallina2()} {gbool(yi)}", ty="(option Z + Z)",
                    eqb="(sum_eqb (option_eqb Z.eqb) Z.eqb)", enc=enc, spec=("find", p, yi), find_enc=True)
    reg("find", g_find)

    def g_materialize(rng):
        def enc(n):
            if isinstance(n, OnNext):
                return f"(Next {gz(pool.id(n.value))})"
            if isinstance(n, OnError):
                return f"(Err {gz(k2.err_id(n.exception))})"
            return "Done"
        return dict(py=ops.materialize(), coq="op_materialize", ty="(ev Z)", eqb="(ev_eqb Z.eqb)", enc=enc,
                    spec=("materialize",))
    reg("materialize", g_materialize)
    return pool, T


def expected(spec, xs, term, pool):
    """The equivalent Python list computation: -> (elements, terminal) where
    terminal is 'C', ('E', code) or None (no terminal yet); with the tag of every
    output (position of the input that determines it)."""
    name = spec[0]
    n = len(xs)
    out = []          # (tag, value)
    end = None        # (tag, 'C' | ('E', code))
    tin = n + 1       # tag of the source terminal

    def src_end():
        if term == "C":
            return (tin, "C")
        if term is None:
            return None
        return (tin, ("E", term))

    def call(t, *a):
        try:
            return ("ok", t(*a) if not hasattr(t, "call2") or len(a) == 1 else t.call2(*a))
        except UserError as e:
            return ("raise", e.code)

    if name in ("map", "filter", "take_while", "skip_while"):
        f = spec[1]
        running = (name == "skip_while")
        skipping = True
        for k, x in enumerate(xs):
            r = call(f, x) if not (name == "skip_while" and not skipping) else ("ok", False)
            if r[0] == "raise":
                end = (k + 1, ("E", r[1]))
                break
            if name == "map":
                out.append((k + 1, r[1]))
            elif name == "filter":
                if r[1]:
                    out.append((k + 1, x))
            elif name == "take_while":
                if r[1]:
                    out.append((k + 1, x))
                else:
                    if spec[2]:
                        out.append((k + 1, x))
                    end = (k + 1, "C")
                    break
            else:
                if skipping and r[1]:
                    continue
                skipping = False
                out.append((k + 1, x))
        return out, end or src_end()
    if name in ("map_indexed", "filter_indexed", "take_while_indexed", "skip_while_indexed"):
        f = spec[1]
        skipping = True
        for k, x in enumerate(xs):
            if name == "skip_while_indexed" and not skipping:
                out.append((k + 1, x))
                continue
            try:
                r = ("ok", f.call2(x, k))
            except UserError as e:
                r = ("raise", e.code)
            if r[0] == "raise":
                end = (k + 1, ("E", r[1]))
                break
            if name == "map_indexed":
                out.append((k + 1, r[1]))
            elif name == "filter_indexed":
                if r[1]:
                    out.append((k + 1, x))
            elif name == "take_while_indexed":
                if r[1]:
                    out.append((k + 1, x))
                else:
                    if spec[2]:
                        out.append((k + 1, x))
                    end = (k + 1, "C")
                    break
            else:
                if r[1]:
                    continue
                skipping = False
                out.append((k + 1, x))
        return out, end or src_end()
    if name == "take":
        c = spec[1]
        if c == 0:
            return [], (0, "C")
        out = [(k + 1, x) for k, x in enumerate(xs[:c])]
        return out, ((c, "C") if n >= c else src_end())
    if name == "skip":
        return [(k + 1, x) for k, x in enumerate(xs) if k >= spec[1]], src_end()
    if name == "pairwise":
        return [(k + 2, (xs[k], xs[k + 1])) for k in range(n - 1)], src_end()
    if name == "start_with":
        return [(0, a) for a in spec[1]] + [(k + 1, x) for k, x in enumerate(xs)], src_end()
    if name == "default_if_empty":
        if term == "C" and n == 0:
            return [(tin, spec[1])], (tin, "C")
        return [(k + 1, x) for k, x in enumerate(xs)], src_end()
    if name == "ignore_elements":
        return [], src_end()
    if name == "take_last":
        if term == "C":
            c = spec[1]
            return [(tin, x) for x in (xs[-c:] if c else [])], (tin, "C")
        return [], src_end()
    if name == "skip_last":
        c = spec[1]
        return [(k + c + 1, x) for k, x in enumerate(xs[:max(0, n - c)])], src_end()
    if name == "take_last_buffer":
        if term == "C":
            c = spec[1]
            return [(tin, (xs[-c:] if c else []))], (tin, "C")
        return [], src_end()
    if name == "element_at":
        _, i, has_d, d = spec
        if n > i:
            return [(i + 1, xs[i])], (i + 1, "C")
        if term == "C":
            return ([(tin, d)], (tin, "C")) if has_d else ([], (tin, ("E", -1)))
        return [], src_end()
    if name == "find":
        _, p, yi = spec
        for k, x in enumerate(xs):
            try:
                r = p.call2(x, k)
            except UserError as e:
                return [], (k + 1, ("E", e.code))
            if r:
                return [(k + 1, k if yi else x)], (k + 1, "C")
        if term == "C":
            return [(tin, -1 if yi else None)], (tin, "C")
        return [], src_end()
    if name == "materialize":
        from reactivex.notification import OnNext, OnError, OnCompleted
        out = [(k + 1, ("N", x)) for k, x in enumerate(xs)]
        if term == "C":
            return out + [(tin, ("C",))], (tin, "C")
        if term is None:
            return out, None
        return out + [(tin, ("E", term))], (tin, "C")
    if name in ("distinct", "distinct_key", "duc", "duc_key"):
        keyf = spec[1] if len(spec) > 1 else None
        seen, last, has = [], None, False
        for k, x in enumerate(xs):
            if keyf is not None:
                try:
                    key = keyf(x)
                except UserError as e:
                    return out, (k + 1, ("E", e.code))
            else:
                key = x
            if name.startswith("distinct"):
                if not any(s == key for s in seen):
                    seen.append(key)
                    out.append((k + 1, x))
            else:
                if not has or not (last == key):
                    has, last = True, key
                    out.append((k + 1, x))
        return out, src_end()
    return None   # no independent oracle for this variant (model comparison only)


def canon_out(res, spec, pool):
    """implementation output in the oracle's vocabulary"""
    out, end = [], None
    from reactivex.notification import OnNext, OnError, OnCompleted
    for (t, k, p) in res["out"]:
        if k == "N":
            if spec[0] == "materialize":
                if isinstance(p, OnNext):
                    p = ("N", p.value)
                elif isinstance(p, OnError):
                    p = ("E", k2.err_id(p.exception))
                else:
                    p = ("C",)
            out.append((t, p))
        elif k == "E":
            end = (t, ("E", k2.err_id(p)))
        else:
            end = (t, "C")
    return out, end


def same(a, b):
    """equality that distinguishes None/0/False/''/() etc. (type and repr)"""
    return repr(a) == repr(b) and type(a) == type(b)


def run(chk):
    chk.build_and_prove()
    pool, T = ops_table()
    run_table(chk, "C05", pool, T, expected, IMPORTS)
    return chk.finish(trusted_extra=["hot-source K2 driver (harness/k2.py); callback tables mirrored in Gallina"])


def run_table(chk, pid, pool, T, expected, IMPORTS, in_ty="Z", ncase=None, maxlen=7, gen_inputs=None):
    """generic K2 loop over a table of operator-instance generators"""
    import reactivex
    ncase = ncase or (40 if chk.tier == "quick" else 400)
    gal = {}      # per (ty,eqb) group of cases
    per_op = {}
    meta = []
    nontrivial = set()
    term_hist = {"C": 0, "E": 0, "none": 0, "nonconforming": 0, "callback_raises": 0}
    for name, gen in T.items():
        per_op[name] = 0
        for ci in range(ncase):
            inst = gen(chk.rng)
            ins = (gen_inputs or k2.gen_inputs)(chk.rng, inst.get("pool", pool), maxlen=maxlen)
            snapshot = inst.get("snapshot")
            warm = None
            if chk.rng.random() < 0.4:
                ip = inst.get("pool", pool)
                warm = ([("N", chk.rng.choice(ip.values)) for _ in range(chk.rng.choice([1, 2, 3]))]
                        + chk.rng.choice([[], [("E", k2.UserError(14))], [("C",)]])) if hasattr(ip, "values") and not hasattr(ip, "_ids") \
                    else k2.gen_warmup(chk.rng, ip)
                term_hist["resubscribed"] = term_hist.get("resubscribed", 0) + 1
            res = k2.run_hot(lambda s: s.pipe(inst["py"]), ins, warmup=warm)
            chk.cov["evaluations"] += 1
            per_op[name] += 1
            if res["build_error"] is not None:
                raise RuntimeError(f"{name}: build error {res['build_error']!r}")
            # conforming prefix = what the statement quantifies over
            xs, term, conforming = [], None, True
            for j, e in enumerate(ins):
                if e[0] == "N":
                    xs.append(e[1])
                else:
                    term = "C" if e[0] == "C" else e[1].code
                    conforming = (j == len(ins) - 1)
                    break
            term_hist["C" if term == "C" else ("none" if term is None else "E")] += 1
            if not conforming:
                term_hist["nonconforming"] += 1
            ipool = inst.get("pool", pool)
            sig = f"{name}|{inst['coq']}|{k2.g_inputs(ins, ipool)}"
            # --- oracle: python list computation (well-formed prefix; later inputs must change nothing)
            exp = expected(inst["spec"], xs, term, ipool)
            got = canon_out(res, inst["spec"], ipool)
            if res["escapes"]:
                chk.violation(f"escape|{name}|{type(res['escapes'][0][1]).__name__}",
                              {"operator": name, "instance": inst["coq"], "inputs": k2.g_inputs(ins, ipool),
                               "escaped": [(t, repr(e)) for t, e in res["escapes"]],
                               "expected": "no exception propagates into the emitter"}, size=len(ins))
            elif exp is not None:
                eo, ee = exp
                ok = (len(eo) == len(got[0]) and all(a[0] == b[0] and same(a[1], b[1]) for a, b in zip(eo, got[0]))
                      and ee == got[1])
                if ok and eo and len(xs) > 1:
                    nontrivial.add(sig)
                if any(e[1] == ("E", c) for e in [ee] if e for c in (21, 22, 31, 32)):
                    term_hist["callback_raises"] += 1
                if not ok:
                    chk.violation(f"list-semantics|{name}|{k2.g_inputs(ins, ipool)}|{inst['coq'][:60]}",
                                  {"operator": name, "instance": inst["coq"],
                                   "inputs (ids into pool)": k2.g_inputs(ins, ipool),
                                   "pool": [repr(v) for v in pool.values],
                                   "implementation (tag, value)": repr(got), "expected": repr(exp),
                                   "oracle": "equivalent Python list computation, outputs tagged with the "
                                             "input that determines them"}, size=len(ins))
            # --- model side
            enc = inst["enc"]
            if inst.get("find_enc"):
                # find emits None both as 'absent' and as a found None element: decide by tag
                def enc2(v, _enc=enc, _res=res, _n=len(xs)):
                    return _enc(v)
                last_tag = res["out"][0][0] if res["out"] else None
                enc.none_is_absent = (term == "C" and last_tag == len(xs) + 1)
            key = (inst["ty"], inst["eqb"])
            gal.setdefault(key, []).append(
                (f"({inst['coq']}, {k2.g_inputs(ins, ipool)})", k2.g_out(res, enc)))
            meta.append((key, len(gal[key]) - 1, name, inst["coq"], k2.g_inputs(ins, ipool)))
    total_bad = 0
    for (ty, eqb), cases in gal.items():
        prelude = (f"Definition model (c : mealy {in_ty} {ty} * list (ev {in_ty})) := exec (fst c) (snd c).\n")
        bad, logs = lib.correspondence(pid, "k2_" + str(abs(hash((ty, eqb))) % 10**6), IMPORTS,
                                       f"(mealy {in_ty} {ty} * list (ev {in_ty})) * list (nat * ev {ty})",
                                       "model", f"(tagged_eqb {eqb})", cases, prelude=prelude)
        chk.cov["traces_validated_against_impl"] += len(cases)
        chk.cov["disagreements_checked"] += len(cases)
        if bad:
            total_bad += len(bad)
            firsts = [cases[i] for i in bad if i >= 0][:3]
            detail = {"n": len(bad), "first (machine+inputs, implementation output)": firsts, "logs": logs[:1]}
            if firsts:
                detail["model_says"] = lib.coq_show(pid, IMPORTS, f"model {firsts[0][0]}", prelude)
            chk.tie_broken(f"correspondence K2 ({ty}): machine vs implementation", detail)
    chk.cov["distinct_nontrivial"] = len(nontrivial)
    chk.cov["rule"] = ("per operator: seeded random instance (callback tables over a 16-value pool headed by the "
                       "falsy values; ~15% raising callbacks) x seeded input (0..7 elements, completion/error/"
                       "no terminal, 20% non-conforming tails); non-trivial = distinct (operator instance, input) "
                       "with >=2 source elements, a non-empty expected output and the oracle satisfied")
    chk.cov["input_distribution"] = {"per_operator": per_op, "terminals": term_hist}
    chk.cov["operators_modelled"] = sorted(T)
    chk.add_samples([{"operator": m[2], "machine": m[3], "inputs": m[4]}
                     for m in meta[::max(1, len(meta) // 5)]])


def replay(chk, path):
    print(open(path).read())
    return 1
