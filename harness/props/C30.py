"""C30 -- trampoline scheduling is same-thread, FIFO and never nested.

Theorems (Props/C30.v) are about Core/Trampoline.v for ALL histories, ALL
schedules of any number of threads.  Tie:
  K1  exhaustive-small and random trees of schedule / schedule_relative /
      schedule_absolute / cancel / sleep / raise / schedule_required /
      ensure_trampoline calls, on TrampolineScheduler instances,
      CurrentThreadScheduler() instances and the current-thread singleton, run
      on one fresh thread of the real schedulers with logging actions (label,
      thread, clock at run, nesting depth on the trampoline and on the thread)
      under a controlled clock (default_now and Condition.wait rebound from the
      harness side); Coq evaluates `run_history` on the same history
      (vm_compute) and compares every observation.
  K3  two logical threads (real threads gated by the baton controller of
      harness/k3.py; yield points = every acquisition of the trampoline lock,
      return from Condition.wait, every command of a harness action) using a
      shared TrampolineScheduler, CurrentThreadScheduler instances and the
      singleton; schedules enumerated up to a preemption bound plus seeded random
      ones; Coq runs `macro_run` under the SAME schedule and compares the
      observations and whether all threads finished.
Oracle: tramp.oracle, a direct predicate of the statement on the raw trace of the
implementation (nested / wrong thread / early / cancelled-ran / order / lost).
Cancellation goes through the PUBLIC handle (the disposable returned by the schedule call) whenever
that call has returned; half of the sampled / random histories hand their relative and absolute
times over as float or int seconds (same model history: the representation must not matter); every
schedule call passes a `state` token and the action records whether it got it back."""
import ast
import itertools
import json
import os
import random

import k3
import lib
import tramp

U = tramp.US
IMPORTS = "Base.Prelude Core.Trampoline"
PRE1 = """
Definition model (c : Z * list cmd) : list oev := observe (run_history (Cfg false) (fst c) (snd c)).
"""
TY1 = "(Z * list cmd) * list oev"
PRE3 = """
Definition model (c : Z * list (list cmd) * list nat) : list oev * bool :=
  let '(c0, hs, sch) := c in
  let cf := macro_run (Cfg false) 1000 (start_config c0 hs) sch in
  (obs_of (log (fst cf)) [], all_done (snd cf)).
Definition res_eqb (a b : list oev * bool) : bool :=
  list_eqb oev_eqb (fst a) (fst b) && Bool.eqb (snd a) (snd b).
"""
TY3 = "(Z * list (list cmd) * list nat) * (list oev * bool)"

EXPECTED = ("C30: actions run on the scheduling thread (current-thread schedulers), one at a time per trampoline, "
            "in due-time order and first-scheduled-first among equal due times, never nested, never before their "
            "due time, never after being cancelled, and every scheduled action that is not cancelled runs")


# --------------------------------------------------------------------------
# structure of the code: which accesses are under the trampoline lock
# --------------------------------------------------------------------------

def lock_shape():
    """Fail-closed description of the lock structure of Trampoline: per method the list of
    `with self._lock:` blocks, each with the self attributes it touches and whether it waits /
    notifies; plus the calls made outside any locked block."""
    path = os.path.join(lib.REPO, "reactivex/scheduler/trampoline.py")
    tree = ast.parse(open(path).read())
    cls = [n for n in tree.body if isinstance(n, ast.ClassDef) and n.name == "Trampoline"][0]
    out = {}
    for fn in cls.body:
        if not isinstance(fn, ast.FunctionDef) or fn.name == "__init__":
            continue
        blocks, locked_nodes = [], set()
        for n in ast.walk(fn):
            if isinstance(n, ast.With) and len(n.items) == 1 and ast.unparse(n.items[0].context_expr) == "self._lock":
                attrs = sorted({m.attr for m in ast.walk(n) if isinstance(m, ast.Attribute)
                                and isinstance(m.value, ast.Name) and m.value.id == "self"} - {"_lock"})
                calls = sorted({ast.unparse(m.func) for m in ast.walk(n) if isinstance(m, ast.Call)})
                blocks.append({"attrs": attrs, "calls": calls})
                for m in ast.walk(n):
                    locked_nodes.add(id(m))
        unlocked = sorted({m.attr for m in ast.walk(fn) if isinstance(m, ast.Attribute) and id(m) not in locked_nodes
                           and isinstance(m.value, ast.Name) and m.value.id == "self"} - {"_lock"})
        out[fn.name] = {"locked_blocks": blocks, "self_attrs_outside_lock": unlocked}
    return out


EXPECTED_SHAPE = {
    "idle": {"locked_blocks": [{"attrs": ["_idle"], "calls": []}], "self_attrs_outside_lock": []},
    "run": {"locked_blocks": [{"attrs": ["_condition", "_idle", "_queue"],
                               "calls": ["self._condition.notify", "self._queue.enqueue"]},
                              {"attrs": ["_idle", "_queue"], "calls": ["self._queue.clear"]}],
            "self_attrs_outside_lock": ["_run"]},
    "_run": {"locked_blocks": [{"attrs": ["_queue"],
                                "calls": ["len", "ready.append", "self._queue.dequeue", "self._queue.peek"]},
                               {"attrs": ["_condition", "_idle", "_queue"],
                                "calls": ["(item.duetime - item.scheduler.now).total_seconds", "len",
                                          "self._condition.wait", "self._queue.peek"]}],
             "self_attrs_outside_lock": []},
}


# --------------------------------------------------------------------------
# case generation
# --------------------------------------------------------------------------

def alphabet():
    L = 0
    T0, C0, S = ["TS", 0], ["CT", 0], ["CTS"]
    A = []
    for s in (T0, S):
        for w in (["now"], ["rel", U], ["rel", -U], ["abs", 0], ["abs", 2 * U]):
            A.append(["sched", s, w, L, []])
    bodies = [[["sched", T0, ["now"], L, []]], [["sched", T0, ["rel", U], L, []]], [["sched", S, ["now"], L, []]],
              [["cancel", 0]], [["cancel", 1]], [["sleep", U]], [["raise", 1]], [["required", T0]],
              [["ensure", T0, L, []]], [["sched", T0, ["rel", 2 * U], L, []], ["sched", T0, ["rel", U], L, []]]]
    for s, w in ((T0, ["now"]), (T0, ["rel", U]), (C0, ["now"])):
        for b in bodies:
            A.append(["sched", s, w, L, b])
    A += [["cancel", 0], ["cancel", 1], ["sleep", U], ["required", T0], ["required", S],
          ["ensure", T0, L, [["required", T0]]], ["ensure", S, L, [["sched", S, ["now"], L, []]]], ["raise", 2]]
    return A


def gen_k1(tier, rng):
    A = alphabet()
    out = []
    for n in (1, 2):
        for tup in itertools.product(A, repeat=n):
            out.append((0, tramp.relabel([list(tup)])[0], f"exhaustive{n}"))
    n3, nr = (40000, 30000) if tier == "thorough" else (1000, 1800)
    if tier == "thorough":
        pass
    for _ in range(n3):
        out.append((0, tramp.relabel([[rng.choice(A) for _ in range(rng.choice([3, 3, 4]))]])[0], "sampled3-4"))
    for _ in range(nr):
        scheds = rng.choice([[["TS", 0]], [["CTS"]], [["TS", 0], ["TS", 1], ["CT", 0], ["CTS"]]])
        g = tramp.Gen(rng, scheds, unit=rng.choice([U, 250000, 1000, 1]), max_depth=rng.choice([1, 2, 3]))
        out.append((rng.choice([0, 0, U]), tramp.relabel([g.history(rng.randrange(1, 7))])[0], "random"))
    # time representation: every timed letter of the alphabet alone and after a sleep with float / int
    # seconds, and half of the sampled / random histories with a random mix (own generator: the
    # histories themselves stay those of the seed)
    rrep = random.Random(rng.getrandbits(32))
    out = [(c0, tramp.vary_rep(h, rrep) if origin != "exhaustive1" and origin != "exhaustive2" and rrep.random() < 0.5
            else h, origin) for (c0, h, origin) in out]
    for a in A:
        for rep in ("f", "i"):
            v = tramp.vary_rep([a], _Always(rep), p=1.0)
            if v != [a]:
                out.append((0, tramp.relabel([v])[0], "representation"))
                out.append((U, tramp.relabel([[["sleep", U // 2]] + v + [["cancel", 0]]])[0], "representation"))
    return out


class _Always:
    """stand-in for the generator of tramp.vary_rep: always the given representation"""

    def __init__(self, rep):
        self.rep = rep

    def random(self):
        return 0.0

    def choice(self, xs):
        return self.rep


def gen_k3(tier, rng):
    """-> list of (c0, [h0, h1], origin, bound, limit)"""
    T0, S, C0 = ["TS", 0], ["CTS"], ["CT", 0]
    out = []
    small = [
        [[["sched", T0, ["now"], 0, []]], [["sched", T0, ["now"], 0, []]]],
        [[["sched", T0, ["now"], 0, [["sched", T0, ["now"], 0, []]]]], [["sched", T0, ["now"], 0, []]]],
        [[["sched", T0, ["rel", U], 0, []]], [["sched", T0, ["now"], 0, []]]],
        [[["sched", T0, ["rel", U], 0, []]], [["sched", T0, ["rel", 2 * U], 0, []], ["cancel", 0]]],
        [[["sched", S, ["now"], 0, [["sched", S, ["now"], 0, []]]]], [["sched", S, ["now"], 0, []]]],
        [[["sched", S, ["now"], 0, [["sched", T0, ["now"], 0, []]]]], [["sched", C0, ["rel", U], 0, []],
                                                                      ["sched", T0, ["now"], 0, []]]],
        [[["sched", T0, ["now"], 0, [["sleep", U]]], ["required", T0]], [["ensure", T0, 0, []], ["required", T0]]],
        [[["sched", T0, ["now"], 0, [["raise", 1]]]], [["sched", T0, ["now"], 0, []], ["sched", T0, ["now"], 0, []]]],
    ]
    for hs in small:
        out.append((0, tramp.relabel(hs), "small", 3 if tier == "thorough" else 2, None))
    n = 400 if tier == "thorough" else 36
    for _ in range(n):
        scheds = rng.choice([[T0], [T0, S], [T0, ["TS", 1], C0, S], [S, C0]])
        g = tramp.Gen(rng, scheds, unit=U, max_depth=rng.choice([1, 2]), p_raise=0.02)
        hs = tramp.relabel([g.history(rng.randrange(1, 4)), g.history(rng.randrange(1, 4))])
        out.append((0, hs, "random", 1 if tier == "quick" else 2, 60 if tier == "quick" else 150))
    rrep = random.Random(rng.getrandbits(32))
    out = [(c0, [tramp.vary_rep(h, rrep) for h in hs] if origin == "random" and rrep.random() < 0.5 else hs,
            origin, b, lim) for (c0, hs, origin, b, lim) in out]
    return out


def features(hs):
    f = []
    for name, kinds in (("cancel", ("cancel",)), ("sleep", ("sleep",)), ("raise", ("raise",)),
                        ("required", ("required",)), ("ensure", ("ensure",))):
        if any(tramp.has(h, kinds) for h in hs):
            f.append(name)

    def timed(h):
        return any((c[0] == "sched" and (c[2][0] != "now" or timed(c[4]))) or (c[0] == "ensure" and timed(c[3]))
                   for c in h)

    def nested(h):
        return any((c[0] == "sched" and c[4]) or (c[0] == "ensure" and c[3]) for c in h)
    if any(timed(h) for h in hs):
        f.append("timed")
    if any(nested(h) for h in hs):
        f.append("nested")
    return f


def sig_of(sig, mode, hs):
    kinds = sorted({k for h in hs for k in _kinds(h)})
    return f"{sig}|{mode}|{'+'.join(kinds)}"


def _kinds(h):
    for c in h:
        if c[0] in ("sched", "required", "ensure"):
            yield c[1][0]
        if c[0] == "sched":
            yield from _kinds(c[4])
        if c[0] == "ensure":
            yield from _kinds(c[3])


# --------------------------------------------------------------------------

def run(chk):
    proved = chk.build_and_prove()
    tier = chk.tier if proved and not chk.broken else "thorough"
    if tier != chk.tier:
        chk.cov["search"] = "theorem or build broke: scope enlarged to thorough"
    hist = {"k1_origin": {}, "k3_origin": {}, "feature": {}, "k3_schedules": 0, "k3_preempting_schedules": 0,
            "ran>=2": 0, "equal_due_pairs": 0}
    failures = []
    nontrivial = set()
    stats = {"cancel_via_public_handle": 0, "cancel_via_item_before_the_call_returned": 0,
             "cancel_by_handle_then_not_run": 0, "time_representation": {}, "state_token_received": 0,
             "state_token_not_received": 0, "state_mismatch_first": None}

    def account(trace, what):
        st = trace[-1] if trace else ("?",)
        if st[0] != "stats":
            # the driver threads did not all run to their end under this schedule (a thread waits for work
            # another thread's trampoline took over, ...): never the case with independent per-thread trampolines
            w = dict(what)
            w["what_failed"] = ["a-thread-does-not-finish-under-this-schedule", "the driver's closing record is missing"]
            failures.append((10 ** 6, f"a-thread-does-not-finish-under-this-schedule|{what.get('mode')}", w))
            return
        stats["cancel_via_public_handle"] += st[1]["handle"]
        stats["cancel_via_item_before_the_call_returned"] += st[1]["item"]
        for k, v in st[2].items():
            stats["time_representation"][k] = stats["time_representation"].get(k, 0) + v
        stats["state_token_received"] += st[3]
        stats["state_token_not_received"] += st[4]
        if st[4] and stats["state_mismatch_first"] is None:
            stats["state_mismatch_first"] = what
        started = {e[1] for e in trace if e[0] == "start"}
        labels = {e[1]: e[5] for e in trace if e[0] == "create"}
        for e in trace:
            if e[0] == "cancel" and e[3] == "handle" and labels.get(e[1]) not in started:
                stats["cancel_by_handle_then_not_run"] += 1

    # ---- structure of the lock blocks ---------------------------------
    try:
        shape = lock_shape()
    except Exception as e:      # fail closed
        shape = {"error": repr(e)}
    if shape != EXPECTED_SHAPE:
        chk.tie_broken("lock structure of reactivex/scheduler/trampoline.py differs from the one modelled "
                       "(Core/Trampoline.v: one micro-step per locked block)", {"found": shape,
                                                                                "modelled": EXPECTED_SHAPE})
    ok, st = k3.self_test(2)
    if not ok:
        chk.tie_broken("k3 controller self-test (a racy toy class must show its race, the locked one not)", st)

    # ---- K1 -------------------------------------------------------------
    import time
    timing = {}
    t0 = time.time()
    cases1 = gen_k1(tier, chk.rng)
    gal1 = []
    for (c0, h, origin) in cases1:
        obs, trace = tramp.run_k1(c0, h)
        account(trace, {"mode": "k1", "c0": c0, "history": h})
        chk.cov["evaluations"] += 1
        hist["k1_origin"][origin] = hist["k1_origin"].get(origin, 0) + 1
        for f in features([h]):
            hist["feature"][f] = hist["feature"].get(f, 0) + 1
        runs = [e for e in trace if e[0] == "start"]
        dues = [(e[3], e[6]) for e in trace if e[0] == "create"]
        if len(dues) != len(set(dues)):
            hist["equal_due_pairs"] += 1
        if len(runs) >= 2:
            hist["ran>=2"] += 1
            nontrivial.add(json.dumps(["k1", c0, h]))
        for sig, detail in tramp.oracle(trace, 1):
            failures.append((tramp.hsize(h) * 100 + len(json.dumps(h)), sig_of(sig, "K1", [h]),
                             {"mode": "k1", "c0": c0, "history": h, "observed": obs, "what_failed": [sig, detail]}))
        gal1.append((f"({lib.gz(c0)}, {tramp.g_body(h)})", tramp.g_obs(obs)))
    timing["k1_impl_s"] = round(time.time() - t0, 1)
    t0 = time.time()
    bad1, logs1 = lib.correspondence("C30", "k1", IMPORTS, TY1, "model", "(list_eqb oev_eqb)", gal1, prelude=PRE1)
    timing["k1_coq_s"] = round(time.time() - t0, 1)
    t0 = time.time()

    # ---- K3 -------------------------------------------------------------
    cases3 = gen_k3(tier, chk.rng)
    gal3, info3 = [], []
    for (c0, hs, origin, bound, limit) in cases3:
        hist["k3_origin"][origin] = hist["k3_origin"].get(origin, 0) + 1
        for f in features(hs):
            hist["feature"][f] = hist["feature"].get(f, 0) + 1

        def run_once(ch, hs=hs, c0=c0):
            sched, obs, trace, done, ctr = tramp.run_k3(c0, hs, ch)
            return ctr, (sched, obs, trace, done, k3.preemptions(ctr))
        try:
            runs = list(k3.explore(run_once, bound, limit=limit))
            for _ in range(6 if tier == "quick" else 30):     # seeded random schedules
                ctr, res = run_once(k3.random_chooser(chk.rng))
                runs.append((res[0], res))
        except k3.ControllerError as e:
            # a scheduling thread blocked (or hung) under a controlled schedule: with independent per-thread
            # trampolines no thread ever waits for another one
            failures.append((sum(tramp.hsize(h) for h in hs) * 100, sig_of("a-thread-blocks-under-some-schedule", "K3", hs),
                             {"mode": "k3-hang", "c0": c0, "histories": hs, "bound": bound, "limit": limit,
                              "what_failed": ["a-thread-blocks-under-some-schedule", repr(e)]}))
            continue
        seen = set()
        for _, (sched, obs, trace, done, npre) in runs:
            key = tuple(sched)
            if key in seen:
                continue
            seen.add(key)
            account(trace, {"mode": "k3", "c0": c0, "histories": hs, "schedule": sched})
            chk.cov["evaluations"] += 1
            hist["k3_schedules"] += 1
            if npre > 0:
                hist["k3_preempting_schedules"] += 1
            if len([e for e in trace if e[0] == "start"]) >= 2:
                nontrivial.add(json.dumps(["k3", hs, sched]))
            for sig, detail in tramp.oracle(trace, 2):
                failures.append((sum(tramp.hsize(h) for h in hs) * 100 + len(sched), sig_of(sig, "K3", hs),
                                 {"mode": "k3", "c0": c0, "histories": hs, "schedule": sched, "observed": obs,
                                  "what_failed": [sig, detail]}))
            gal3.append((f"({lib.gz(c0)}, [{'; '.join(tramp.g_body(h) for h in hs)}], "
                         f"[{'; '.join(lib.gnat(x) for x in sched)}])",
                         f"({tramp.g_obs(obs)}, {lib.gbool(done)})"))
            info3.append((hs, sched))
    timing["k3_impl_s"] = round(time.time() - t0, 1)
    t0 = time.time()
    bad3, logs3 = lib.correspondence("C30", "k3", IMPORTS, TY3, "model", "res_eqb", gal3, prelude=PRE3)
    timing["k3_coq_s"] = round(time.time() - t0, 1)
    chk.cov["timing"] = timing

    # ---- verdicts -----------------------------------------------------------
    failures.sort(key=lambda f: f[0])
    seen = set()
    for size, sig, rep in failures:
        if sig in seen:
            continue
        seen.add(sig)
        rep["expected"] = EXPECTED
        chk.violation(sig, rep, size=size)
    chk.cov["traces_validated_against_impl"] = len(gal1) + len(gal3)
    chk.cov["disagreements_checked"] = len(gal1) + len(gal3)
    if bad1:
        firsts = [i for i in bad1 if i >= 0][:3]
        d = {"n_disagreements": len(bad1), "logs": logs1[:1],
             "first_cases": [{"c0": cases1[i][0], "history": cases1[i][1], "implementation": gal1[i][1]}
                             for i in firsts]}
        if firsts:
            d["model_says"] = lib.coq_show("C30", IMPORTS, f"model {gal1[firsts[0]][0]}", PRE1)
        chk.tie_broken("K1 correspondence: Core/Trampoline.v run_history vs real schedulers (one thread)", d)
    if bad3:
        firsts = [i for i in bad3 if i >= 0][:3]
        d = {"n_disagreements": len(bad3), "logs": logs3[:1],
             "first_cases": [{"histories": info3[i][0], "schedule": info3[i][1], "implementation": gal3[i][1]}
                             for i in firsts]}
        if firsts:
            d["model_says"] = lib.coq_show("C30", IMPORTS, f"model {gal3[firsts[0]][0]}", PRE3)
        chk.tie_broken("K3 correspondence: Core/Trampoline.v macro_run vs real schedulers under the same "
                       "two-thread schedule", d)
    chk.cov["distinct_nontrivial"] = len(nontrivial)
    chk.cov["rule"] = ("K1: all histories of 1..2 top-level calls over a 48-letter alphabet (schedule now / relative "
                       "(also negative) / absolute (also past) on a TrampolineScheduler and on the current-thread "
                       "singleton; actions with one- and two-command bodies that schedule, cancel, sleep, raise, read "
                       "schedule_required, call ensure_trampoline; top-level cancel/sleep/required/ensure/raise), "
                       "seeded samples of length 3..4 over it, and random trees (depth <= 3, 1..6 calls, 1..4 "
                       "scheduler objects of all three kinds, time units 1 s / 0.25 s / 1 ms / 1 us).  K3: 8 fixed "
                       "two-thread scenarios with all schedules up to 2 (thorough: 3) preemptions, random two-thread "
                       "histories with all schedules up to 1 (thorough: 2) preemptions (capped) and seeded random "
                       "schedules.  Cancellation is issued through the disposable RETURNED by the schedule call "
                       "(the internal ScheduledItem.cancel only while that call has not returned); every timed "
                       "alphabet letter alone / after a sleep with float and int seconds, and half of the sampled, "
                       "random and K3-random histories with a random mix of timedelta/datetime, float and int "
                       "seconds (the model history is the same: the representation must not change any "
                       "observation); every schedule call passes a fresh state token (received-back count in "
                       "`api_surface`; the statement is silent about `state`, so a mismatch is recorded, not "
                       "flagged).  non-trivial = distinct (history[, schedule]) in which at least two actions ran")
    chk.cov["input_distribution"] = hist
    chk.cov["api_surface"] = stats
    chk.cov["lock_shape"] = shape
    chk.add_samples([{"mode": "k1", "c0": c[0], "history": c[1]} for c in cases1[::max(1, len(cases1) // 4)]][:4])
    chk.add_samples([{"mode": "k3", "histories": i[0], "schedule": i[1]} for i in info3[::max(1, len(info3) // 2)]])
    return chk.finish(
        trusted_extra=["Core/Trampoline.v is a hand-written model of trampoline.py / trampolinescheduler.py / "
                       "currentthreadscheduler.py / scheduleditem.py / priorityqueue.py (validated by this run's K1 "
                       "and K3 correspondences, not extracted); heapq is abstracted as a list sorted by the tuple "
                       "order",
                       "harness/tramp.py: controlled clock (default_now, Condition.wait rebound in the imported "
                       "modules), recording subclass of ScheduledItem (observation only; it also tells which item a "
                       "schedule call created, so that the handle the call RETURNS can be disposed by `cancel r`; the "
                       "item's own cancel() is used only while that call has not returned), spies; harness/k3.py: "
                       "baton controller (self-tested in this run)",
                       "atomicity: one micro-step = one `with self._lock` block or one unlocked piece with at most "
                       "one shared access; the lock structure of trampoline.py is compared with the modelled one by "
                       "an AST pass on every run; SingleAssignmentDisposable's own lock is treated as atomic"],
        assumptions=["float / int second representations are of whole-microsecond values small enough for the "
                     "conversion to be exact (the model works in microseconds and does not see the representation)",
                     "time values are whole microseconds of moderate size; the clock only moves when an action "
                     "sleeps, when Condition.wait times out, or between micro-steps (Tick)",
                     "K3 explores interleavings at lock-operation granularity (bounded preemptions); the theorems "
                     "cover all interleavings of the model's micro-steps",
                     "run order is claimed for trampolines reachable by one thread only (current-thread "
                     "schedulers, or a single thread) and when nothing is scheduled with a past absolute time: "
                     "on a shared TrampolineScheduler the order is racy (C30_shared_order_is_racy)"])


def replay(chk, path):
    d = json.load(open(path))
    if d.get("mode") == "k1":
        obs, trace = tramp.run_k1(d["c0"], d["history"])
        bad = tramp.oracle(trace, 1)
        print("history", json.dumps(d["history"]))
    elif d.get("mode") == "k3":
        sched, obs, trace, done, _ = tramp.run_k3(d["c0"], d["histories"], k3.follow(d["schedule"], lenient=True))
        bad = tramp.oracle(trace, 2)
        print("histories", json.dumps(d["histories"]))
        print("schedule asked", d["schedule"], "followed", sched, "all threads finished", done)
    elif d.get("mode") == "k3-hang":
        def run_once(ch):
            sched, obs, trace, done, ctr = tramp.run_k3(d["c0"], d["histories"], ch)
            return ctr, (sched, obs, trace, done, k3.preemptions(ctr))
        print("histories", json.dumps(d["histories"]))
        try:
            n = len(list(k3.explore(run_once, d["bound"], limit=d["limit"])))
            print("all", n, "schedules ran to the end")
            return 0
        except k3.ControllerError as e:
            print("FAILS a-thread-blocks-under-some-schedule", repr(e))
            print(f"VIOLATION property=C30 replay={path}")
            return 1
    else:
        print(json.dumps(d, indent=1))
        return 1
    print("observed", obs)
    for sig, detail in bad:
        print("FAILS", sig, detail)
    if bad:
        print(f"VIOLATION property=C30 replay={path}")
    return 1 if bad else 0
