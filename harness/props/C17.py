"""C17 -- time-window operators (DESIGN.md section 7/C17).  Machines: Ops/Timed.v on the
runner Ops/Multi.v; closed-world theorems over the timer-firing simulator
Ops/TimedSim.v (Props/C17.v); tie: K2 multi-source port-level replay with the
proxy scheduler (harness/k2m.py, harness/timed_table.py); oracle: below, a
direct reading of the property statement on the implementation's log."""
import sched_prec as sp
import timed_extra as te
import timed_table as tt
from timed_table import view, common_timed, elems, terminal, src_view
from k2 import err_id

NAMES = ["take_with_time", "skip_with_time", "take_until_with_time", "skip_until_with_time",
         "take_last_with_time", "skip_last_with_time", "timeout", "timeout_with_mapper"]
INF = float("inf")

# fate of elements aged EXACTLY the duration at completion, per operator: the statement leaves the
# boundary rule open but requires ONE rule "that does not depend on unrelated arrivals"
BOUNDARY_FATE = {}


def mirror_terminal(name, term, t):
    if (term is not None) != (t is not None) or (t and (t[0], t[1]) != (term[0], term[2])):
        return f"{name}: source terminal {term}, subscriber got {t}"
    return None


def o_take(name, inst, res, v):
    d = inst["spec"][1]
    el, term = src_view(v)
    disp = v["dispose_time"] if v["dispose_time"] is not None else INF
    got = elems(v["em"])
    t = terminal(v["em"])
    # elements strictly before the boundary pass, strictly after do not; AT the boundary: open
    must = [(tm, x) for (tm, tag, x) in el if tm < d]
    may = [(tm, x) for (tm, tag, x) in el if tm == d]
    k = len(got) - len(must)
    if k < 0 or k > len(may) or got[:len(must)] != must or got[len(must):] != may[:k]:
        return f"{name}({d}): emitted {got}; source elements {[(a, x) for a, _, x in el]}"
    # terminal: completion at the boundary unless the source terminated first (same instant: open)
    if term is not None and term[0] < d:
        return mirror_terminal(f"{name}({d})", term, t)
    if term is not None and term[0] == d:
        if not (t and t[0] == d and t[1] in ("C", term[2])):
            return f"{name}({d}): terminal {t}; source terminal {term} at the boundary"
        return None
    if d < disp:
        if not (t and t[1] == "C" and t[0] == d):
            return f"{name}({d}): no completion at the boundary: {t}; source terminal {term}"
    elif d == disp:
        if t and not (t[1] == "C" and t[0] == d):
            return f"{name}({d}): terminal {t}"
    elif t:
        return f"{name}({d}): terminal {t} after the dispose at {disp}"
    return None


def o_skip(name, inst, res, v):
    d = inst["spec"][1]
    el, term = src_view(v)
    got = elems(v["em"])
    must = [(tm, x) for (tm, tag, x) in el if tm > d]
    may = [(tm, x) for (tm, tag, x) in el if tm == d]
    k = len(got) - len(must)
    if k < 0 or k > len(may) or got[k:] != must or got[:k] != may[len(may) - k:]:
        return f"{name}({d}): emitted {got}; source elements {[(a, x) for a, _, x in el]}"
    return mirror_terminal(f"{name}({d})", term, terminal(v["em"]))


def boundary_fate(name, d, fate, witness):
    key = (name,)
    seen = BOUNDARY_FATE.setdefault(key, {})
    seen.setdefault(fate, (witness, tt.CURRENT_CASE[0]))
    if len(seen) == 2:
        other = "dropped" if fate == "emitted" else "emitted"
        return (f"{name}: an element aged exactly the duration at completion is emitted in one run and dropped in "
                f"another: emitted in {seen['emitted'][0]}, dropped in {seen['dropped'][0]}",
                [seen[other][1]])
    return None


def o_take_last(inst, res, v):
    name, d = inst["spec"]
    el, term = src_view(v)
    got = elems(v["em"])
    t = terminal(v["em"])
    m = mirror_terminal(f"{name}({d})", term, t)
    if m:
        return m
    if term is None or term[2] != "C":
        return f"{name}({d}): emitted {got} without completion" if got else None
    T = term[0]
    if any(tm != T for tm, _ in got):
        return f"{name}({d}): emissions {got} not at the completion time {T}"
    young = [x for (tm, tag, x) in el if T - tm < d]
    edge = [x for (tm, tag, x) in el if T - tm == d]
    vals = [x for _, x in got]
    if vals == edge + young:
        fate = "emitted"
    elif vals == young:
        fate = "dropped"
    else:
        return f"{name}({d}): emitted {vals} at {T}; elements younger than {d}: {young}, aged exactly {d}: {edge}"
    if edge:
        return boundary_fate(name, d, fate, f"(duration {d}, source {[(a, x) for a, _, x in el]}, completion {T})")
    return None


def o_skip_last(inst, res, v):
    name, d = inst["spec"]
    el, term = src_view(v)
    got = elems(v["em"])
    t = terminal(v["em"])
    m = mirror_terminal(f"{name}({d})", term, t)
    if m:
        return m
    vals = [x for _, x in got]
    src = [(tm, x) for (tm, tag, x) in el]
    # emitted elements are a prefix of the source, each emitted when its age had reached the duration
    if vals != [x for _, x in src[:len(vals)]]:
        return f"{name}({d}): emitted {vals} is not a prefix of the source {src}"
    for (te, _), (ts, x) in zip(got, src):
        if te - ts < d:
            return f"{name}({d}): {x}@{ts} emitted at {te}, younger than the duration"
    if term is not None and term[2] == "C":
        T = term[0]
        old = [x for (tm, x) in src if T - tm > d]
        edge = [x for (tm, x) in src if T - tm == d]
        if vals == old + edge:
            fate = "emitted"
        elif vals == old:
            fate = "dropped"
        else:
            return f"{name}({d}): by the completion at {T} emitted {vals}; not younger than {d}: {old + edge}"
        if edge:
            return boundary_fate(name, d, fate, f"(duration {d}, source {src}, completion {T})")
    return None


def o_timeout(inst, res, v):
    _, rel, val, other = inst["spec"]
    el, term = src_view(v)
    disp = v["dispose_time"] if v["dispose_time"] is not None else INF
    # when does the time since subscription / the last element reach the due time?
    # mandatory: the instant at which the switch MUST happen (due time strictly before the next
    # notification); allowed: additionally the instants where a notification arrives exactly at the due time
    marks = [0] + [tm for (tm, tag, x) in el]
    nxt = [tm for (tm, tag, x) in el] + [term[0] if term is not None else INF]
    mandatory, allowed = None, []
    if rel:
        for a, b in zip(marks, nxt):
            due = a + val
            if due < b:
                mandatory = due
                allowed.append(due)
                break
            if due == b:
                allowed.append(due)
    else:
        due = max(val, 0)                    # re-armed for the same absolute instant after every element
        end = nxt[-1]
        if due < end:
            mandatory = due
            allowed.append(due)
        elif due == end:
            allowed.append(due)
    em = v["em"]
    t = terminal(em)
    subs1 = [tt.time_of(res, st["tag"]) for st in v["steps"] for k in st["subs"] if k == 1]
    switched = bool(subs1) if other else bool(t and t[1] == "E" and err_id(t[2]) == -12)
    if not switched and mandatory is not None and mandatory < disp:
        return f"timeout: no switch at {mandatory}; source elements {marks[1:]} terminal {term}"
    if switched:
        when = subs1[0] if other else t[0]
        if when not in allowed:
            return f"timeout: switched at {when}, admissible {allowed}; source elements {marks[1:]} terminal {term}"
        if term is not None and term[0] < when:
            return f"timeout: switched at {when} after the source terminated at {term[0]}"
        # before the switch: the source's elements; afterwards the fallback mirrored
        pre = [(tm, x) for (tm, tag, x) in el]
        got = elems(em)
        if got[:len(pre)] != pre:
            return f"timeout: elements before the switch {got} vs source {pre}"
        if 0 in v["steps"][-1]["live_after"]:
            return "timeout: source still subscribed after the switch"
        if other:
            el1, term1 = src_view(v, 1)
            if got[len(pre):] != [(tm, x) for (tm, tag, x) in el1]:
                return f"timeout: after the switch emitted {got[len(pre):]}, fallback {el1}"
            return mirror_terminal("timeout(fallback)", term1, t)
        return None
    # no switch: the source is mirrored
    got = elems(em)
    if got != [(tm, x) for (tm, tag, x) in el]:
        return f"timeout: emitted {got}, source {el}"
    return mirror_terminal("timeout", term, t)


def o_timeout_with_mapper(inst, res, v):
    _, has_first, has_other, has_mapper, ent = inst["spec"]
    exp = []
    cur = 1 if has_first else None
    ncalls = 0
    switched = False
    throw_pending = False
    for st in v["steps"]:
        if st["tag"] == 0:
            continue
        if exp and exp[-1][1] in "EC":
            break
        i = st["inp"]
        tag = st["tag"]
        if i[0] == "dispose":
            break
        if i[0] == "tick":
            if throw_pending:
                exp.append((tag, "E", -12))
            continue
        if i[1] not in st["live_before"]:
            continue
        k, ev = i[1], i[2]
        if k == 0:
            if ev[0] == "N":
                exp.append((tag, "N", ev[1]))
                cur = None
                if has_mapper:
                    e = ent[ncalls] if ncalls < len(ent) else ("ok", None)
                    if e[0] == "raise":
                        exp.append((tag, "E", e[1]))
                    else:
                        cur = 3 + ncalls
                    ncalls += 1
            elif ev[0] == "E":
                exp.append((tag, "E", err_id(ev[1])))
            else:
                exp.append((tag, "C", None))
        elif k == 2 and switched:
            exp.append((tag, ev[0], ev[1] if ev[0] == "N" else (err_id(ev[1]) if ev[0] == "E" else None)))
        elif k == cur:
            if ev[0] == "E":
                exp.append((tag, "E", err_id(ev[1])))
            else:                                   # the timeout observable fires: switch
                switched = True
                if not has_other:
                    if ev[0] == "C":
                        exp.append((tag, "E", -12))
                    else:
                        throw_pending = True
                cur = None
    got = [(tag, a, err_id(b) if a == "E" else b) for (t, tag, a, b) in v["em"]]
    if got != exp:
        return f"timeout_with_mapper: emissions (input position, kind, value) {got}, expected {exp}"
    if switched and 0 in v["steps"][-1]["live_after"]:
        return "timeout_with_mapper: source still subscribed after the switch"
    return None


def oracle(name, inst, res):
    v = view(res)
    c = common_timed(res, v)
    if c:
        return c
    if name in ("take_with_time", "take_until_with_time"):
        return o_take(name, inst, res, v)
    if name in ("skip_with_time", "skip_until_with_time"):
        return o_skip(name, inst, res, v)
    if name == "take_last_with_time":
        return o_take_last(inst, res, v)
    if name == "skip_last_with_time":
        return o_skip_last(inst, res, v)
    if name == "timeout":
        return o_timeout(inst, res, v)
    return o_timeout_with_mapper(inst, res, v)


FAMILY_COUNTS = {"tom_kinds": (300, 4000), "fb_timeout": (200, 3000), "cold_sources": (250, 3000)}


def run(chk):
    BOUNDARY_FATE.clear()
    ok = chk.build_and_prove()
    # a broken proof / theorem file: enlarge the search for a failing input to the thorough scope
    tt.run_timed(chk, "C17", NAMES, oracle, ncase=None if ok else 2000)
    tt.closed_world(chk, "C17", NAMES)
    chk.cov["boundary_fates_observed"] = {k[0]: sorted(s) for k, s in BOUNDARY_FATE.items()}
    te.run_families(chk, "C17", FAMILY_COUNTS)
    # scheduler precedence (harness/sched_prec.py): operator scheduler vs subscribe-time scheduler vs default
    sp.run_family(chk, "C17", 600, 6000)
    chk.cov["rule"] = ("per operator: seeded instances (durations / due times 0/5/10/20 ms as float seconds, timedelta "
                       "or absolute datetime incl. one in the past; timeout with and without fallback; scheduler "
                       "passed to the operator or to subscribe; mapper tables indexed by invocation, 12% raising) x "
                       "seeded timelines of hand-driven hot sources on the proxy scheduler's virtual clock (0-5 "
                       "elements placed before / at / after every boundary: absolute window edges +-5 ms, gaps and "
                       "distances to the completion of due-5 / due / due+5, bursts at one instant so that boundary "
                       "elements occur with and without a same-instant companion, values incl. 0 and None, "
                       "completion/error/none, 10% non-conforming tails, 15% with a dispose instant; the measured "
                       "subscription happens at proxy-clock reading 0/35/200/1000 ms -- absolute due times are offsets "
                       "from it -- and in 35% of the cases is the SECOND subscription of the same observable object, "
                       "after a warm-up subscription with its own timeline, fired timers and dispose); non-trivial = "
                       "distinct (machine, delivered input sequence) with >= 2 emissions and the oracle satisfied.  "
                       "Oracle-only families (cov.oracle_only_families; non-trivial = distinct parameter sets with >= 2 "
                       "notifications): tom_kinds = timeout_with_mapper whose first / mapper-made timeout observables "
                       "fire inside subscribe(), are hand-held, or are real timer(x)/empty()/of() under TestScheduler, "
                       "fallback absent / of(...) / hand-held; fb_timeout = timeout(d) under TestScheduler with a "
                       "subscriber pushing back into the source from inside on_next; cold_sources = the window "
                       "operators and timeout over a cold source that delivers everything at the subscription instant "
                       "(inside subscribe() or through the operator's scheduler: of(), throw()), windows 0 / 5 / 10 and "
                       "absolute times incl. one in the past -- at the boundary every prefix / suffix / all-or-nothing "
                       "outcome is accepted; same-instant orders the text leaves open are skipped as ties (counted)")
    chk.cov["rule"] += sp.RULE
    chk.cov["operators_modelled"] = NAMES
    return chk.finish(trusted_extra=[
        "multi-source K2 driver harness/k2m.py with its proxy scheduler (integer-millisecond virtual clock, records "
        "timers/cancels, fires the earliest due timer; source events first at equal instants) and "
        "harness/timed_table.py (instances, timelines)",
        "runner assumption (Ops/Multi.v): the disposable an operator returns holds every subscription and timer it "
        "opened -- checked here by comparing unsubscribe/cancel instants",
        "closed-world comparison (harness/timed_table.py: closed_world): hand-made hot sources whose notifications "
        "are queued before the subscription, under reactivex.testing.TestScheduler and HistoricalScheduler",
        "closed-world theorems are about Ops/TimedSim.v: every requested timer fires exactly at request time + "
        "clamped delay, source events first at equal instants (the proxy scheduler's policy)",
        "harness/timed_table.py run_case/warm_up: the warm-up subscription and the clock offset are applied inside "
        "the build callback handed to k2m.run_multi (the harness state is wiped as k2m does after its own warm-up)",
        "harness/timed_extra.py: oracle-only families with their own hand-made hot source, TestScheduler driver and "
        "references written from the property text (no Coq model behind them)",
        sp.TRUSTED],
        assumptions=["timelines are in integer milliseconds; datetime/timedelta arithmetic is exact on them"])


def replay(chk, path):
    if sp.is_replay(path):
        return sp.replay("C17", path)
    if te.is_family_replay(path):
        return te.replay_family("C17", path)
    return tt.replay_cases("C17", oracle, path, reset=BOUNDARY_FATE.clear)
