"""C22 -- see harness/subj.py (check_replay, oracle_replay, run_replay, run_replay_sync) and
coq/theories/Props/C22.v.  Three drain disciplines, all compared with Subjects/ReplaySched.v:
 (a) the DEFAULT scheduler (CurrentThreadScheduler trampoline): nothing is drained by the driver;
     a ScheduledObserver drain scheduled from a top-level call runs inline -- between the
     per-observer steps of the emission -- and one scheduled from inside an observer callback is
     queued; exercised with re-entrant call trees (observers emitting / completing / failing /
     unsubscribing / subscribing / disposing from inside their callbacks), exhaustively for two
     live subscribers;
 (b) a real VirtualTimeScheduler or HistoricalScheduler whose clock the history controls (('adv', d) =
     scheduler.sleep(d ticks); one tick = 1, 0.5 or 0.25 s), drained by the driver with start() after every
     top-level call; the window is handed over as int / float / timedelta / fractional float or timedelta;
 (c) the same with EXPLICIT drains: ('drain',) is a history operation (Subjects/ReplaySched.v XDrain), so a
     top-level unsubscribe / emission / subscribe / clock advance happens while replay items are still queued.
Error payloads include a falsy exception object; subscribers use the four full forms of C20.
Independent oracle: per subscriber, what it received is a prefix of [retained values at its
subscription (last buffer_size values with age <= window), terminal if any] ++ [later
notifications in call order], and all of it unless it unsubscribed."""
import subj


def run(chk):
    return subj.check_replay(chk)


def replay(chk, path):
    return subj.replay_replay(chk, path)
