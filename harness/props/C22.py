"""C22 -- see harness/subj.py (check_replay, oracle_replay, run_replay, run_replay_sync) and
coq/theories/Props/C22.v.  Two scheduler modes, both compared with Subjects/ReplaySched.v:
 (a) the DEFAULT scheduler (CurrentThreadScheduler trampoline): nothing is drained by the driver;
     a ScheduledObserver drain scheduled from a top-level call runs inline -- between the
     per-observer steps of the emission -- and one scheduled from inside an observer callback is
     queued; exercised with re-entrant call trees (observers emitting / completing / failing /
     unsubscribing / subscribing / disposing from inside their callbacks), exhaustively for two
     live subscribers;
 (b) a real VirtualTimeScheduler whose clock the history controls (('adv', d) = scheduler.sleep(d)),
     drained by the driver with VirtualTimeScheduler.start() after every top-level call.
Independent oracle: per subscriber, what it received is a prefix of [retained values at its
subscription (last buffer_size values with age <= window), terminal if any] ++ [later
notifications in call order], and all of it unless it unsubscribed."""
import subj


def run(chk):
    return subj.check_replay(chk)


def replay(chk, path):
    return subj.replay_replay(chk, path)
