"""C22 -- see harness/subj.py (check_replay, oracle_replay, run_replay) and
coq/theories/Props/C22.v.  The ReplaySubject is created on a real VirtualTimeScheduler whose
clock the history controls (('adv', d) = scheduler.sleep(d)); the driver drains the scheduler
with VirtualTimeScheduler.start() after every top-level call, so every queued
ScheduledObserver.run action executes at the current instant in FIFO order.  K1
correspondence against Subjects/Replay.v + independent oracle (retained values computed from
the history: last buffer_size values whose age at subscription is <= window)."""
import subj


def run(chk):
    return subj.check_replay(chk)


def replay(chk, path):
    return subj.replay_replay(chk, path)
