"""C22 -- see harness/subj.py (check_replay, oracle_replay, run_replay, run_replay_sync) and
coq/theories/Props/C22.v.  Three drain disciplines, all compared with Subjects/ReplaySched.v:
 (a) the DEFAULT scheduler (CurrentThreadScheduler trampoline): nothing is drained by the driver;
     a ScheduledObserver drain scheduled from a top-level call runs inline -- between the
     per-observer steps of the emission -- and one scheduled from inside an observer callback is
     queued; exercised with re-entrant call trees (observers emitting / completing / failing /
     unsubscribing / subscribing / disposing from inside their callbacks), exhaustively for two
     live subscribers;
 (b) a real VirtualTimeScheduler or HistoricalScheduler whose clock the history controls (('adv', d) =
     scheduler.sleep(d ticks); one tick = 1, 0.5 or 0.25 s), drained by the driver with start() after every
     top-level call; the window is handed over as int / float / timedelta / fractional float or timedelta;
 (c) the same with EXPLICIT drains: ('drain',) is a history operation (Subjects/ReplaySched.v XDrain), so a
     top-level unsubscribe / emission / subscribe / clock advance happens while replay items are still queued.
Error payloads include a falsy exception object; subscribers use the four full forms of C20.
Independent oracle: per subscriber, what it received is a prefix of [retained values at its
subscription (last buffer_size values with age <= window), terminal if any] ++ [later
notifications in call order], and all of it unless it unsubscribed.
ORACLE-ONLY family replay_clock (harness/replay_clock.py, shared with C24): the subject lives on scheduler S1
(VirtualTimeScheduler / HistoricalScheduler / TestScheduler / the default wall-clock one) and subscribers hand
subscribe() no scheduler, S1, a second virtual-time scheduler whose clock is AHEAD of or BEHIND S1's, or a
real-time scheduler: the retained values are judged on S1's clock only, and a subscriber's scheduler never
changes what a later subscriber gets.  It runs just before chk.finish (subj.py is not edited)."""
import json

import replay_clock
import subj

PID = "C22"


def with_family(chk, pid, body):
    """Runs `body(chk)` with the replay_clock family inserted just before its chk.finish(...)."""
    orig = chk.finish

    def finish(*a, **kw):
        chk.finish = orig
        replay_clock.run_family(chk, pid)
        kw["trusted_extra"] = list(kw.get("trusted_extra", ())) + [replay_clock.TRUSTED]
        kw["assumptions"] = list(kw.get("assumptions", ())) + [replay_clock.ASSUME]
        return orig(*a, **kw)
    chk.finish = finish
    return body(chk)


def run(chk):
    return with_family(chk, PID, subj.check_replay)


def replay(chk, path):
    d = json.load(open(path))
    if d.get("family") == "replay_clock":
        return replay_clock.replay(chk, path, d, PID)
    return subj.replay_replay(chk, path)
