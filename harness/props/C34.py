"""C34 -- real-time schedulers never run an action early or after cancellation.

Theorems (Props/C34.v): TimeoutScheduler (transition system Core/RealTime.v), the EventLoopScheduler
family (Core/EventLoop.v: EventLoop, and NewThread / ThreadPool which delegate to it),
ImmediateScheduler (function), all over all schedules.
Tie: K3 with time (harness/k3_time.py): controlled clock, Timer, Thread, Condition, executor.
  timeout   : calling threads + clock thread + one logical thread per Timer, all schedules up to the
              preemption bound + random; at the model's granularity the observable log and the final
              thread status must equal the model's (Coq vm_compute);
  eventloop / newthread / threadpool : same exploration, judged by the oracle (their model is tied by C31);
  immediate : direct calls with the controlled clock, compared with the model function.
Oracle: start clock >= due time (absolute t; relative: clock of the call + max(0, d)); an action whose
disposable was disposed at a clock reading before its due time never starts; ImmediateScheduler runs
inside the call and raises WouldBlockException exactly for a positive delay."""
from __future__ import annotations

import hashlib
import json
import sys
import time

import eldrv as E
import k3
import k3_time as kt
import lib
import rtdrv as R

_REPLAY_CACHE = {}
if "--replay" in sys.argv[:-1]:
    _p = sys.argv[sys.argv.index("--replay") + 1]
    try:
        _REPLAY_CACHE[_p] = open(_p).read()
    except OSError:
        pass

S15 = 1_500_000            # 1.5 s in microseconds
D05 = 86_400_500_000       # one day and half a second
Q = 15625                  # 1/64 s: dyadic, so float seconds / POSIX timestamps are exact

FIXED = [
    {"t0": 0, "progs": [[["rel", 2000, 1], ["rel", 1000, 2], ["cancel", 2]], [["abs", 1000, 3]]], "ticks": [1000, 1000]},
    {"t0": 0, "progs": [[["now", 1], ["cancel", 1]]], "ticks": []},
    {"t0": 5000, "progs": [[["abs", 6000, 1]], [["abs", 4000, 2]]], "ticks": [500, 500]},
    {"t0": 0, "progs": [[["rel", 1000, 1], ["cancel", 1]], [["rel", 1000, 2]]], "ticks": [500, 500, 500]},
    {"t0": 0, "progs": [[["rel", -1000, 1]], [["rel", 0, 2], ["cancel", 2]]], "ticks": [1000]},
    # ---- long delays: whole seconds and days must not be dropped (1.5 s and 86400.5 s are exact in binary floating
    # point, so the timeout a controlled wait is given converts back to the exact number of microseconds)
    {"t0": 0, "progs": [[["rel", S15, 1], ["rel", D05, 2]], [["abs", S15, 3], ["rel", 500000, 4]]],
     "ticks": [500000, 1000000, D05 - S15]},
    {"t0": 0, "progs": [[["rel", S15, 1], ["cancel", 1]], [["abs", D05, 2], ["rel", D05, 3], ["cancel", 3]]],
     "ticks": [500000, 1000000]},
    # ---- due times as float seconds / POSIX timestamps (every instant a multiple of 1/64 s: exact)
    {"t0": 3 * Q, "progs": [[["rel", 2 * Q, 1], ["rel", Q, 2], ["cancel", 2]], [["abs", 4 * Q, 3], ["abs", 2 * Q, 4]]],
     "ticks": [Q, Q], "repr": "float"},
    {"t0": 0, "progs": [[["rel", S15, 1], ["rel", -Q, 2]], [["abs", D05, 3], ["cancel", 3]]], "ticks": [S15],
     "repr": "float"},
    # ---- recursive scheduling from inside an action, on the scheduler the action is handed
    {"t0": 0, "progs": [[["rel", 1000, 1]], [["now", 2]]],
     "bodies": {"1": [["rel", 1000, 3], ["now", 4]], "2": [["abs", 1500, 5]], "3": [["rel", 500, 6]]},
     "ticks": [1000, 1000], "body_sched": "arg"},
    {"t0": 0, "progs": [[["now", 1], ["rel", 2000, 2]]], "bodies": {"1": [["rel", 1000, 3], ["cancel", 2]]},
     "ticks": [500], "body_sched": "outer"},
]


def gen_case(rng):
    labels = iter(range(1, 60))
    x = rng.random()
    rep = "float" if x < 0.3 else "tz" if x < 0.5 else "td"     # tz: absolute due times as aware non-UTC datetimes
    big = rng.random() < 0.3
    u = Q if rep == "float" else 500            # float cases: every instant is a multiple of 1/64 s
    t0 = rng.choice([0, 10 * u])
    offs = [-2 * u, 0, u, 2 * u, 4 * u] + ([S15, S15, D05] if big else [])

    def sched_op():
        a = next(labels)
        k = rng.choice(["now", "rel", "rel", "abs", "abs"])
        if k == "now":
            return ["now", a]
        if k == "rel":
            return ["rel", rng.choice(offs), a]
        return ["abs", t0 + rng.choice(offs), a]
    progs, scheduled = [], []
    for _ in range(rng.choice([1, 2, 2])):
        p, mine = [], []
        for _ in range(rng.randint(1, 3)):
            if rng.random() < 0.7 or not mine:
                op = sched_op()
                mine.append(op[-1])
                scheduled.append(op[-1])
            else:
                op = ["cancel", rng.choice(mine)]
            p.append(op)
        progs.append(p)
    ticks = [rng.choice([u, u, 2 * u, 3 * u] + ([500000, 1000000, S15, D05 - S15] if big else []))
             for _ in range(rng.choice([0, 1, 2, 3]))]
    case = {"t0": t0, "progs": progs, "ticks": ticks}
    if rep != "td":
        case["repr"] = rep
    if rng.random() < 0.3:
        # recursive scheduling from inside an action (one or two calls, up to two deep)
        bodies, depth, work = {}, {a: 0 for a in scheduled}, list(scheduled)
        while work:
            a = work.pop(0)
            if depth[a] >= 2 or (bodies and rng.random() < 0.5):
                continue
            ops = []
            for _ in range(rng.choice([1, 1, 2])):
                if rng.random() < 0.8:
                    op = sched_op()
                    depth[op[-1]] = depth[a] + 1
                    work.append(op[-1])
                    scheduled.append(op[-1])
                else:
                    op = ["cancel", rng.choice(scheduled)]
                ops.append(op)
            bodies[str(a)] = ops
        case["bodies"] = bodies
        case["body_sched"] = rng.choice(["arg", "arg", "outer"])
    return case


def size(case, sched):
    return (sum(len(p) for p in case["progs"]) + sum(len(b) for b in case.get("bodies", {}).values())) * 100 + len(sched)


def run(chk):
    t_b0 = time.time()
    chk.build_and_prove()
    t_build = time.time() - t_b0
    quick = chk.tier == "quick"
    t_budget = (40 if quick else 480) * (3 if chk.broken and quick else 1)
    t_start = time.time()
    diffs = R.structure_check()
    if diffs:
        chk.tie_broken("structure of TimeoutScheduler / NewThreadScheduler differs from what the models assume", diffs)
    ok_st, st_facts = kt.self_test(2)
    if not ok_st:
        chk.tie_broken("k3_time self-test failed", st_facts)
    bound = 2 if quick else 3
    gen = [gen_case(chk.rng) for _ in range(14 if quick else 150)]
    base = list(FIXED) + gen
    if not quick:
        # the thorough budget ends before the last base case: interleave fixed and generated ones
        f, g, base = list(FIXED), list(gen), []
        while f or g:
            base += f[:1] + g[:2]
            f, g = f[1:], g[2:]
    coq_cases, coq_meta = [], []
    hist = {}
    nontrivial, distinct = set(), set()
    notes = {}
    samples = []
    evals = 0
    inner_starts = [0]

    def judge(case, r, fine, sched):
        nonlocal evals
        evals += 1
        k = case["kind"]
        hist[k] = hist.get(k, 0) + 1
        h = hashlib.sha1(json.dumps([case, r.log], default=str).encode()).hexdigest()
        distinct.add(h)
        if any(e[2] == "start" for e in r.log) and k3.preemptions(r.trace) > 0:
            nontrivial.add(h)
        if case.get("bodies"):
            inner = {op[-1] for b in case["bodies"].values() for op in b if op[0] in ("now", "rel", "abs")}
            inner_starts[0] += sum(1 for e in r.log if e[2] == "start" and e[3] in inner)
        for sig, msg in R.oracle(case, r):
            if sig.startswith("NOTE "):
                notes[sig + "|" + k] = notes.get(sig + "|" + k, 0) + 1
                continue
            chk.violation(sig, {"case": case, "schedule": sched, "fine": fine, "what": msg,
                                "implementation_log": [list(map(str, e)) for e in r.log]}, size=size(case, sched))

    lim = 10 if quick else 80
    ran_base = 0
    with E.rebound():
        for ci, b in enumerate(base):
            if time.time() - t_start > t_budget:
                chk.notes.append(f"time budget reached after {ci} of {len(base)} base cases")
                break
            ran_base += 1
            for kind in R.KINDS:
                if time.time() - t_start > t_budget * 1.3:
                    break
                case = dict(b, kind=kind)
                box = {}

                def once(chooser, fine):
                    r = R.run_case(case, chooser, fine=fine)
                    box["r"] = r
                    return r.trace, None
                n = 0
                for sched, _ in k3.explore(lambda ch: once(ch, False), bound, limit=lim):
                    n += 1
                    r = box["r"]
                    judge(case, r, False, sched)
                    if kind == "timeout" and not r.error and not case.get("bodies"):
                        coq_cases.append(R.g_case_timeout(case, r))
                        coq_meta.append((case, sched))
                    if n == 2 and len(samples) < 5 and ci < 2:
                        samples.append({"case": case, "schedule": sched, "log": [list(map(str, e)) for e in r.log][:30]})
                for _ in range(3 if quick else 12):
                    r = R.run_case(case, k3.random_chooser(chk.rng), fine=False)
                    judge(case, r, False, r.schedule)
                    if kind == "timeout" and not r.error and not case.get("bodies"):
                        coq_cases.append(R.g_case_timeout(case, r))
                        coq_meta.append((case, r.schedule))
                for sched, _ in k3.explore(lambda ch: once(ch, True), 1 if quick else 2, limit=max(5, lim // 3)):
                    judge(case, box["r"], True, sched)
                for _ in range(2 if quick else 8):
                    r = R.run_case(case, k3.random_chooser(chk.rng), fine=True)
                    judge(case, r, True, r.schedule)
        # ImmediateScheduler: exhaustive small scope
        imm_cases, imm_meta = [], []
        # timedelta / datetime arguments: microsecond offsets; float seconds / POSIX timestamps: offsets that are
        # multiples of 1/64 s (exact) and the long delays
        for rep, t0s, ds in (("td", (0, 5000), (-1000, -1, 0, 1, 1000, S15, D05)),
                             ("tz", (0, 5000), (-1000, -1, 0, 1, 1000, S15)),
                             ("float", (0, 10 * Q), (-Q, 0, Q, S15, D05, -D05))):
            for t0 in t0s:
                for later in (0, 700) if rep != "float" else (0, Q):
                    ops = [["now", 1]] + [["rel", d, 1] for d in ds] + [["abs", t0 + d, 1] for d in ds]
                    for op in ops:
                        log = R.run_immediate(t0, op, later, rep)
                        evals += 1
                        hist["immediate"] = hist.get("immediate", 0) + 1
                        hist["immediate_float"] = hist.get("immediate_float", 0) + (rep == "float")
                        for sig, msg in R.oracle_immediate(t0, op, later, log):
                            chk.violation(sig, {"case": {"kind": "immediate", "t0": t0, "op": op, "later": later,
                                                         "repr": rep},
                                                "what": msg, "implementation_log": log}, size=1)
                        imm_cases.append(R.g_case_immediate(t0, op, later, log))
                        imm_meta.append((t0, op, later, log))
                        distinct.add(json.dumps([t0, op, later, rep]))
                        nontrivial.add(json.dumps([t0, op, later, rep]))
    # ---- periodic actions of NewThread / ThreadPool: each tick is an action with a due time; one whose disposable
    # was disposed before that due time (while the previous tick was still running, before the thread ran, ...)
    # must not start.  Driver and oracle of C35 (harness/ntpdrv.py), only the after-dispose judgements.
    import ntpdrv
    pcases = ntpdrv.exhaustive_cases("quick")
    if not quick:
        pcases += [ntpdrv.random_case(chk.rng, "quick") for _ in range(3000)]
    for i, cs in enumerate(pcases):
        if i % 2:
            cs["sched"] = "threadpool"
    pfail = {}
    with ntpdrv.rebound():
        for case in pcases:
            r = ntpdrv.run_case(case)
            evals += 1
            hist["periodic"] = hist.get("periodic", 0) + 1
            for sig, msg in ntpdrv.oracle(case, r):
                if "invoked-after-dispose" not in sig:
                    continue                          # state threading, period keeping: C35
                sz = ntpdrv.size_of(case)
                sig34 = sig.replace("C35", "C34 periodic")
                if sig34 not in pfail or sz < pfail[sig34][0]:
                    pfail[sig34] = (sz, {"case": dict(case, kind="periodic"), "outcome": r.outcome,
                                         "implementation_log": [list(map(str, e)) for e in r.log], "what": msg})
    for sig, (sz, rep) in pfail.items():
        chk.violation(sig, rep, size=sz)
    t_explore = time.time() - t_start
    bad, logs = lib.correspondence("C34", "to", R.T_IMPORTS, R.T_CASE_TY, R.T_MODEL_FN, "toutcome_eqb", coq_cases,
                                   shard=150)
    for b in bad[:5]:
        if b < 0:
            chk.tie_broken("correspondence shard failed to evaluate", logs[:1])
        else:
            case, sched = coq_meta[b]
            shown = lib.coq_show("C34", R.T_IMPORTS, f"{R.T_MODEL_FN} ({coq_cases[b][0]})")
            chk.tie_broken("correspondence TimeoutScheduler vs Core/RealTime.v",
                           {"case": case, "schedule": sched, "implementation": coq_cases[b][1], "model": shown[-3000:]})
    bad2, logs2 = lib.correspondence("C34", "imm", R.T_IMPORTS, "list iev * list (nat * nat * Z)",
                                     "(fun l => map iobs_of l)", "(list_eqb iobs_eqb)", imm_cases, shard=200)
    for b in bad2[:5]:
        if b < 0:
            chk.tie_broken("correspondence shard failed to evaluate", logs2[:1])
        else:
            chk.tie_broken("correspondence ImmediateScheduler vs Core/RealTime.v", {"case": imm_meta[b]})
    chk.cov["phase_seconds"] = {"build_and_prove": round(t_build, 1), "explore": round(t_explore, 1),
                                "coq_correspondence": round(time.time() - t_start - t_explore, 1)}
    chk.cov["evaluations"] = evals
    chk.cov["distinct_nontrivial"] = len(nontrivial)
    chk.cov["rule"] = ("base case = 1-2 calling threads with 1-3 calls (schedule / relative / absolute / dispose of a "
                       "returned disposable), delays and due times before/at/after the clock -- microseconds up to 2 ms, "
                       "and (30 %%) 1.5 s and 86400.5 s with matching clock steps --, handed over as timedelta/datetime or "
                       "(30 %%) as float seconds / POSIX timestamps (all instants multiples of 1/64 s), (30 %%) actions "
                       "that schedule / dispose recursively from inside (1-2 calls, two deep; on the scheduler under "
                       "test or on the scheduler the action was handed -- for NewThread / ThreadPool the inner one-shot "
                       "EventLoopScheduler; oracle only), a clock thread; each base "
                       "case is run on TimeoutScheduler, EventLoopScheduler, NewThreadScheduler and ThreadPoolScheduler "
                       "under all schedules with <= %d preemptions (capped), seeded random schedules and fine-grained "
                       "schedules; ImmediateScheduler: exhaustive small scope of (clock, call, delay sign, clock drift); "
                       "distinct = distinct (case, implementation log); non-trivial = an action started and at least one "
                       "preemption (immediate: every case)" % bound)
    chk.cov["input_distribution"] = dict(
        hist, base_cases=len(base), distinct_logs=len(distinct), base_cases_run=ran_base,
        with_delays_of_seconds_or_days=sum(1 for b in base[:ran_base] if any(
            op[0] in ("rel", "abs") and abs(op[1]) >= 500000 for op in E.all_ops(b))),
        due_times_as_float=sum(1 for b in base[:ran_base] if b.get("repr") == "float"),
        with_recursive_scheduling=sum(1 for b in base[:ran_base] if b.get("bodies")),
        body_calls_on_the_scheduler_argument=sum(1 for b in base[:ran_base] if b.get("bodies")
                                                 and b.get("body_sched") == "arg"),
        actions_started_from_inside_an_action=inner_starts[0])
    chk.cov["traces_validated_against_impl"] = len(coq_cases) + len(imm_cases)
    chk.cov["disagreements_checked"] = len([b for b in bad if b >= 0]) + len([b for b in bad2 if b >= 0])
    chk.cov["observations_outside_the_property"] = notes
    chk.cov["k3_time_self_test"] = "ok" if ok_st else "FAILED"
    chk.cov["structure"] = "as assumed by the models" if not diffs else "DIFFERS"
    chk.add_samples(samples)
    return chk.finish(
        trusted_extra=[
            "harness/k3.py + harness/k3_time.py: baton controller, controlled clock / Timer / Event / Thread / "
            "Condition / executor (self-test on every run)",
            "threading.Timer as re-implemented line by line in k3_time.CTimer over a controlled Event whose wait "
            "returns no earlier than its timeout unless set; the clock that times the waits is the scheduler clock",
            "harness/rtdrv.py, harness/eldrv.py: drivers, AST checks, Gallina printers, oracles"],
        assumptions=[
            "a timer / a timed wait never returns before its timeout on the scheduler clock (real threading.Timer and "
            "Condition.wait measure time.monotonic(), the schedulers read datetime.now(): their mutual drift and the "
            "float rounding of total_seconds() are not modelled)",
            "preemption only at the yield points of the chosen granularity",
            "NewThreadScheduler / ThreadPoolScheduler are covered by the EventLoopScheduler model because their "
            "methods only delegate to a fresh EventLoopScheduler(exit_if_empty=True) (AST-checked on every run)"])


def replay(chk, path):
    data = json.loads(_REPLAY_CACHE.get(path) or open(path).read())
    case = data["case"]
    if case.get("kind") == "immediate":
        with E.rebound():
            log = R.run_immediate(case["t0"], case["op"], case["later"], case.get("repr", "td"))
        bad = R.oracle_immediate(case["t0"], case["op"], case["later"], log)
        print(json.dumps({"case": case, "log": log, "oracle": bad}, indent=1))
        for sig, msg in bad:
            chk.violation(sig, {"case": case, "what": msg, "implementation_log": log}, size=1)
    elif case.get("kind") == "periodic":
        import ntpdrv
        pc = {k: v for k, v in case.items() if k != "kind"}
        with ntpdrv.rebound():
            r = ntpdrv.run_case(pc)
        bad = [b for b in ntpdrv.oracle(pc, r) if "invoked-after-dispose" in b[0]]
        print(json.dumps({"case": pc, "log": [list(map(str, e)) for e in r.log], "oracle": bad}, indent=1, default=str))
        for sig, msg in bad:
            chk.violation(sig.replace("C35", "C34 periodic"),
                          {"case": case, "what": msg, "implementation_log": [list(map(str, e)) for e in r.log]},
                          size=ntpdrv.size_of(pc))
    else:
        sched, fine = data["schedule"], data.get("fine", False)
        with E.rebound():
            r = R.run_case(case, k3.follow(sched, lenient=True), fine=fine)
        bad = [b for b in R.oracle(case, r) if not b[0].startswith("NOTE ")]
        print(json.dumps({"case": case, "schedule_followed": r.schedule, "log": [list(map(str, e)) for e in r.log],
                          "oracle": bad}, indent=1))
        for sig, msg in bad:
            chk.violation(sig, {"case": case, "schedule": r.schedule, "fine": fine, "what": msg,
                                "implementation_log": [list(map(str, e)) for e in r.log]}, size=size(case, r.schedule))
    chk.cov["evaluations"] = 1
    chk.cov["rule"] = "replay of one recorded case"
    chk.add_samples([{"case": case}])
    return chk.finish()
