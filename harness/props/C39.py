"""C39 -- fluent operator methods equal their piped operators.

Theorems (Props/C39.v) are about fluent_table/op_table REGENERATED from
observable/mixins/*.py and operators/__init__.py on every run by the fail-closed
translator harness/translate/fluent_tr.py: every entry outside the listed
mismatches forwards EVERY accepted call (all positional/keyword splits, any
number of *args, any values) to the same-named operator with the bound arguments
a direct call would bind.

Ties (both independent of each other):
 (1) binding correspondence (uses the generated table + the Coq model): every
     public name of reactivex.operators is replaced by a recording shim that has
     the operator's exact signature (CPython does the binding); every method is
     called with generated call shapes (tokens, None/NotSet, too many / unknown /
     repeated arguments); the operator reached and its bound arguments, and the
     binding of the direct call, must equal what the model computes (vm_compute).
 (2) differential run (does NOT use the translator or the model): every method
     found by introspection, with realistic generated arguments in several
     positional/keyword/default variants, on a TestScheduler hot source that
     completes and one that fails, against source.pipe(ops.NAME(same arguments)):
     recorded notifications (with virtual times, nested observables expanded) and
     callback logs must be equal.  This is also the oracle of the property.
"""
import inspect
import json

import lib
from lib import gnat

IMPORTS = "Base.Prelude Ops.Fluent Gen.FluentTable"
PRELUDE = """
From Coq Require Import List String.
Import ListNotations.
Open Scope string_scope.
Definition K39 : list const := ["None"; "NotSet"].
Definition model (nc : string * call) : option result * option result :=
  (match find_entry fluent_table (fst nc) with
   | Some e => eval_method fluent_table op_table 2 e (snd nc)
   | None => None end,
   direct op_table (fst nc) (snd nc)).
Definition ores_eqb (a b : option result) : bool :=
  match a, b with Some x, Some y => result_eqb x y | None, None => true | _, _ => false end.
Definition out_eqb (a b : option result * option result) : bool :=
  ores_eqb (fst a) (fst b) && ores_eqb (snd a) (snd b).
"""


# --------------------------------------------------------------------------
# introspection (independent of the translator)
# --------------------------------------------------------------------------

def fluent_methods():
    """name -> function, for every public function defined by a mixin class of Observable"""
    import reactivex
    out = {}
    for cls in reactivex.Observable.__mro__:
        if cls.__module__.startswith("reactivex.observable.mixins"):
            for n, f in vars(cls).items():
                if inspect.isfunction(f) and not n.startswith("_"):
                    assert n not in out, n
                    # the method actually reachable on Observable
                    assert getattr(reactivex.Observable, n) is f, n
                    out[n] = f
    return out


def params_of(fn, drop_self):
    ps = list(inspect.signature(fn).parameters.values())
    return ps[1:] if drop_self else ps


# --------------------------------------------------------------------------
# (1) binding correspondence
# --------------------------------------------------------------------------

class Tok:
    def __init__(self, i):
        self.i = i

    def __repr__(self):
        return f"Tok({self.i})"


def canon_val(v):
    from reactivex.internal.utils import NotSet
    if isinstance(v, Tok):
        return ("o", v.i)
    if v is None:
        return ("c", "None")
    if v is NotSet:
        return ("c", "NotSet")
    if isinstance(v, (bool, int, float, str)):
        return ("c", repr(v))
    raise AssertionError(f"unexpected value reaches an operator: {v!r}")


def gval(cv):
    return f'VOpaque {cv[1]}' if cv[0] == "o" else f'VConst "{cv[1]}"'


def gcall(pos, kws):
    return ("mkcall [" + "; ".join(gval(v) for v in pos) + "] ["
            + "; ".join(f'("{k}", {gval(v)})' for k, v in kws) + "]")


def gres(r):
    if r is None:
        return "None"
    name, named, var = r
    return (f'(Some (mkres "{name}" (mkenv [' + "; ".join(f'("{k}", {gval(v)})' for k, v in named)
            + "] [" + "; ".join(gval(v) for v in var) + "])))")


def make_shim(name, fn, log):
    """a function with exactly fn's parameter list that records its bound arguments"""
    sig = inspect.signature(fn)
    parts, body, env = [], [], {"_log": log, "_name": fn.__name__}
    seen_star = False
    for i, p in enumerate(sig.parameters.values()):
        d = ""
        if p.default is not inspect.Parameter.empty:
            env[f"_d{i}"] = p.default
            d = f"=_d{i}"
        if p.kind == p.POSITIONAL_OR_KEYWORD:
            parts.append(p.name + d)
            body.append(f"({p.name!r}, {p.name})")
        elif p.kind == p.VAR_POSITIONAL:
            parts.append("*" + p.name)
            seen_star = p.name
        elif p.kind == p.KEYWORD_ONLY:
            if not seen_star and "*" not in parts:
                parts.append("*")
            parts.append(p.name + d)
            body.append(f"({p.name!r}, {p.name})")
        else:
            raise AssertionError(f"{name}: parameter kind {p.kind} outside the model")
    var = seen_star if seen_star else "()"
    src = (f"def shim({', '.join(parts)}):\n"
           f"    _log.append((_name, [{', '.join(body)}], list({var})))\n"
           f"    return (lambda source: source)\n")
    exec(src, env)
    return env["shim"]


def shapes_for(params, rng, tier):
    """call shapes (npos, [kw names]) for a method with these parameters"""
    poskw = [p.name for p in params if p.kind == p.POSITIONAL_OR_KEYWORD]
    kwonly = [p.name for p in params if p.kind == p.KEYWORD_ONLY]
    star = any(p.kind == p.VAR_POSITIONAL for p in params)
    names = poskw + kwonly
    out = set()
    maxn = len(poskw) + (3 if star else 1)
    import itertools
    for n in range(0, maxn + 1):
        rest = names[min(n, len(poskw)):] if n <= len(poskw) else kwonly
        for r in range(0, min(len(rest), 3) + 1):
            for sub in itertools.permutations(rest, r):
                out.add((n, sub))
    # invalid shapes: keyword already given positionally, unknown keyword, repeated
    if poskw:
        out.add((1, (poskw[0],)))
        out.add((len(poskw), (poskw[-1],)))
    out.add((0, ("no_such_parameter",)))
    out.add((min(1, len(poskw)), ("no_such_parameter",) + tuple(names[-1:])))
    out = sorted(out)
    cap = 40 if tier == "quick" else 400
    if len(out) > cap:
        keep = [s for s in out if len(s[1]) <= 1]
        more = [s for s in out if len(s[1]) > 1]
        rng.shuffle(more)
        out = sorted(keep + more[:max(0, cap - len(keep))])
    return out


def binding_cases(chk, methods):
    import reactivex.operators as opsmod
    from reactivex.internal.utils import NotSet
    import reactivex
    log = []
    originals = {}
    public = [n for n in dir(opsmod) if not n.startswith("_") and inspect.isfunction(getattr(opsmod, n))
              and getattr(opsmod, n).__module__ == "reactivex.operators"]
    shims = {}
    for n in public:
        originals[n] = getattr(opsmod, n)
        shims[n] = make_shim(n, originals[n], log)
    src = reactivex.Observable()
    cases = []
    consts = [None, NotSet]
    try:
        for n in public:
            setattr(opsmod, n, shims[n])
        for name in sorted(methods):
            params = params_of(methods[name], True)
            for (npos, kws) in shapes_for(params, chk.rng, chk.tier):
                nvals = npos + len(kws)
                # which arguments are None / NotSet: all opaque, each single one constant, random
                flagsets = [tuple([None] * nvals)]
                for i in range(nvals):
                    for c in (0, 1):
                        f = [None] * nvals
                        f[i] = c
                        flagsets.append(tuple(f))
                if nvals > 1:
                    flagsets.append(tuple(chk.rng.choice([None, 0, 1]) for _ in range(nvals)))
                if chk.tier == "quick" and len(flagsets) > 4:
                    flagsets = flagsets[:1] + chk.rng.sample(flagsets[1:], 3)
                for flags in flagsets:
                    vals = [Tok(i) if f is None else consts[f] for i, f in enumerate(flags)]
                    pos, kw = vals[:npos], list(zip(kws, vals[npos:]))
                    # the method
                    del log[:]
                    try:
                        r = getattr(src, name)(*pos, **dict(kw))
                        m_out = ((log[0][0], [(k, canon_val(v)) for k, v in log[0][1]],
                                  [canon_val(v) for v in log[0][2]]) if log else "no-operator-reached")
                        if r is not src:
                            m_out = "result-is-not-operator-applied-to-self"
                    except TypeError:
                        m_out = None
                    # the operator of the same name, called directly
                    del log[:]
                    try:
                        if name in shims:
                            shims[name](*pos, **dict(kw))
                            d_out = (log[0][0], [(k, canon_val(v)) for k, v in log[0][1]],
                                     [canon_val(v) for v in log[0][2]])
                        else:
                            d_out = None
                    except TypeError:
                        d_out = None
                    cases.append((name, npos, kws, flags, [canon_val(v) for v in pos],
                                  [(k, canon_val(v)) for k, v in kw], m_out, d_out))
    finally:
        for n, f in originals.items():
            setattr(opsmod, n, f)
    return cases


# --------------------------------------------------------------------------
# (2) differential run
# --------------------------------------------------------------------------

class Obj:
    """element with an attribute and a key"""

    def __init__(self, v):
        self.v = v

    def __repr__(self):
        return f"Obj({self.v})"


def simple(v, depth=0):
    """deterministic printable form of an emitted value"""
    if v is None or isinstance(v, (bool, int, str)):
        return v
    if isinstance(v, float):
        return round(v, 9)
    if isinstance(v, (list, tuple)) and depth < 4:
        return [type(v).__name__] + [simple(x, depth + 1) for x in v]
    if isinstance(v, dict) and depth < 4:
        return {"dict": [[simple(k, depth + 1), simple(x, depth + 1)] for k, x in v.items()]}
    if isinstance(v, (set, frozenset)):
        return {"set": sorted(repr(simple(x, depth + 1)) for x in v)}
    if isinstance(v, Obj):
        return repr(v)
    if isinstance(v, BaseException):
        return ["exc", type(v).__name__, str(v)]
    from reactivex.notification import Notification
    if isinstance(v, Notification):
        return ["notification", v.kind, simple(getattr(v, "value", None), depth + 1),
                simple(getattr(v, "exception", None), depth + 1)]
    for attrs in (("value", "timestamp"), ("value", "interval")):
        if all(hasattr(v, a) for a in attrs) and type(v).__name__ in ("Timestamp", "TimeInterval"):
            return [type(v).__name__, simple(v.value, depth + 1), str(getattr(v, attrs[1]))]
    return "<" + type(v).__name__ + ">"


class Env:
    """one run: a fresh TestScheduler and fresh (but identical) arguments"""

    def __init__(self, kind):
        from reactivex.testing import TestScheduler, ReactiveTest
        self.S = TestScheduler()
        self.R = ReactiveTest
        self.kind = kind
        self.log = []          # callback log (do_action, finally_action, ...)
        self.counters = {}
        self.hots = []         # every hot observable handed to the operator: their subscription records are compared

    def hot(self, *events):
        h = self.S.create_hot_observable(*events)
        self.hots.append(h)
        return h

    def subscriptions(self):
        return [[[x.subscribe, x.unsubscribe] for x in h.subscriptions] for h in self.hots]

    def timer(self, t):
        import reactivex
        return reactivex.timer(t, scheduler=self.S)

    def other(self, base=0):
        R = self.R
        return self.hot(R.on_next(225 + base, 91), R.on_next(345 + base, 92), R.on_completed(420 + base))

    def source(self, elems):
        R = self.R
        times = [210, 240, 270, 300, 330, 360]
        ev = [R.on_next(150, elems[0])] + [R.on_next(t, e) for t, e in zip(times, elems)]
        if self.kind == "empty":          # no element after the subscription instant (200), completion at 400
            ev = ev[:1] + [R.on_completed(400)]
        elif self.kind == "completes":
            ev.append(R.on_completed(400))
        else:
            ev.append(R.on_error(400, RuntimeError("boom")))
        return self.hot(*ev)

    def cb(self, tag, ret=None):
        def f(*a):
            self.log.append([tag, self.S.clock if not hasattr(self.S.clock, "timestamp") else str(self.S.clock)]
                            + [simple(x) for x in a])
            return ret
        return f

    def countdown(self, key, n):
        def f(_):
            self.counters[key] = self.counters.get(key, 0) + 1
            return self.counters[key] <= n
        return f


def recipes():
    """per method: element kind of the source and the value of every parameter (functions of Env)"""
    import reactivex as rx
    from reactivex import operators as ops
    from reactivex.subject import Subject
    from reactivex.notification import OnNext, OnCompleted
    ints = [3, 4, 1, 4, 6, 2]
    G = {   # generic, by parameter name
        "predicate": lambda E: (lambda x: x % 2 == 0),
        "predicate_indexed": lambda E: (lambda x, i: (x + i) % 3 != 0),
        "count": lambda E: 2, "index": lambda E: 1, "default_value": lambda E: -7,
        "key_mapper": lambda E: (lambda x: x % 3), "element_mapper": lambda E: (lambda x: x * 2),
        "comparer": lambda E: (lambda a, b: a % 4 == b % 4),
        "inclusive": lambda E: True, "other": lambda E: E.other(),
        "scheduler": lambda E: E.S, "duration": lambda E: 95, "duetime": lambda E: 25,
        "start_time": lambda E: 100, "end_time": lambda E: 100,
        "window_duration": lambda E: 50, "timespan": lambda E: 60, "timeshift": lambda E: 30,
        "sampler": lambda E: 45, "throttle_duration_mapper": lambda E: (lambda x: E.timer(20 + x)),
        "closing_mapper": lambda E: (lambda *a: E.timer(55)),
        "openings": lambda E: E.other(), "boundaries": lambda E: E.other(),
        "sources": lambda E: [E.other(), E.other(7)], "others": lambda E: [E.other(), E.other(7)],
        "args": lambda E: [7, 8], "max_concurrent": lambda E: 1,
        "right_source": lambda E: E.other(), "second": lambda E: E.other(), "right": lambda E: E.other(),
        "left_duration_mapper": lambda E: (lambda x: E.timer(40)),
        "right_duration_mapper": lambda E: (lambda x: E.timer(35)),
        "handler": lambda E: E.other(200), "retry_count": lambda E: 2, "repeat_count": lambda E: 2,
        "mapper": lambda E: (lambda x: x * 10),
        "project": lambda E: (lambda x: rx.of(x, -x)),
        "mapper_indexed": lambda E: (lambda x, i: [x, i]),
        "accumulator": lambda E: (lambda a, x: a + x), "seed": lambda E: 100,
        "key": lambda E: "k", "attr": lambda E: "v",
        "on_next": lambda E: E.cb("on_next"), "on_error": lambda E: E.cb("on_error"),
        "on_completed": lambda E: E.cb("on_completed"), "action": lambda E: E.cb("finally"),
        "condition": lambda E: E.countdown("cond", 1),
        "subject": lambda E: Subject(), "initial_value": lambda E: 0, "buffer_size": lambda E: 2,
        "window": lambda E: 70, "has_default": lambda E: True,
        "start": lambda E: 1, "stop": lambda E: 5, "step": lambda E: 2, "skip": lambda E: 1,
        "value": lambda E: 6, "future_ctor": lambda E: FakeFuture,
        "subscription_delay": lambda E: E.timer(30), "delay_duration_mapper": lambda E: (lambda x: E.timer(10 + x)),
        "first_timeout": lambda E: E.timer(500), "timeout_duration_mapper": lambda E: (lambda x: E.timer(25)),
        "duration_mapper": lambda E: (lambda g: E.timer(65)), "subject_mapper": lambda E: (lambda: Subject()),
    }
    obs_map = lambda E: (lambda x: rx.of(x, x + 100))
    S = {   # per method overrides: parameter values and the source's elements
        "flat_map": {"mapper": obs_map}, "flat_map_latest": {"mapper": obs_map},
        "flat_map_indexed": {"mapper_indexed": lambda E: (lambda x, i: rx.of(x, i))},
        "switch_map_indexed": {"mapper_indexed": lambda E: (lambda x, i: rx.of(x, i))},
        "expand": {"mapper": lambda E: (lambda x: rx.of(x + 3) if x < 6 else rx.empty())},
        "publish": {"mapper": lambda E: (lambda o: o.pipe(ops.map(lambda x: x + 1000)))},
        "publish_value": {"mapper": lambda E: (lambda o: o.pipe(ops.map(lambda x: x + 1000)))},
        "replay": {"mapper": lambda E: (lambda o: o.pipe(ops.map(lambda x: x + 1000)))},
        "min": {"comparer": lambda E: (lambda a, b: (a % 4) - (b % 4))},
        "max": {"comparer": lambda E: (lambda a, b: (a % 4) - (b % 4))},
        "min_by": {"comparer": lambda E: (lambda a, b: b - a)},
        "max_by": {"comparer": lambda E: (lambda a, b: b - a)},
        "sum": {"key_mapper": lambda E: (lambda x: x * 1.5)},
        "average": {"key_mapper": lambda E: (lambda x: x * 1.5)},
        "starmap": {"mapper": lambda E: (lambda a, b: a * 10 + b), "_elems": [(1, 2), (3, 4), (5, 6), (7, 8), (9, 1), (2, 3)]},
        "starmap_indexed": {"mapper_indexed": lambda E: (lambda a, i: a * 10 + i),
                            "_elems": [(1, 0), (3, 1), (5, 2), (7, 3), (9, 4), (2, 5)]},
        "pluck": {"_elems": [{"k": i} for i in ints]},
        "pluck_attr": {"_elems": [Obj(i) for i in ints]},
        "dematerialize": {"_elems": [OnNext(5), OnNext(6), OnNext(7), OnCompleted(), OnNext(8), OnNext(9)]},
        "switch_latest": {"_elems": "observables"}, "merge_all": {"_elems": "observables"},
        "exclusive": {"_elems": "observables"},
        "zip_with_iterable": {"second": lambda E: [10, 20, 30]},
        "sequence_equal": {"second": lambda E: E.source(ints)},
        "take_while": {"predicate": lambda E: (lambda x: x != 1)},
        "take_while_indexed": {"predicate_indexed": lambda E: (lambda x, i: i < 2)},
        "skip_while": {"predicate": lambda E: (lambda x: x != 1)},
        "skip_while_indexed": {"predicate_indexed": lambda E: (lambda x, i: i < 2)},
        "find": {"predicate": lambda E: (lambda x, i, o: x == 1)},
        "find_index": {"predicate": lambda E: (lambda x, i, o: x == 1)},
        "single": {"predicate": lambda E: (lambda x: x == 6)},
        "single_or_default": {"predicate": lambda E: (lambda x: x == 6)},
        "partition": {"predicate": lambda E: (lambda x: x % 2 == 0)},
        "contains": {"comparer": lambda E: (lambda a, b: a == b)},
        "timeout": {"duetime": lambda E: 25},
        "delay_subscription": {"duetime": lambda E: 45},
        "buffer_with_time_or_count": {"count": lambda E: 2},
        "window_with_time_or_count": {"count": lambda E: 2},
        "ref_count": {"_connectable": True},
        "do_while": {"condition": lambda E: E.countdown("cond", 1)},
    }
    return ints, G, S


KINDS = ("completes", "fails", "empty")
# falsy NON-None values per parameter name: `x or default`, `if not x`, `if x` slips (and forwarding slips inside an
# `is None` / `is NotSet` branch whose effect only shows on a falsy or absent value) give a concrete call.
# Time parameters are left out (a zero period makes a virtual-time loop at one instant).
FALSY = {"buffer_size": [0], "default_value": [0, ""], "has_default": [False], "inclusive": [False],
         "max_concurrent": [0], "repeat_count": [0], "retry_count": [0], "seed": [0, ""], "skip": [0],
         "start": [0], "stop": [0], "step": [0], "window": [0], "count": [0], "index": [0],
         "initial_value": [""], "value": [0], "key": [""]}
FALSY_ELEMS = {"pluck": [{"": i, "k": -i} for i in [3, 4, 1, 4, 6, 2]]}


def base_name(k):
    return k.split("=")[0]


class FakeFuture:
    def __init__(self):
        self.state = None
        self.cbs = []

    def cancelled(self):
        return False

    def _done(self):
        for c in self.cbs:
            c(self)

    def set_result(self, v):
        self.state = ["result", simple(v)]
        self._done()

    def set_exception(self, e):
        self.state = ["exception", simple(e)]
        self._done()

    def add_done_callback(self, c):
        self.cbs.append(c)


def variants(params, rng=None, extra=0):
    """argument layouts: list of (label, [positional param names], [keyword param names], nstar)"""
    P = inspect.Parameter
    poskw = [p for p in params if p.kind == P.POSITIONAL_OR_KEYWORD]
    kwonly = [p for p in params if p.kind == P.KEYWORD_ONLY]
    star = [p for p in params if p.kind == P.VAR_POSITIONAL]
    req = [p.name for p in poskw if p.default is P.empty]
    opt = [p.name for p in poskw if p.default is not P.empty]
    kreq = [p.name for p in kwonly if p.default is P.empty]
    kopt = [p.name for p in kwonly if p.default is not P.empty]
    out = []
    stars = [0, 1, 2] if star else [0]
    for ns in stars:
        tag = f"+{ns}star" if star else ""
        out.append(("all-positional" + tag, req + opt, kreq + kopt, ns))
        out.append(("defaults-omitted" + tag, req, kreq, ns))
        if not star:
            out.append(("all-keyword", [], req + opt + kreq + kopt, 0))
            out.append(("required-keyword", [], req + kreq, 0))
        for o in opt:
            out.append((f"only-{o}-keyword" + tag, req, kreq + [o], ns))
        for i in range(1, len(opt)):
            out.append((f"first-{i}-optional-positional" + tag, req + opt[:i], kreq, ns))
        for o in kopt:
            out.append((f"only-{o}" + tag, req, kreq + [o], ns))
    # explicit default values (exercise `if P is None:` branches with an explicit None / NotSet)
    for p in poskw + kwonly:
        if p.default is not P.empty:
            out.append((f"explicit-default-{p.name}", req, kreq + [p.name + "=<default>"], 0))
    # falsy non-None values: each falsy-capable parameter alone (positionally and by keyword), then all at once
    allp = req + opt
    for p in poskw + kwonly:
        for j, _ in enumerate(FALSY.get(p.name, [])):
            tok = f"{p.name}=<falsy{j}>"
            if p.name in allp:
                i = allp.index(p.name)
                if p.name in opt:
                    out.append((f"falsy{j}-{p.name}-keyword", req, kreq + [tok], 0))
                else:
                    out.append((f"falsy{j}-{p.name}-keyword", [], [tok if n == p.name else n for n in req] + kreq, 0))
                out.append((f"falsy{j}-{p.name}-positional", allp[:i] + [tok], kreq, 0))
            else:
                out.append((f"falsy{j}-{p.name}-keyword", req, [tok if n == p.name else n for n in kreq] +
                            ([tok] if p.name in kopt else []), 0))
    if any(p.name in FALSY for p in poskw + kwonly):
        fz = lambda ns: [f"{n}=<falsy0>" if n in FALSY else n for n in ns]
        out.append(("falsy-all-positional", fz(allp), fz(kreq + kopt), 0))
        if not star:
            out.append(("falsy-all-keyword", [], fz(allp + kreq + kopt), 0))
    # thorough tier: random positional-prefix / keyword-subset splits (keywords in random order)
    for j in range(extra if rng is not None else 0):
        allp = req + opt
        i = rng.randrange(0, len(allp) + 1)
        rest = [n for n in allp[i:] if n in req or rng.random() < 0.6] + kreq + [n for n in kopt if rng.random() < 0.6]
        rng.shuffle(rest)
        out.append((f"random-split-{j}", allp[:i], rest, rng.choice(stars) if i == len(allp) else 0))
    seen, res = set(), []
    for v in out:
        k = (tuple(v[1]), tuple(v[2]), v[3])
        if k not in seen:
            seen.add(k)
            res.append(v)
    return res


def run_form(form, name, method_fn, layout, kind, ints, G, S):
    """form: 'method' | 'pipe'.  -> outcome (JSON-able); a run that does not end within 10 s is an outcome too"""
    st, r = lib.with_timeout(10, run_form_, form, name, method_fn, layout, kind, ints, G, S)
    return r if st == "ok" else {"timeout": "no end within 10 s"}


def run_form_(form, name, method_fn, layout, kind, ints, G, S):
    import reactivex as rx
    from reactivex import operators as ops
    from reactivex.observable import ConnectableObservable
    label, posn, kwn, nstar = layout
    E = Env(kind)
    spec = S.get(name, {})
    params = {p.name: p for p in params_of(method_fn, True)}

    def val(pn):
        if pn.endswith(">") and "=<falsy" in pn:
            return FALSY[base_name(pn)][int(pn[-2])]
        f = spec.get(pn) or G.get(pn)
        if f is None:
            raise KeyError(f"no recipe for parameter {pn} of {name}")
        return f(E)

    elems = spec.get("_elems", ints)
    if name in FALSY_ELEMS and any("=<falsy" in k for k in list(posn) + list(kwn)):
        elems = FALSY_ELEMS[name]
    if elems == "observables":
        elems = [rx.of(1, 2), E.other(), rx.of(3), E.other(40), rx.empty(), rx.of(4, 5)]
    src = E.source(elems)
    if spec.get("_connectable"):
        src = src.pipe(ops.publish())
        E.S.schedule_absolute(205, lambda *_: src.connect())
    pos = [val(p) for p in posn]
    starname = [p.name for p in params.values() if p.kind == inspect.Parameter.VAR_POSITIONAL]
    if nstar:
        pos = pos + list(val(starname[0]))[:nstar]
    kw = {}
    for k in kwn:
        if k.endswith("=<default>"):
            k0 = k[:-len("=<default>")]
            kw[k0] = params[k0].default
        else:
            kw[base_name(k)] = val(k)
    try:
        if form == "method":
            res = getattr(src, name)(*pos, **kw)
        else:
            res = src.pipe(getattr(ops, name)(*pos, **kw))
    except Exception as e:   # construction-time failure is an outcome
        return {"raise": [type(e).__name__, str(e)[:200]], "log": E.log}
    out = []
    nid = [0]

    def record(prefix, o):
        def on_next(v):
            from reactivex import Observable
            if isinstance(v, Observable):
                nid[0] += 1
                tag = f"{prefix}/{nid[0]}"
                out.append([E.S.clock, prefix, "N", "<observable " + tag + ">"])
                key = getattr(v, "key", None)
                if key is not None:
                    out.append([E.S.clock, tag, "key", simple(key)])
                record(tag, v)
            else:
                out.append([E.S.clock, prefix, "N", simple(v)])
        o.subscribe(on_next, lambda e: out.append([E.S.clock, prefix, "E", simple(e)]),
                    lambda: out.append([E.S.clock, prefix, "C"]), scheduler=E.S)

    try:
        if isinstance(res, (list, tuple)):
            for i, r in enumerate(res):
                E.S.schedule_absolute(200, lambda *_a, r=r, i=i: record(f"part{i}", r))
            E.S.start()
        elif isinstance(res, FakeFuture) or type(res).__name__ == "Future":
            E.S.start()
            out.append(["future", getattr(res, "state", None) if isinstance(res, FakeFuture) else
                        (["exception", simple(res.exception())] if res.done() and res.exception() else
                         ["result", simple(res.result())] if res.done() else "pending")])
        else:
            if isinstance(res, ConnectableObservable):
                E.S.schedule_absolute(205, lambda *_: res.connect())
            E.S.schedule_absolute(200, lambda *_: record("r", res))
            # a second, late subscription to the same result (what a replay buffer / a shared subject hands to a
            # late subscriber is part of the behaviour)
            E.S.schedule_absolute(350, lambda *_: record("late", res))
            E.S.schedule_absolute(1000, lambda *_: None)
            E.S.start()
    except Exception as e:
        out.append(["raise-during-run", type(e).__name__, str(e)[:200]])
    return {"out": out, "log": E.log, "result_type": type(res).__name__, "source_subscriptions": E.subscriptions()}


def classify(name, method_fn, op_fn, layout):
    """stable signature of a method-vs-pipe difference"""
    mp = params_of(method_fn, True)
    op = params_of(op_fn, False) if op_fn is not None else []
    if op_fn is None:
        return f"no-operator|{name}"
    if len(mp) != len(op) and not set(p.name for p in mp) <= set(p.name for p in op):
        return f"signature|{name}"
    onames = {p.name for p in op}
    label, posn, kwn, nstar = layout
    for k in kwn:
        k0 = k.split("=")[0]
        if k0 not in onames:
            return f"kwname|{name}|{k0}"
    given = {base_name(k) for k in posn} | {k.split("=")[0] for k in kwn}
    for i, p in enumerate(mp):
        if p.name not in given and p.default is not inspect.Parameter.empty and i < len(op) \
                and op[i].default is inspect.Parameter.empty \
                and op[i].kind not in (inspect.Parameter.VAR_POSITIONAL,):
            return f"default|{name}|{p.name}"
    return f"behaviour|{name}|{label}"


# --------------------------------------------------------------------------

def failing_entries():
    out = lib.coq_show("C39", IMPORTS,
                       "map ename (filter (fun e => negb (entry_ok fluent_table op_table 2 K39 e)) fluent_table)",
                       PRELUDE)
    return out[-1500:]


def run(chk):
    from reactivex import operators as ops
    proved = chk.build_and_prove()
    methods = fluent_methods()
    if not proved or chk.broken:
        chk.cov["search"] = ("theorem file or translator broke: the differential run (all methods, all "
                             "argument layouts, both sources) is the search for a failing input")
        try:
            chk.notes.append("entries failing entry_ok on the regenerated table: " + failing_entries())
        except Exception as e:      # the table itself may not compile
            chk.notes.append(f"could not evaluate the regenerated table: {e}")

    # ---- (1) binding correspondence -------------------------------------
    bc = binding_cases(chk, methods)
    gal = [(f'("{n}", {gcall(pos, kw)})',
            "(" + (gres(m) if not isinstance(m, str) else f'(Some (mkres "{m}" (mkenv [] [])))') + ", "
            + gres(d) + ")")
           for (n, npos, kws, flags, pos, kw, m, d) in bc]
    bad, logs = lib.correspondence("C39", "bind", IMPORTS, "(string * call) * (option result * option result)",
                                   "model", "out_eqb", gal, prelude=PRELUDE, shard=600)
    chk.cov["traces_validated_against_impl"] = len(gal)
    chk.cov["disagreements_checked"] = len(gal)
    if bad:
        firsts = [gal[i] for i in bad if i >= 0][:5]
        detail = {"n_disagreements": len(bad),
                  "first_cases ((method, call), (operator reached by the method, direct binding))": firsts,
                  "logs": logs[:1]}
        if firsts:
            detail["model_says"] = lib.coq_show("C39", IMPORTS, f"model {firsts[0][0]}", PRELUDE)[-1500:]
        chk.tie_broken("correspondence: model of call binding / generated table vs recording shims "
                       "with the operators' real signatures", detail)
    accepted = sum(1 for c in bc if c[6] is not None)
    rejected_both = sum(1 for c in bc if c[6] is None and c[7] is None)

    # ---- (2) differential run = oracle --------------------------------------
    ints, G, S = recipes()
    hist = {"layouts": {}, "source": {k: 0 for k in KINDS}, "construction_TypeError_both": 0,
            "methods": len(methods), "falsy_non_none_argument_runs": 0, "falsy_parameters": {},
            "timeouts_both_forms": 0}
    nontrivial = set()
    sig_notes = {}
    missing_recipe = []
    samples = []
    for name in sorted(methods):
        mfn = methods[name]
        ofn = getattr(ops, name, None)
        ms = [(p.name, p.kind.name, None if p.default is inspect.Parameter.empty else repr(p.default))
              for p in params_of(mfn, True)]
        osig = [(p.name, p.kind.name, None if p.default is inspect.Parameter.empty else repr(p.default))
                for p in params_of(ofn, False)] if ofn else None
        if ms != osig:
            sig_notes[name] = {"method": ms, "operator": osig}
        for layout in variants(params_of(mfn, True), chk.rng, 0 if chk.tier == "quick" else 12):
            for kind in KINDS:
                try:
                    a = run_form("method", name, mfn, layout, kind, ints, G, S)
                    b = run_form("pipe", name, mfn, layout, kind, ints, G, S)
                except KeyError as e:
                    missing_recipe.append(str(e))
                    break
                chk.cov["evaluations"] += 2
                lk = layout[0].split("+")[0].split("-")[0]
                hist["layouts"][lk] = hist["layouts"].get(lk, 0) + 1
                hist["source"][kind] += 1
                if "raise" in a and "raise" in b:
                    hist["construction_TypeError_both"] += 1
                if "timeout" in a and "timeout" in b:
                    hist["timeouts_both_forms"] += 1
                for k in list(layout[1]) + list(layout[2]):
                    if "=<falsy" in k:
                        hist["falsy_non_none_argument_runs"] += 1
                        hist["falsy_parameters"][base_name(k)] = hist["falsy_parameters"].get(base_name(k), 0) + 1
                if a != b:
                    sig = classify(name, mfn, ofn, layout)
                    chk.violation(sig, {"method": name, "arguments": {"positional": layout[1], "keyword": layout[2],
                                                                     "star_args": layout[3], "layout": layout[0]},
                                        "source": kind,
                                        "fluent_form": f"source.{name}(...)", "fluent_outcome": a,
                                        "piped_form": f"source.pipe(ops.{name}(...))", "piped_outcome": b,
                                        "expected": "identical recorded notifications, callback logs and subscribe/unsubscribe instants on every source",
                                        "signatures": sig_notes.get(name)},
                                  size=len(layout[1]) + len(layout[2]) + layout[3])
                elif "out" in a and len(a["out"]) > 1:
                    nontrivial.add((name, tuple(layout[1]), tuple(layout[2]), layout[3], kind))
                if len(samples) < 6 and name in ("replay", "merge", "take_while", "group_by", "reduce", "timeout") \
                        and kind == "completes" and layout[0].startswith("all-positional"):
                    samples.append({"method": name, "layout": layout[0], "fluent_outcome": a["out"][:6] if "out" in a else a})
    if missing_recipe:
        chk.tie_broken("differential harness has no argument recipe for a parameter (new method or parameter?)",
                       sorted(set(missing_recipe)))
    chk.cov["distinct_nontrivial"] = len(nontrivial)
    chk.cov["rule"] = ("differential: every public function defined by a mixin class of Observable (found by "
                       "introspection, not by the translator) x argument layouts (all positional, defaults omitted, all "
                       "keyword, required by keyword, each optional alone by keyword, prefixes of optionals, explicit "
                       "default values, 0/1/2 *args; for every parameter that admits one, a falsy NON-None value (0, '', "
                       "False: table FALSY) alone positionally, alone by keyword, and all at once) x hot source that "
                       "completes / fails / completes without any element, run as source.NAME(args) and "
                       "as source.pipe(ops.NAME(args)) on fresh TestSchedulers with identical fresh arguments, the result "
                       "subscribed at 200 and a second time at 350; "
                       "non-trivial = distinct (method, layout, source) on which both forms agree and more than one "
                       "notification was recorded.  binding correspondence: generated call shapes per method incl. "
                       "rejected ones (counts in input_distribution)")
    hist["binding_cases"] = {"total": len(bc), "accepted_by_method": accepted, "rejected_by_both": rejected_both}
    hist["signature_differences (method vs operator, inspect.signature)"] = sig_notes
    chk.cov["input_distribution"] = hist
    chk.cov["methods_compared"] = len(methods)
    chk.add_samples(samples)
    chk.add_samples([{"binding_case": gal[i][0], "observed": gal[i][1]} for i in range(0, len(gal), max(1, len(gal) // 3))][:3],
                    limit=9)
    return chk.finish(
        trusted_extra=["translator harness/translate/fluent_tr.py (fail-closed ast -> Gallina tables; grammar in its "
                       "header); cross-checked on every run by the binding correspondence (recording shims) and, "
                       "independently of it, by the differential run",
                       "Ops/Fluent.v: model of CPython argument binding (positional-or-keyword, *args, keyword-only, "
                       "defaults; no positional-only / **kwargs: the translator refuses them) -- validated against "
                       "CPython binding real `def` shims on every run",
                       "that an operator function's behaviour depends only on its bound arguments, and that "
                       "X.pipe(f) = f(X) (reactivex/pipe.py) -- both covered by the differential run only"],
        assumptions=["'behaves like the piped operator with the same arguments' is read for the calls the method's "
                     "own signature accepts; calls only the operator accepts (methods listed in "
                     "narrower_than_operator) are reported in coverage, not as violations"])


def replay(chk, path):
    d = json.load(open(path))
    if "method" not in d:
        print(json.dumps(d, indent=1)[:4000])
        return 1
    methods = fluent_methods()
    ints, G, S = recipes()
    a_ = d["arguments"]
    layout = (a_["layout"], a_["positional"], a_["keyword"], a_["star_args"])
    a = run_form("method", d["method"], methods[d["method"]], layout, d["source"], ints, G, S)
    b = run_form("pipe", d["method"], methods[d["method"]], layout, d["source"], ints, G, S)
    print("fluent:", json.dumps(a, default=repr)[:1500])
    print("piped: ", json.dumps(b, default=repr)[:1500])
    print("equal" if a == b else "DIFFERENT")
    if a != b:
        print(f"VIOLATION property=C39 replay={path}")
    return 0 if a == b else 1
