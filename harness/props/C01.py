"""C01 -- every subscriber sees a well-formed notification sequence.

(a) K1 on the real AutoDetachObserver: random call forests (re-entrant calls
    from inside callbacks, raising callbacks, fail, dispose) vs Core/AutoDetach.v.
(b) K2 on random PIPELINES (depth 1..4) of element-wise/aggregate operators over
    conforming and non-conforming hot sources with raising callbacks, vs the
    composed machines; oracle: the grammar regex on what the subscriber saw."""
import json
import re

import k2
import lib
from k2 import Pool, HASHABLE_POOL, UserError
from lib import gz, gbool
from props import C05, C06

IMPORTS_A = "Base.Prelude Base.CaseLib Ops.Machine Core.AutoDetach"
IMPORTS_B = "Base.Prelude Base.CaseLib Ops.Machine Ops.Elementwise Ops.Aggregates"


class CallbackError(Exception):
    pass


def gen_call(rng, depth):
    kind = rng.choice(["N", "N", "N", "E", "C", "D", "F"])
    payload = rng.randrange(5)
    during = []
    if depth > 0 and kind != "D" and rng.random() < 0.5:
        during = [gen_call(rng, depth - 1) for _ in range(rng.randint(1, 3))]
    return (kind, payload, during, rng.random() < 0.2)


def g_call(c):
    kind, p, during, raises = c
    k = {"N": f"KNext {p}", "E": f"KError {p}", "C": "KCompleted", "D": "KDispose", "F": f"KFail {p}"}[kind]
    return f"Call ({k}) [{'; '.join(g_call(d) for d in during)}] {gbool(raises)}"


def run_forest(forest):
    from reactivex.observer import AutoDetachObserver
    from reactivex.disposable import Disposable
    effects = []
    cur = []

    def body(ev):
        c = cur[-1]
        effects.append(ev)
        for d in c[2]:
            do_call(d)
        if c[3]:
            raise CallbackError()

    ado = AutoDetachObserver(lambda v: body(f"Deliver (Next {v})"),
                             lambda e: body(f"Deliver (Err {e})"),
                             lambda: body("Deliver Done"))
    ado.subscription = Disposable(lambda: effects.append("SubDispose"))

    def do_call(c):
        cur.append(c)
        try:
            if c[0] == "N":
                ado.on_next(c[1])
            elif c[0] == "E":
                ado.on_error(c[1])
            elif c[0] == "C":
                ado.on_completed()
            elif c[0] == "D":
                ado.dispose()
            else:
                r = ado.fail(c[1])
                effects.append(f"FailReturned {gbool(r)}")
        except CallbackError:
            effects.append("Raised 77")
        finally:
            cur.pop()
    for c in forest:
        do_call(c)
    return effects


GRAMMAR = re.compile(r"^N*[EC]?$")


def part_a(chk):
    n = 300 if chk.tier == "quick" else 5000
    cases, nontrivial = [], set()
    hist = {"depth>0": 0, "raising": 0, "after_terminal": 0}
    for i in range(n):
        forest = [gen_call(chk.rng, 2) for _ in range(chk.rng.randint(1, 5))]
        eff = run_forest(forest)
        chk.cov["evaluations"] += 1
        s = "".join("N" if "Next" in e else ("E" if "Err" in e else "C") for e in eff if e.startswith("Deliver"))
        g = "[" + "; ".join(g_call(c) for c in forest) + "]"
        if not GRAMMAR.match(s):
            chk.violation(f"autodetach-grammar|{g}", {"history": g, "callbacks_saw": s, "effects": eff,
                                                      "expected": "N*[EC]?"}, size=len(g))
        if any(c[2] for c in forest):
            hist["depth>0"] += 1
        if any(c[3] for c in forest):
            hist["raising"] += 1
        if len(s) > 1 and s[-1] in "EC":
            nontrivial.add(g)
        cases.append((g, "[" + "; ".join(eff) + "]"))
    prelude = """
Definition eff_eqb (a b : effect Z) : bool :=
  match a, b with
  | Deliver x, Deliver y => ev_eqb Z.eqb x y
  | SubDispose, SubDispose => true
  | Raised x, Raised y => x =? y
  | FailReturned x, FailReturned y => Bool.eqb x y
  | _, _ => false
  end.
(* the subscription is a SingleAssignmentDisposable: only its first dispose() reaches the held disposable *)
Fixpoint first_subdispose (seen : bool) (l : list (effect Z)) : list (effect Z) :=
  match l with
  | [] => []
  | SubDispose :: t => if seen then first_subdispose seen t else SubDispose :: first_subdispose true t
  | e :: t => e :: first_subdispose seen t
  end.
Definition model (h : list (call Z)) := first_subdispose false (snd (run_calls false h)).
"""
    bad, logs = lib.correspondence("C01", "ado", IMPORTS_A, "list (call Z) * list (effect Z)", "model",
                                   "(list_eqb eff_eqb)", cases, prelude=prelude)
    chk.cov["traces_validated_against_impl"] += len(cases)
    chk.cov["disagreements_checked"] += len(cases)
    if bad:
        firsts = [cases[i] for i in bad if i >= 0][:3]
        d = {"n": len(bad), "first (history, implementation effects)": firsts, "logs": logs[:1]}
        if firsts:
            d["model_says"] = lib.coq_show("C01", IMPORTS_A, f"model {firsts[0][0]}", prelude)
        chk.tie_broken("correspondence K1: AutoDetachObserver vs Core/AutoDetach.v", d)
    chk.add_samples([{"history": cases[0][0], "effects": cases[0][1]}])
    return nontrivial, hist


def part_b(chk):
    """random pipelines of Z->Z operators"""
    import reactivex
    pool5, T5 = C05.ops_table()
    pool = Pool(HASHABLE_POOL)
    # rebuild both tables over ONE hashable pool so stages compose
    C05_POOL_BACKUP = k2.POOL
    k2.POOL = HASHABLE_POOL
    try:
        pool5, T5 = _c05_table_hashable()
    finally:
        k2.POOL = C05_POOL_BACKUP
    pool6, T6 = C06.ops_table()
    gens = []
    for name, g in list(T5.items()) + list(T6.items()):
        gens.append((name, g))
    n = 150 if chk.tier == "quick" else 3000
    cases, nontrivial = [], set()
    depth_hist = {}
    stage_hist = {}
    tries = 0
    while len(cases) < n and tries < n * 20:
        tries += 1
        depth = chk.rng.randint(1, 4)
        stages = []
        while len(stages) < depth:
            name, g = chk.rng.choice(gens)
            inst = g(chk.rng)
            if not inst.get("poolvals") or inst.get("pool") is not None:
                continue
            stages.append((name, inst))
        ins = k2.gen_inputs(chk.rng, pool5, maxlen=6, conforming=(chk.rng.random() < 0.5))
        res = k2.run_hot(lambda s: s.pipe(*[st[1]["py"] for st in stages]), ins)
        chk.cov["evaluations"] += 1
        if res["build_error"] is not None:
            continue
        s = "".join(k for (_, k, _) in res["out"])
        coq = stages[0][1]["coq"]
        for st in stages[1:]:
            coq = f"compose ({coq}) ({st[1]['coq']})"
        gi = k2.g_inputs(ins, pool5)
        if not GRAMMAR.match(s) or res["escapes"]:
            chk.violation(f"pipeline-grammar|{'>'.join(st[0] for st in stages)}|{gi}",
                          {"pipeline": [st[1]["coq"] for st in stages], "inputs": gi, "subscriber_saw": s,
                           "escaped": [repr(e) for _, e in res["escapes"]], "expected": "N*[EC]?, nothing escapes"},
                          size=len(ins) + depth)
        depth_hist[depth] = depth_hist.get(depth, 0) + 1
        for st in stages:
            stage_hist[st[0]] = stage_hist.get(st[0], 0) + 1
        if len(s) > 1 and depth > 1:
            nontrivial.add(coq + gi)
        cases.append((f"({coq}, {gi})", k2.g_out(res, lambda v: gz(pool5.id(v)))))
    prelude = "Definition model (c : mealy Z Z * list (ev Z)) := exec (fst c) (snd c).\n"
    bad, logs = lib.correspondence("C01", "pipe", IMPORTS_B, "(mealy Z Z * list (ev Z)) * list (nat * ev Z)",
                                   "model", "(tagged_eqb Z.eqb)", cases, prelude=prelude)
    chk.cov["traces_validated_against_impl"] += len(cases)
    chk.cov["disagreements_checked"] += len(cases)
    if bad:
        firsts = [cases[i] for i in bad if i >= 0][:3]
        d = {"n": len(bad), "first (pipeline+inputs, implementation output)": firsts, "logs": logs[:1]}
        if firsts:
            d["model_says"] = lib.coq_show("C01", IMPORTS_B, f"model {firsts[0][0]}", prelude)
        chk.tie_broken("correspondence K2: pipelines vs composed machines", d)
    chk.add_samples([{"pipeline+inputs": cases[0][0], "output": cases[0][1]}] if cases else [])
    return nontrivial, {"depth": depth_hist, "stages": stage_hist}


class SourceError(Exception):
    def __init__(self, code):
        super().__init__(f"source-error-{code}")
        self.code = code


def gen_sub_case(rng):
    def calls(n, kinds):
        return [(rng.choice(kinds), rng.randrange(5), rng.random() < 0.15) for _ in range(n)]
    return {"prefix": calls(rng.choice([0, 0, 1, 2, 3]), ["N", "N", "N", "E", "C"]),
            "src_raises": rng.choice([None, None, 31, 32]),
            "fail_handler_raises": rng.random() < 0.15,
            "tail": calls(rng.choice([0, 1, 2, 4]), ["N", "N", "N", "E", "C", "D"]),
            "form": rng.choice(["callbacks", "callbacks", "observer", "no_on_error"]),
            "returns": rng.choice(["disposable", "none", "callable"])}


def run_subscribe_case(case):
    """Observable.subscribe around a hand-written subscribe function that delivers `prefix` to the observer it is
    given, then possibly raises, keeps the observer and delivers `tail` later.  -> (forest of the calls actually made,
    effects projected to Deliver / Raised / FailReturned, what the subscriber saw)"""
    import reactivex
    from reactivex.disposable import Disposable
    effects, seen, made = [], [], []
    stash = []
    cur = [None]

    def cb(ev, kind):
        def f(*a):
            effects.append(f"Deliver ({ev(*a)})" if a else f"Deliver {ev()}")
            seen.append(kind)
            if cur[0] is not None and cur[0][2]:
                raise CallbackError()
        return f
    on_next = cb(lambda v: f"Next {v}", "N")
    on_error = cb(lambda e: f"Err {e.code}", "E")
    on_completed = cb(lambda: "Done", "C")

    def call(o, c):
        """one source-side call; exceptions from the subscriber's callback are swallowed here (recorded)"""
        cur[0] = c
        made.append(c)
        try:
            if c[0] == "N":
                o.on_next(c[1])
            elif c[0] == "E":
                o.on_error(SourceError(c[1]))
            else:
                o.on_completed()
        except CallbackError:
            effects.append("Raised 77")
        except SourceError:         # no error handler: the default one re-raises the error it is given
            effects.append("Raised 77")
            seen.append("E")
        finally:
            cur[0] = None

    def subscribe(o, scheduler=None):
        stash.append(o)
        for c in case["prefix"]:
            call(o, c)
        if case["src_raises"] is not None:
            cur[0] = ("F", case["src_raises"], case["fail_handler_raises"])
            raise SourceError(case["src_raises"])
        if case["returns"] == "disposable":
            return Disposable()
        if case["returns"] == "callable":
            return lambda: None
        return None
    obs = reactivex.Observable(subscribe)
    d = None
    try:
        if case["form"] == "callbacks":
            d = obs.subscribe(on_next, on_error, on_completed)
        elif case["form"] == "observer":
            from reactivex import Observer
            d = obs.subscribe(Observer(on_next, on_error, on_completed))
        else:
            d = obs.subscribe(on_next, None, on_completed)
        if case["src_raises"] is not None:
            made.append(("F", case["src_raises"], case["fail_handler_raises"]))
            effects.append("FailReturned true")
    except SourceError:
        made.append(("F", case["src_raises"], case["fail_handler_raises"]))
        effects.append("FailReturned false")
    except CallbackError:
        made.append(("F", case["src_raises"], case["fail_handler_raises"]))
        effects.append("Raised 77")
    finally:
        cur[0] = None
    for c in case["tail"]:
        if c[0] == "D":
            if d is not None:
                made.append(c)
                d.dispose()
        elif stash:
            call(stash[0], c)
    return made, effects, "".join(seen)


def g_flat(c):
    k = {"N": f"KNext {c[1]}", "E": f"KError {c[1]}", "C": "KCompleted", "D": "KDispose", "F": f"KFail {c[1]}"}[c[0]]
    return f"Call ({k}) [] {gbool(bool(c[2]) and c[0] != 'D')}"


def part_c(chk):
    """Observable.subscribe itself: a subscribe function that raises after handing out / keeping the observer"""
    n = 400 if chk.tier == "quick" else 6000
    cases, nontrivial = [], set()
    hist = {"subscribe_fn_raises": 0, "form": {}, "emits_after_failure": 0}
    for _ in range(n):
        case = gen_sub_case(chk.rng)
        made, eff, saw = run_subscribe_case(case)
        chk.cov["evaluations"] += 1
        hist["form"][case["form"]] = hist["form"].get(case["form"], 0) + 1
        if case["src_raises"] is not None:
            hist["subscribe_fn_raises"] += 1
            if any(c[0] != "D" for c in case["tail"]):
                hist["emits_after_failure"] += 1
        g = "[" + "; ".join(g_flat(c) for c in made) + "]"
        if case["form"] == "no_on_error":
            # without a handler an error surfaces as an exception at the emitter; whether fail() delivered or
            # declined cannot be told apart from outside, so only the grammar is judged
            if not GRAMMAR.match(saw):
                chk.violation(f"subscribe-grammar|{json.dumps(case)}"[:160],
                              {"subscribe_case": case, "subscriber_saw": saw, "effects": eff, "expected": "N*[EC]?"},
                              size=len(made))
            continue
        if not GRAMMAR.match(saw):
            chk.violation(f"subscribe-grammar|{json.dumps(case)}"[:160],
                          {"subscribe_case": case, "calls made by the source (incl. fail)": g, "subscriber_saw": saw,
                           "effects": eff, "expected": "N*[EC]?"}, size=len(made))
        if len(saw) > 1 and saw[-1] in "EC" and case["src_raises"] is not None:
            nontrivial.add(g + case["form"])
        cases.append((g, "[" + "; ".join(eff) + "]"))
    prelude = """
Definition eff_eqb (a b : effect Z) : bool :=
  match a, b with
  | Deliver x, Deliver y => ev_eqb Z.eqb x y
  | SubDispose, SubDispose => true
  | Raised x, Raised y => x =? y
  | FailReturned x, FailReturned y => Bool.eqb x y
  | _, _ => false
  end.
Definition no_subdispose (l : list (effect Z)) : list (effect Z) :=
  filter (fun e => match e with SubDispose => false | _ => true end) l.
Definition model (h : list (call Z)) := no_subdispose (snd (run_calls false h)).
"""
    bad, logs = lib.correspondence("C01", "subscribe", IMPORTS_A, "list (call Z) * list (effect Z)", "model",
                                   "(list_eqb eff_eqb)", cases, prelude=prelude)
    chk.cov["traces_validated_against_impl"] += len(cases)
    chk.cov["disagreements_checked"] += len(cases)
    if bad:
        firsts = [cases[i] for i in bad if i >= 0][:3]
        d = {"n": len(bad), "first (calls made, implementation effects)": firsts, "logs": logs[:1]}
        if firsts:
            d["model_says"] = lib.coq_show("C01", IMPORTS_A, f"model {firsts[0][0]}", prelude)
        chk.tie_broken("correspondence K1: Observable.subscribe (subscribe function raising / keeping the observer) "
                       "vs Core/AutoDetach.v", d)
    if cases:
        chk.add_samples([{"calls": cases[0][0], "effects": cases[0][1]}])
    return nontrivial, hist


def _c05_table_hashable():
    # C05.ops_table reads k2.POOL through its module-level import; rebuild with the hashable pool
    import importlib
    old = C05.POOL
    C05.POOL = k2.HASHABLE_POOL
    try:
        return C05.ops_table()
    finally:
        C05.POOL = old


def run(chk):
    chk.build_and_prove()
    nt_a, hist_a = part_a(chk)
    nt_b, hist_b = part_b(chk)
    nt_c, hist_c = part_c(chk)
    chk.cov["distinct_nontrivial"] = len(nt_a) + len(nt_b) + len(nt_c)
    chk.cov["rule"] = ("(a) seeded random call forests on AutoDetachObserver (1-5 top-level calls, nesting <= 2, "
                       "20% raising callbacks; kinds on_next/on_error/on_completed/dispose/fail); non-trivial = "
                       "distinct forests whose callbacks saw >= 2 notifications ending in a terminal.  (b) seeded "
                       "random pipelines of 1-4 Z->Z operators (C05+C06 tables) over hot sources, half of them "
                       "non-conforming; non-trivial = distinct (pipeline, input) of depth >= 2 with >= 2 outputs.  (c) "
                       "Observable.subscribe around hand-written subscribe functions: prefix delivered inside "
                       "subscribe (0-3 calls), the function then raises (50%) or returns a disposable / None / a "
                       "callable, keeps the observer and delivers a tail later (0-4 calls incl. dispose); subscriber "
                       "given as callbacks / Observer object / without error handler; 15% raising callbacks")
    chk.cov["input_distribution"] = {"autodetach": hist_a, "pipelines": hist_b, "subscribe": hist_c}
    return chk.finish(trusted_extra=["drivers harness/props/C01.py (call-forest replay) and harness/k2.py"])


def replay(chk, path):
    print(open(path).read())
    return 1
