"""C01 -- every subscriber sees a well-formed notification sequence.

(a) K1 on the real AutoDetachObserver: random call forests (re-entrant calls
    from inside callbacks, raising callbacks, fail, dispose) vs Core/AutoDetach.v.
(b) K2 on random PIPELINES (depth 1..4) of element-wise/aggregate operators over
    conforming and non-conforming hot sources with raising callbacks, vs the
    composed machines; oracle: the grammar regex on what the subscriber saw.  A second batch has the source
    deliver a prefix of its sequence (possibly the terminal) INSIDE its own subscribe().
(c) Observable.subscribe around hand-written subscribe functions (raise / keep the observer), subscriber given
    as callbacks, Observer object, duck-typed observer, without error handler; also from inside a running
    trampoline (the inline `else: set_disposable()` branch).
(d) K1 on the real Observer base class (observer/observer.py): the same call forests on Observer(cb, cb, cb), on
    its as_observer() view, on a subclass overriding the _core methods (vs Core/ObserverBase.v), and -- oracle
    only -- on a mix of calls into an observer and its as_observer() view, and without an error handler.
(f) oracle only: pipelines headed by a multi-source operator (C10-C13 tables) followed by C05/C06 stages.
(e) structural: no class deriving from Observable defines `subscribe`; Observable.subscribe hands the user
    callbacks only to AutoDetachObserver(...) and only that wrapper to _subscribe_core (AST + loaded classes)."""
import ast
import json
import os
import random
import re

import k2
import lib
from k2 import Pool, HASHABLE_POOL, UserError
from lib import gz, gbool
from props import C05, C06

IMPORTS_A = "Base.Prelude Base.CaseLib Ops.Machine Core.AutoDetach"
IMPORTS_B = "Base.Prelude Base.CaseLib Ops.Machine Ops.Elementwise Ops.Aggregates"


class CallbackError(Exception):
    pass


def gen_call(rng, depth):
    kind = rng.choice(["N", "N", "N", "E", "C", "D", "F"])
    payload = rng.randrange(5)
    during = []
    if depth > 0 and kind != "D" and rng.random() < 0.5:
        during = [gen_call(rng, depth - 1) for _ in range(rng.randint(1, 3))]
    return (kind, payload, during, rng.random() < 0.2)


def g_call(c):
    kind, p, during, raises = c
    k = {"N": f"KNext {p}", "E": f"KError {p}", "C": "KCompleted", "D": "KDispose", "F": f"KFail {p}"}[kind]
    return f"Call ({k}) [{'; '.join(g_call(d) for d in during)}] {gbool(raises)}"


def run_forest(forest):
    from reactivex.observer import AutoDetachObserver
    from reactivex.disposable import Disposable
    effects = []
    cur = []

    def body(ev):
        c = cur[-1]
        effects.append(ev)
        for d in c[2]:
            do_call(d)
        if c[3]:
            raise CallbackError()

    ado = AutoDetachObserver(lambda v: body(f"Deliver (Next {v})"),
                             lambda e: body(f"Deliver (Err {e})"),
                             lambda: body("Deliver Done"))
    ado.subscription = Disposable(lambda: effects.append("SubDispose"))

    def do_call(c):
        cur.append(c)
        try:
            if c[0] == "N":
                ado.on_next(c[1])
            elif c[0] == "E":
                ado.on_error(c[1])
            elif c[0] == "C":
                ado.on_completed()
            elif c[0] == "D":
                ado.dispose()
            else:
                r = ado.fail(c[1])
                effects.append(f"FailReturned {gbool(r)}")
        except CallbackError:
            effects.append("Raised 77")
        finally:
            cur.pop()
    for c in forest:
        do_call(c)
    return effects


GRAMMAR = re.compile(r"^N*[EC]?$")


def part_a(chk):
    n = 300 if chk.tier == "quick" else 5000
    cases, nontrivial = [], set()
    hist = {"depth>0": 0, "raising": 0, "after_terminal": 0}
    for i in range(n):
        forest = [gen_call(chk.rng, 2) for _ in range(chk.rng.randint(1, 5))]
        eff = run_forest(forest)
        chk.cov["evaluations"] += 1
        s = "".join("N" if "Next" in e else ("E" if "Err" in e else "C") for e in eff if e.startswith("Deliver"))
        g = "[" + "; ".join(g_call(c) for c in forest) + "]"
        if not GRAMMAR.match(s):
            chk.violation(f"autodetach-grammar|{g}", {"family": "autodetach", "forest": forest, "history": g,
                                                      "callbacks_saw": s, "effects": eff,
                                                      "expected": "N*[EC]?"}, size=len(g))
        if any(c[2] for c in forest):
            hist["depth>0"] += 1
        if any(c[3] for c in forest):
            hist["raising"] += 1
        if len(s) > 1 and s[-1] in "EC":
            nontrivial.add(g)
        cases.append((g, "[" + "; ".join(eff) + "]"))
    prelude = """
Definition eff_eqb (a b : effect Z) : bool :=
  match a, b with
  | Deliver x, Deliver y => ev_eqb Z.eqb x y
  | SubDispose, SubDispose => true
  | Raised x, Raised y => x =? y
  | FailReturned x, FailReturned y => Bool.eqb x y
  | _, _ => false
  end.
(* the subscription is a SingleAssignmentDisposable: only its first dispose() reaches the held disposable *)
Fixpoint first_subdispose (seen : bool) (l : list (effect Z)) : list (effect Z) :=
  match l with
  | [] => []
  | SubDispose :: t => if seen then first_subdispose seen t else SubDispose :: first_subdispose true t
  | e :: t => e :: first_subdispose seen t
  end.
Definition model (h : list (call Z)) := first_subdispose false (snd (run_calls false h)).
"""
    bad, logs = lib.correspondence("C01", "ado", IMPORTS_A, "list (call Z) * list (effect Z)", "model",
                                   "(list_eqb eff_eqb)", cases, prelude=prelude)
    chk.cov["traces_validated_against_impl"] += len(cases)
    chk.cov["disagreements_checked"] += len(cases)
    if bad:
        firsts = [cases[i] for i in bad if i >= 0][:3]
        d = {"n": len(bad), "first (history, implementation effects)": firsts, "logs": logs[:1]}
        if firsts:
            d["model_says"] = lib.coq_show("C01", IMPORTS_A, f"model {firsts[0][0]}", prelude)
        chk.tie_broken("correspondence K1: AutoDetachObserver vs Core/AutoDetach.v", d)
    chk.add_samples([{"history": cases[0][0], "effects": cases[0][1]}])
    return nontrivial, hist


def _pipeline_gens():
    pool = Pool(HASHABLE_POOL)
    # rebuild both tables over ONE hashable pool so stages compose
    C05_POOL_BACKUP = k2.POOL
    k2.POOL = HASHABLE_POOL
    try:
        pool5, T5 = _c05_table_hashable()
    finally:
        k2.POOL = C05_POOL_BACKUP
    pool6, T6 = C06.ops_table()
    gens = []
    for name, g in list(T5.items()) + list(T6.items()):
        gens.append((name, g))
    return pool5, gens


def _draw_pipeline(rng, gens, pool5, sync):
    """-> (depth, stages, inputs, p) ; p = number of inputs the source delivers inside subscribe() (None: redraw)"""
    depth = rng.randint(1, 4)
    stages = []
    while len(stages) < depth:
        name, g = rng.choice(gens)
        inst = g(rng)
        if not inst.get("poolvals") or inst.get("pool") is not None:
            continue
        stages.append((name, inst))
    ins = k2.gen_inputs(rng, pool5, maxlen=6, conforming=(rng.random() < 0.5))
    p = 0
    if sync:
        if not ins:
            return depth, stages, ins, None
        p = len(ins) if rng.random() < 0.4 else rng.randint(1, len(ins))
    return depth, stages, ins, p


def replay_pipeline_sync(case_seed):
    pool5, gens = _pipeline_gens()
    depth, stages, ins, p = _draw_pipeline(random.Random(case_seed), gens, pool5, True)
    res = k2.run_hot(lambda s: s.pipe(*[st[1]["py"] for st in stages]), ins, sync_prefix=p or 0)
    saw = "".join(k for (_, k, _) in res["out"])
    return saw, res, [st[1]["coq"] for st in stages], k2.g_inputs(ins, pool5), p


def part_b(chk, sync=False):
    """random pipelines of Z->Z operators; sync=True: a second batch (own random stream, one seed per case) in
    which the source delivers the first p inputs inside its own subscribe()"""
    import reactivex
    batch_rng = random.Random(f"C01-sync-{chk.seed}") if sync else None
    rng = chk.rng
    pool5, gens = _pipeline_gens()
    n = (150 if chk.tier == "quick" else 3000) if not sync else (100 if chk.tier == "quick" else 2000)
    cases, nontrivial = [], set()
    depth_hist = {}
    stage_hist = {}
    sync_hist = {"terminal_inside_subscribe": 0, "all_inputs_inside_subscribe": 0}
    tries = 0
    case_seed = None
    while len(cases) < n and tries < n * 20:
        tries += 1
        if sync:
            case_seed = batch_rng.getrandbits(48)
            rng = random.Random(case_seed)
        depth, stages, ins, p = _draw_pipeline(rng, gens, pool5, sync)
        if p is None:
            continue
        if sync:
            sync_hist["all_inputs_inside_subscribe"] += 1 if p == len(ins) else 0
            sync_hist["terminal_inside_subscribe"] += 1 if any(e[0] in "EC" for e in ins[:p]) else 0
        res = k2.run_hot(lambda s: s.pipe(*[st[1]["py"] for st in stages]), ins, sync_prefix=p)
        chk.cov["evaluations"] += 1
        if res["build_error"] is not None:
            continue
        s = "".join(k for (_, k, _) in res["out"])
        coq = stages[0][1]["coq"]
        for st in stages[1:]:
            coq = f"compose ({coq}) ({st[1]['coq']})"
        gi = k2.g_inputs(ins, pool5)
        if not GRAMMAR.match(s) or res["escapes"]:
            chk.violation(f"pipeline-grammar|{'>'.join(st[0] for st in stages)}|{gi}|{p}",
                          {"family": "pipeline_sync" if sync else "pipeline", "case_seed": case_seed,
                           "pipeline": [st[1]["coq"] for st in stages], "inputs": gi, "subscriber_saw": s,
                           "inputs_delivered_inside_subscribe": p,
                           "escaped": [repr(e) for _, e in res["escapes"]], "expected": "N*[EC]?, nothing escapes"},
                          size=len(ins) + depth)
        depth_hist[depth] = depth_hist.get(depth, 0) + 1
        for st in stages:
            stage_hist[st[0]] = stage_hist.get(st[0], 0) + 1
        if len(s) > 1 and depth > 1:
            nontrivial.add(coq + gi)
        if sync:
            # inside subscribe() the position tags are not meaningful (a continuation the library trampolines --
            # start_with's switch to the source, its completion -- runs when subscribe() unwinds, after later
            # prefix inputs were offered): the SEQUENCE the subscriber saw is compared
            seq = [k2.g_ev(k, p_, lambda v: gz(pool5.id(v))) for (_, k, p_) in res["out"]]
            seq += [f"Err {gz(k2.ESCAPED)}" for _ in res["escapes"]]
            cases.append((f"({coq}, {gi})", "[" + "; ".join(seq) + "]"))
        else:
            cases.append((f"({coq}, {gi})", k2.g_out(res, lambda v: gz(pool5.id(v)))))
    if sync:
        prelude = "Definition model (c : mealy Z Z * list (ev Z)) := map snd (exec (fst c) (snd c)).\n"
        bad, logs = lib.correspondence("C01", "pipesync", IMPORTS_B, "(mealy Z Z * list (ev Z)) * list (ev Z)",
                                       "model", "(list_eqb (ev_eqb Z.eqb))", cases, prelude=prelude)
    else:
        prelude = "Definition model (c : mealy Z Z * list (ev Z)) := exec (fst c) (snd c).\n"
        bad, logs = lib.correspondence("C01", "pipe", IMPORTS_B, "(mealy Z Z * list (ev Z)) * list (nat * ev Z)",
                                       "model", "(tagged_eqb Z.eqb)", cases, prelude=prelude)
    chk.cov["traces_validated_against_impl"] += len(cases)
    chk.cov["disagreements_checked"] += len(cases)
    if bad:
        firsts = [cases[i] for i in bad if i >= 0][:3]
        d = {"n": len(bad), "first (pipeline+inputs, implementation output)": firsts, "logs": logs[:1]}
        if firsts:
            d["model_says"] = lib.coq_show("C01", IMPORTS_B, f"model {firsts[0][0]}", prelude)
        chk.tie_broken("correspondence K2: pipelines vs composed machines"
                       + (" (source delivering a prefix inside subscribe())" if sync else ""), d)
    chk.add_samples([{"pipeline+inputs": cases[0][0], "output": cases[0][1]}] if cases else [])
    if sync:
        return nontrivial, {"depth": depth_hist, **sync_hist}
    return nontrivial, {"depth": depth_hist, "stages": stage_hist}


class SourceError(Exception):
    def __init__(self, code):
        super().__init__(f"source-error-{code}")
        self.code = code


def gen_sub_case(rng):
    def calls(n, kinds):
        return [(rng.choice(kinds), rng.randrange(5), rng.random() < 0.15) for _ in range(n)]
    return {"prefix": calls(rng.choice([0, 0, 1, 2, 3]), ["N", "N", "N", "E", "C"]),
            "src_raises": rng.choice([None, None, 31, 32]),
            "fail_handler_raises": rng.random() < 0.15,
            "tail": calls(rng.choice([0, 1, 2, 4]), ["N", "N", "N", "E", "C", "D"]),
            "form": rng.choice(["callbacks", "callbacks", "observer", "no_on_error", "duck"]),
            "returns": rng.choice(["disposable", "none", "callable"]),
            # subscribe() called while a trampoline is already running (from inside another subscription):
            # observable.py takes the inline `else: set_disposable()` branch
            "nested": rng.random() < 0.3}


def run_subscribe_case(case):
    """Observable.subscribe around a hand-written subscribe function that delivers `prefix` to the observer it is
    given, then possibly raises, keeps the observer and delivers `tail` later.  -> (forest of the calls actually made,
    effects projected to Deliver / Raised / FailReturned, what the subscriber saw)"""
    import reactivex
    from reactivex.disposable import Disposable
    effects, seen, made = [], [], []
    stash = []
    cur = [None]

    def cb(ev, kind):
        def f(*a):
            effects.append(f"Deliver ({ev(*a)})" if a else f"Deliver {ev()}")
            seen.append(kind)
            if cur[0] is not None and cur[0][2]:
                raise CallbackError()
        return f
    on_next = cb(lambda v: f"Next {v}", "N")
    on_error = cb(lambda e: f"Err {e.code}", "E")
    on_completed = cb(lambda: "Done", "C")

    def call(o, c):
        """one source-side call; exceptions from the subscriber's callback are swallowed here (recorded)"""
        cur[0] = c
        made.append(c)
        try:
            if c[0] == "N":
                o.on_next(c[1])
            elif c[0] == "E":
                o.on_error(SourceError(c[1]))
            else:
                o.on_completed()
        except CallbackError:
            effects.append("Raised 77")
        except SourceError:         # no error handler: the default one re-raises the error it is given
            effects.append("Raised 77")
            seen.append("E")
        finally:
            cur[0] = None

    def subscribe(o, scheduler=None):
        stash.append(o)
        for c in case["prefix"]:
            call(o, c)
        if case["src_raises"] is not None:
            cur[0] = ("F", case["src_raises"], case["fail_handler_raises"])
            raise SourceError(case["src_raises"])
        if case["returns"] == "disposable":
            return Disposable()
        if case["returns"] == "callable":
            return lambda: None
        return None
    obs = reactivex.Observable(subscribe)
    box = [None]
    inline = []

    class Duck:                       # not an ObserverBase: taken by the hasattr(on_next, "on_next") route
        pass
    duck = Duck()
    duck.on_next, duck.on_error, duck.on_completed = on_next, on_error, on_completed

    def go():
        from reactivex.scheduler import CurrentThreadScheduler
        inline.append(not CurrentThreadScheduler.singleton().schedule_required())
        try:
            if case["form"] == "callbacks":
                box[0] = obs.subscribe(on_next, on_error, on_completed)
            elif case["form"] == "observer":
                from reactivex import Observer
                box[0] = obs.subscribe(Observer(on_next, on_error, on_completed))
            elif case["form"] == "duck":
                box[0] = obs.subscribe(duck)
            else:
                box[0] = obs.subscribe(on_next, None, on_completed)
            if case["src_raises"] is not None:
                made.append(("F", case["src_raises"], case["fail_handler_raises"]))
                effects.append("FailReturned true")
        except SourceError:
            made.append(("F", case["src_raises"], case["fail_handler_raises"]))
            effects.append("FailReturned false")
        except CallbackError:
            made.append(("F", case["src_raises"], case["fail_handler_raises"]))
            effects.append("Raised 77")
        finally:
            cur[0] = None
    if case.get("nested"):
        from reactivex.scheduler import CurrentThreadScheduler
        CurrentThreadScheduler.singleton().schedule(lambda *_: go())
    else:
        go()
    d = box[0]
    case["_inline_branch"] = bool(inline and inline[0])
    for c in case["tail"]:
        if c[0] == "D":
            if d is not None:
                made.append(c)
                d.dispose()
        elif stash:
            call(stash[0], c)
    return made, effects, "".join(seen)


def g_flat(c):
    k = {"N": f"KNext {c[1]}", "E": f"KError {c[1]}", "C": "KCompleted", "D": "KDispose", "F": f"KFail {c[1]}"}[c[0]]
    return f"Call ({k}) [] {gbool(bool(c[2]) and c[0] != 'D')}"


def part_c(chk):
    """Observable.subscribe itself: a subscribe function that raises after handing out / keeping the observer"""
    n = 400 if chk.tier == "quick" else 6000
    cases, nontrivial = [], set()
    hist = {"subscribe_fn_raises": 0, "form": {}, "emits_after_failure": 0}
    for _ in range(n):
        case = gen_sub_case(chk.rng)
        made, eff, saw = run_subscribe_case(case)
        chk.cov["evaluations"] += 1
        hist["form"][case["form"]] = hist["form"].get(case["form"], 0) + 1
        hist["inline_set_disposable_branch"] = hist.get("inline_set_disposable_branch", 0) + case.pop("_inline_branch")
        if case["src_raises"] is not None:
            hist["subscribe_fn_raises"] += 1
            if any(c[0] != "D" for c in case["tail"]):
                hist["emits_after_failure"] += 1
        g = "[" + "; ".join(g_flat(c) for c in made) + "]"
        if case["form"] == "no_on_error":
            # without a handler an error surfaces as an exception at the emitter; whether fail() delivered or
            # declined cannot be told apart from outside, so only the grammar is judged
            if not GRAMMAR.match(saw):
                chk.violation(f"subscribe-grammar|{json.dumps(case)}"[:160],
                              {"family": "subscribe", "subscribe_case": case, "subscriber_saw": saw, "effects": eff,
                               "expected": "N*[EC]?"}, size=len(made))
            continue
        if not GRAMMAR.match(saw):
            chk.violation(f"subscribe-grammar|{json.dumps(case)}"[:160],
                          {"family": "subscribe", "subscribe_case": case,
                           "calls made by the source (incl. fail)": g, "subscriber_saw": saw,
                           "effects": eff, "expected": "N*[EC]?"}, size=len(made))
        if len(saw) > 1 and saw[-1] in "EC" and case["src_raises"] is not None:
            nontrivial.add(g + case["form"])
        cases.append((g, "[" + "; ".join(eff) + "]"))
    prelude = """
Definition eff_eqb (a b : effect Z) : bool :=
  match a, b with
  | Deliver x, Deliver y => ev_eqb Z.eqb x y
  | SubDispose, SubDispose => true
  | Raised x, Raised y => x =? y
  | FailReturned x, FailReturned y => Bool.eqb x y
  | _, _ => false
  end.
Definition no_subdispose (l : list (effect Z)) : list (effect Z) :=
  filter (fun e => match e with SubDispose => false | _ => true end) l.
Definition model (h : list (call Z)) := no_subdispose (snd (run_calls false h)).
"""
    bad, logs = lib.correspondence("C01", "subscribe", IMPORTS_A, "list (call Z) * list (effect Z)", "model",
                                   "(list_eqb eff_eqb)", cases, prelude=prelude)
    chk.cov["traces_validated_against_impl"] += len(cases)
    chk.cov["disagreements_checked"] += len(cases)
    if bad:
        firsts = [cases[i] for i in bad if i >= 0][:3]
        d = {"n": len(bad), "first (calls made, implementation effects)": firsts, "logs": logs[:1]}
        if firsts:
            d["model_says"] = lib.coq_show("C01", IMPORTS_A, f"model {firsts[0][0]}", prelude)
        chk.tie_broken("correspondence K1: Observable.subscribe (subscribe function raising / keeping the observer) "
                       "vs Core/AutoDetach.v", d)
    if cases:
        chk.add_samples([{"calls": cases[0][0], "effects": cases[0][1]}])
    return nontrivial, hist


# ---- (d) the Observer base class ---------------------------------------------------------------------------

OB_VARIANTS = ["base", "base", "as_observer", "subclass", "mixed", "no_on_error"]
IMPORTS_D = "Base.Prelude Base.CaseLib Ops.Machine Core.AutoDetach Core.ObserverBase"


def run_observer_forest(forest, variant):
    """the call forest of part (a) on reactivex.observer.Observer -> (effects, what the handlers saw)
    base         Observer(on_next, on_error, on_completed)
    as_observer  every call goes to base.as_observer()
    subclass     a subclass overriding _on_next_core/_on_error_core/_on_completed_core (as Subject and
                 ScheduledObserver do), no handlers
    mixed        calls with an odd payload go to the observer itself, the others to its as_observer() view
    no_on_error  Observer(on_next, None, on_completed): the default handler re-raises the error it is given"""
    from reactivex.observer import Observer
    effects, seen = [], []
    cur = []

    def body(ev, kind):
        c = cur[-1]
        effects.append(ev)
        seen.append(kind)
        for d in c[2]:
            do_call(d)
        if c[3]:
            raise CallbackError()
    h_next = lambda v: body(f"Deliver (Next {v})", "N")
    h_err = lambda e: body(f"Deliver (Err {e.code if isinstance(e, SourceError) else e})", "E")
    h_done = lambda: body("Deliver Done", "C")
    if variant == "subclass":
        class Sub(Observer):
            def _on_next_core(self, value):
                h_next(value)

            def _on_error_core(self, error):
                h_err(error)

            def _on_completed_core(self):
                h_done()
        inner = Sub()
    elif variant == "no_on_error":
        inner = Observer(h_next, None, h_done)
    else:
        inner = Observer(h_next, h_err, h_done)
    outer = inner.as_observer() if variant in ("as_observer", "mixed") else inner

    def do_call(c):
        o = inner if (variant == "mixed" and c[1] % 2 == 1) else outer
        cur.append(c)
        try:
            if c[0] == "N":
                o.on_next(c[1])
            elif c[0] == "E":
                o.on_error(SourceError(c[1]) if variant == "no_on_error" else c[1])
            elif c[0] == "C":
                o.on_completed()
            elif c[0] == "D":
                o.dispose()
            else:
                r = o.fail(SourceError(c[1]) if variant == "no_on_error" else c[1])
                effects.append(f"FailReturned {gbool(r)}")
        except CallbackError:
            effects.append("Raised 77")
        except SourceError:            # no error handler: the error itself comes back to the caller
            effects.append("Raised 78")
            seen.append("E")
        finally:
            cur.pop()
    for c in forest:
        do_call(c)
    return effects, "".join(seen)


def part_d(chk):
    rng = random.Random(f"C01-observer-{chk.seed}")
    n = 400 if chk.tier == "quick" else 6000
    cases, nontrivial = [], set()
    hist = {"variant": {}, "depth>0": 0, "raising": 0}
    for i in range(n):
        variant = rng.choice(OB_VARIANTS)
        forest = [gen_call(rng, 2) for _ in range(rng.randint(1, 5))]
        eff, saw = run_observer_forest(forest, variant)
        chk.cov["evaluations"] += 1
        hist["variant"][variant] = hist["variant"].get(variant, 0) + 1
        g = "[" + "; ".join(g_call(c) for c in forest) + "]"
        if not GRAMMAR.match(saw):
            chk.violation(f"observer-base-grammar|{variant}|{g}",
                          {"family": "observer_base", "variant": variant, "forest": forest, "history": g,
                           "handlers_saw": saw, "effects": eff, "expected": "N*[EC]?"}, size=len(g))
        hist["depth>0"] += 1 if any(c[2] for c in forest) else 0
        hist["raising"] += 1 if any(c[3] for c in forest) else 0
        if len(saw) > 1 and saw[-1] in "EC":
            nontrivial.add(g + variant)
        if variant in ("base", "as_observer", "subclass"):
            cases.append((f"({gbool(variant == 'as_observer')}, {g})", "[" + "; ".join(eff) + "]"))
    prelude = """
Definition eff_eqb (a b : effect Z) : bool :=
  match a, b with
  | Deliver x, Deliver y => ev_eqb Z.eqb x y
  | SubDispose, SubDispose => true
  | Raised x, Raised y => x =? y
  | FailReturned x, FailReturned y => Bool.eqb x y
  | _, _ => false
  end.
(* through the as_observer() view: the two-layer model (C01_as_observer_view_is_an_observer relates the two) *)
Definition model (c : bool * list (call Z)) :=
  if fst c then snd (lay_run_calls false false (snd c)) else snd (ob_run_calls false (snd c)).
"""
    bad, logs = lib.correspondence("C01", "observer", IMPORTS_D, "(bool * list (call Z)) * list (effect Z)", "model",
                                   "(list_eqb eff_eqb)", cases, prelude=prelude)
    chk.cov["traces_validated_against_impl"] += len(cases)
    chk.cov["disagreements_checked"] += len(cases)
    if bad:
        firsts = [cases[i] for i in bad if i >= 0][:3]
        d = {"n": len(bad), "first (history, implementation effects)": firsts, "logs": logs[:1]}
        if firsts:
            d["model_says"] = lib.coq_show("C01", IMPORTS_D, f"model {firsts[0][0]}", prelude)
        chk.tie_broken("correspondence K1: Observer base class (observer/observer.py) vs Core/ObserverBase.v", d)
    if cases:
        chk.add_samples([{"observer history": cases[0][0], "effects": cases[0][1]}])
    return nontrivial, hist


# ---- (e) the choke point, structurally ----------------------------------------------------------------------

CB_NAMES = ("on_next", "on_error", "on_completed")


def _base_names(cls):
    out = []
    for b in cls.bases:
        while isinstance(b, ast.Subscript):
            b = b.value
        if isinstance(b, ast.Attribute):
            out.append(b.attr)
        elif isinstance(b, ast.Name):
            out.append(b.id)
    return out


def structural(repo=None):
    """-> (problems, facts).  Static (every .py under reactivex/, also modules that cannot be imported here):
    no class that derives -- by base-class NAME, transitively -- from Observable defines or assigns `subscribe`;
    inside Observable.subscribe the user's callbacks are read only by the observer-object test
    (isinstance/hasattr/getattr/callable/cast) and by the call AutoDetachObserver(on_next, on_error, on_completed);
    _subscribe_core receives that wrapper; the returned Disposable wraps the wrapper's dispose.
    Dynamic (every importable module): for every loaded subclass of Observable, `subscribe` IS Observable.subscribe."""
    repo = repo or lib.REPO
    problems, classes = [], {}
    obs_subscribe = None
    root = os.path.join(repo, "reactivex")
    for d, _, fs in os.walk(root):
        for fn in sorted(fs):
            if not fn.endswith(".py"):
                continue
            path = os.path.join(d, fn)
            rel = os.path.relpath(path, repo)
            try:
                tree = ast.parse(open(path).read())
            except SyntaxError as e:
                problems.append(f"{rel}: cannot be parsed ({e})")
                continue
            for node in ast.walk(tree):
                if not isinstance(node, ast.ClassDef):
                    continue
                defines = [m.name for m in node.body if isinstance(m, (ast.FunctionDef, ast.AsyncFunctionDef))]
                for m in node.body:
                    if isinstance(m, (ast.Assign, ast.AnnAssign)):
                        tg = m.targets if isinstance(m, ast.Assign) else [m.target]
                        defines += [t.id for t in tg if isinstance(t, ast.Name)]
                classes.setdefault(node.name, []).append((rel, _base_names(node), defines))
                if node.name == "Observable" and rel == os.path.join("reactivex", "observable", "observable.py"):
                    obs_subscribe = next((m for m in node.body if isinstance(m, ast.FunctionDef)
                                          and m.name == "subscribe"), None)
    derived = {"Observable"}
    grew = True
    while grew:
        grew = False
        for name, defs in classes.items():
            if name not in derived and any(set(b) & derived for (_, b, _) in defs):
                derived.add(name)
                grew = True
    for name in sorted(derived):
        for (rel, bases, defines) in classes.get(name, []):
            if name == "Observable" and rel == os.path.join("reactivex", "observable", "observable.py"):
                continue
            if "subscribe" in defines and (name != "Observable" or set(bases) & derived):
                problems.append(f"{rel}: class {name}({', '.join(bases)}) defines `subscribe` -- subscribers of it "
                                f"are not wrapped by Observable.subscribe")
    facts = {"classes_deriving_from_Observable": sorted(derived - {"Observable"})}
    if obs_subscribe is None:
        problems.append("reactivex/observable/observable.py: class Observable has no method `subscribe`")
    else:
        parent = {}
        for n in ast.walk(obs_subscribe):
            for c in ast.iter_child_nodes(n):
                parent[c] = n

        def enclosing_calls(n):
            out = []
            while n in parent:
                n = parent[n]
                if isinstance(n, ast.Call):
                    f = n.func
                    out.append(f.id if isinstance(f, ast.Name) else (f.attr if isinstance(f, ast.Attribute) else "?"))
            return out
        wrapper_names = []
        for n in ast.walk(obs_subscribe):
            if isinstance(n, ast.Name) and n.id in CB_NAMES and isinstance(n.ctx, ast.Load):
                calls = enclosing_calls(n)
                if not calls or calls[0] not in ("AutoDetachObserver", "isinstance", "hasattr", "getattr", "cast"):
                    problems.append(f"observable.py:{n.lineno}: Observable.subscribe reads the user's `{n.id}` outside "
                                    f"AutoDetachObserver(...) / the observer-object test (enclosing call: "
                                    f"{calls[0] if calls else 'none'})")
            if isinstance(n, ast.Assign) and isinstance(n.value, ast.Call) and isinstance(n.value.func, ast.Name) \
                    and n.value.func.id == "AutoDetachObserver":
                wrapper_names += [t.id for t in n.targets if isinstance(t, ast.Name)]
            if isinstance(n, ast.AnnAssign) and isinstance(n.value, ast.Call) and isinstance(n.value.func, ast.Name) \
                    and n.value.func.id == "AutoDetachObserver" and isinstance(n.target, ast.Name):
                wrapper_names.append(n.target.id)
                args = [a.id if isinstance(a, ast.Name) else None for a in n.value.args]
                if args != list(CB_NAMES) or n.value.keywords:
                    problems.append(f"observable.py:{n.lineno}: AutoDetachObserver is not built from "
                                    f"(on_next, on_error, on_completed) but from {args}")
        if len(wrapper_names) != 1:
            problems.append(f"Observable.subscribe builds {len(wrapper_names)} AutoDetachObserver wrappers (expected 1)")
        w = wrapper_names[0] if wrapper_names else None
        # an observer OBJECT is only ever taken apart into its three methods, which become the callbacks
        for n in ast.walk(obs_subscribe):
            if isinstance(n, ast.Name) and n.id == "obv" and isinstance(n.ctx, ast.Load):
                p = parent.get(n)
                ok = (isinstance(p, ast.Attribute) and p.attr in CB_NAMES and isinstance(parent.get(p), ast.Assign)
                      and [getattr(t, "id", None) for t in parent[p].targets] == [p.attr])
                if not ok:
                    problems.append(f"observable.py:{n.lineno}: the observer object is used otherwise than "
                                    f"`on_x = obv.on_x`")
        core = [n for n in ast.walk(obs_subscribe) if isinstance(n, ast.Call) and isinstance(n.func, ast.Attribute)
                and n.func.attr == "_subscribe_core"]
        if len(core) != 1:
            problems.append(f"Observable.subscribe calls _subscribe_core {len(core)} times (expected 1)")
        for c in core:
            a0 = c.args[0] if c.args else None
            if not (isinstance(a0, ast.Name) and a0.id == w):
                problems.append(f"observable.py:{c.lineno}: _subscribe_core is not given the AutoDetachObserver wrapper")
        rets = [n for n in ast.walk(obs_subscribe) if isinstance(n, ast.Return)
                and any(obs_subscribe is x for x in _function_chain(n, parent))]
        own = [r for r in rets if _function_chain(r, parent)[0] is obs_subscribe]
        for r in own:
            v = r.value
            ok = (isinstance(v, ast.Call) and isinstance(v.func, ast.Name) and v.func.id == "Disposable"
                  and len(v.args) == 1 and isinstance(v.args[0], ast.Attribute) and v.args[0].attr == "dispose"
                  and isinstance(v.args[0].value, ast.Name) and v.args[0].value.id == w)
            if not ok:
                problems.append(f"observable.py:{r.lineno}: subscribe() does not return Disposable(<wrapper>.dispose)")
        facts["wrapper_variable"] = w
    # dynamic: the classes as Python resolves them
    import importlib
    import pkgutil
    rx = lib.import_repo()
    skipped = []
    for m in pkgutil.walk_packages(rx.__path__, "reactivex."):
        try:
            importlib.import_module(m.name)
        except BaseException as e:          # optional GUI / event-loop dependencies
            skipped.append(f"{m.name}: {type(e).__name__}")
    from reactivex import Observable
    seen, todo = set(), [Observable]
    while todo:
        c = todo.pop()
        for sc in c.__subclasses__():
            if sc not in seen:
                seen.add(sc)
                todo.append(sc)
    for sc in sorted(seen, key=lambda c: (c.__module__, c.__qualname__)):
        if not sc.__module__.startswith("reactivex"):
            continue
        if getattr(sc, "subscribe", None) is not Observable.subscribe:
            problems.append(f"{sc.__module__}.{sc.__qualname__}.subscribe is not Observable.subscribe")
    facts["loaded_subclasses_checked"] = sorted(f"{c.__module__}.{c.__qualname__}" for c in seen
                                                if c.__module__.startswith("reactivex"))
    facts["modules_not_importable_here (static check only)"] = skipped
    return problems, facts


def _function_chain(n, parent):
    out = []
    while n in parent:
        n = parent[n]
        if isinstance(n, (ast.FunctionDef, ast.AsyncFunctionDef, ast.Lambda)):
            out.append(n)
    return out


def part_e(chk):
    problems, facts = structural()
    chk.cov["evaluations"] += 1
    if problems:
        chk.tie_broken("structural: subscribers are wrapped at exactly one choke point (Observable.subscribe -> "
                       "AutoDetachObserver)", {"problems": problems, **facts})
    return facts


# ---- (f) pipelines headed by a multi-source operator (oracle only) ------------------------------------------

MULTI_HEADS = ["concat", "catch", "catch_handler", "on_error_resume_next", "repeat", "retry", "while_do", "do_while",
               "merge", "flat_map", "merge_all", "concat_map", "merge_mc", "switch_map", "switch_latest",
               "zip", "combine_latest", "with_latest_from", "fork_join", "amb", "take_until", "skip_until"]
OPTS_F = dict(values=[0, 1, 2, 7, -1], nonconforming=0.5, p_stages=0.8, p_tail=0.2, p_sync=0.4, p_sub_raises=0.3,
              dispose="event", p_dispose=0.1, judge="grammar")


def part_f(chk):
    """the multi-source operators of the C10-C13 tables (harness/comb_table.py) over hand-driven sources, half of
    them with a non-conforming tail, 40% with sources delivering inside subscribe(), followed by take(n)/first()
    and/or 1-2 stages of the C05/C06 tables with raising callbacks; 30% raising subscriber.  Oracle only: the
    grammar on what the subscriber saw, nothing escapes into the emitter."""
    import relcases
    rng = random.Random(f"C01-multi-{chk.seed}")
    hist, nt = relcases.multi_family(chk, "C01", "multi_head", MULTI_HEADS, 40 if chk.tier == "quick" else 500,
                                     OPTS_F, rng)
    return nt, hist


def _c05_table_hashable():
    # C05.ops_table reads k2.POOL through its module-level import; rebuild with the hashable pool
    import importlib
    old = C05.POOL
    C05.POOL = k2.HASHABLE_POOL
    try:
        return C05.ops_table()
    finally:
        C05.POOL = old


def run(chk):
    chk.build_and_prove()
    nt_a, hist_a = part_a(chk)
    nt_b, hist_b = part_b(chk)
    nt_c, hist_c = part_c(chk)
    nt_bs, hist_bs = part_b(chk, sync=True)
    nt_d, hist_d = part_d(chk)
    facts_e = part_e(chk)
    nt_f, hist_f = part_f(chk)
    chk.cov["distinct_nontrivial"] = len(nt_a) + len(nt_b) + len(nt_c) + len(nt_bs) + len(nt_d) + len(nt_f)
    chk.cov["rule"] = ("(a) seeded random call forests on AutoDetachObserver (1-5 top-level calls, nesting <= 2, "
                       "20% raising callbacks; kinds on_next/on_error/on_completed/dispose/fail); non-trivial = "
                       "distinct forests whose callbacks saw >= 2 notifications ending in a terminal.  (b) seeded "
                       "random pipelines of 1-4 Z->Z operators (C05+C06 tables) over hot sources, half of them "
                       "non-conforming; non-trivial = distinct (pipeline, input) of depth >= 2 with >= 2 outputs.  (c) "
                       "Observable.subscribe around hand-written subscribe functions: prefix delivered inside "
                       "subscribe (0-3 calls), the function then raises (50%) or returns a disposable / None / a "
                       "callable, keeps the observer and delivers a tail later (0-4 calls incl. dispose); subscriber "
                       "given as callbacks / Observer object / duck-typed observer object / without error handler; 30% "
                       "of the subscribe() calls made from inside a running trampoline (inline set_disposable branch); "
                       "15% raising callbacks.  (b') pipelines as in (b), own random stream, whose source delivers the "
                       "first p >= 1 inputs (40%: all of them) inside its own subscribe(), against the same composed "
                       "machines.  (d) the call forests of (a), own random stream, on the Observer base class: "
                       "Observer(cb, cb, cb), its as_observer() view, a subclass overriding the _core methods (these three "
                       "against Core/ObserverBase.v), calls mixed between an observer and its as_observer() view and an "
                       "observer without error handler (grammar oracle only); non-trivial as in (a).  (e) one structural "
                       "evaluation: AST of every reactivex/*.py + every loaded subclass of Observable (see "
                       "input_distribution.structural).  (f) oracle only (harness/relcases.py, one seed per case): every "
                       "multi-source operator of the C10-C13 tables over hand-driven sources (50% non-conforming tails, 40% "
                       "with sources delivering inside subscribe()), followed (80% of the Z-valued ones) by 1-2 stages of "
                       "the C05/C06 tables and/or take(n)/first(), 30% raising subscriber: grammar on what the subscriber "
                       "saw, nothing escapes; non-trivial = a source was subscribed and released")
    chk.cov["input_distribution"] = {"autodetach": hist_a, "pipelines": hist_b, "subscribe": hist_c,
                                     "pipelines_source_emitting_inside_subscribe": hist_bs, "observer_base": hist_d,
                                     "structural": facts_e, "pipelines_with_multi_source_head": hist_f}
    return chk.finish(trusted_extra=["drivers harness/props/C01.py (call-forest replay) and harness/k2.py",
                                     "structural check (e): classes are related by base-class NAME in the AST part; the "
                                     "loaded-class part covers only modules importable in this environment"])


def replay(chk, path):
    d = json.load(open(path))
    fam = d.get("family")
    saw = None
    if fam == "multi_head":
        import relcases
        return relcases.replay_main("C01", path)
    if fam == "autodetach":
        forest = _tuplify(d["forest"])
        eff = run_forest(forest)
        saw = "".join("N" if "Next" in e else ("E" if "Err" in e else "C") for e in eff if e.startswith("Deliver"))
    elif fam == "observer_base":
        eff, saw = run_observer_forest(_tuplify(d["forest"]), d["variant"])
    elif fam == "subscribe":
        case = dict(d["subscribe_case"])
        for k in ("prefix", "tail"):
            case[k] = [tuple(c) for c in case[k]]
        made, eff, saw = run_subscribe_case(case)
    elif fam == "pipeline_sync":
        saw, res, pipeline, gi, p = replay_pipeline_sync(d["case_seed"])
        print(json.dumps({"pipeline": pipeline, "inputs": gi, "inputs_delivered_inside_subscribe": p,
                          "subscriber_saw": saw, "escaped": [repr(e) for _, e in res["escapes"]]}, indent=1))
        if not GRAMMAR.match(saw) or res["escapes"]:
            print(f"VIOLATION property=C01 replay={path}")
            return 1
        print("[C01] replay: the case no longer fails")
        return 0
    elif fam == "structural":
        problems, _ = structural()
        print(json.dumps(problems, indent=1))
        if problems:
            print(f"VIOLATION property=C01 replay={path}")
            return 1
        return 0
    if saw is None:
        print(open(path).read())
        return 1
    print(json.dumps({"handlers_saw": saw, "effects": eff, "expected": "N*[EC]?"}, indent=1))
    if not GRAMMAR.match(saw):
        print(f"VIOLATION property=C01 replay={path}")
        return 1
    print("[C01] replay: the case no longer fails")
    return 0


def _tuplify(forest):
    return [(c[0], c[1], _tuplify(c[2]), c[3]) for c in forest]
