"""C36 -- time values convert consistently between representations.

Theorems (Props/C36.v) about the exact integer model Core/TimeConv.v (datetimes and
timedeltas = integer microseconds; binary64 = m * 2^e with correctly rounded division
and multiplication written on integers): the datetime <-> timedelta conversions are
exact and strictly order preserving for all values; float seconds -> microseconds ->
float seconds and back round-trip exactly for every microsecond count below
2^33 * 10^6 (272 years around the epoch, the bound is sharp); to_seconds is monotone for all
timedeltas/datetimes and float -> timedelta/datetime for all finite floats.

Tie (K1, bit-exact): generated timedeltas, aware datetimes (several utc offsets), floats
(aligned, non-aligned, half-way, boundaries) and ints through the real
Scheduler.to_seconds / to_datetime / to_timedelta; floats travel as float.hex() literals
(PrimFloat) AND as exact integer ratios, results are compared with the model by Coq
(vm_compute); within |us| < 2^53 the model's to_seconds is also compared with the kernel's
IEEE division.  Datetimes are converted to microsecond counts by the harness' own
calendar arithmetic (days_from_civil), not by datetime subtraction.
Oracle: direct Python properties (order preserved on sorted samples, round trips,
identity on already-converted values, `now` timezone-aware UTC)."""
import json
import math
from datetime import datetime, timedelta, timezone

import lib
from lib import gz

IMPORTS = "Base.Prelude Core.TimeConv Core.FloatBits"
PRELUDE = """
From Coq Require Import ZArith List Bool PrimFloat Uint63 FloatOps SpecFloat.
Import ListNotations.
Open Scope Z_scope.
Inductive tcase :=
| CSecTd (n : Z)                       (* to_seconds(timedelta of n us) *)
| CSecDt (d : Z)                       (* to_seconds(aware datetime, d us after the epoch) *)
| CDtF (h : float) (m e : Z)           (* to_datetime(float) *)
| CTdF (h : float) (m e : Z)           (* to_timedelta(float) *)
| CDtTd (t : Z) | CTdDt (d : Z)        (* to_datetime(timedelta), to_timedelta(datetime) *)
| CDtI (s : Z) | CTdI (s : Z).         (* int seconds *)
Inductive tout := OF (h : float) (m e : Z) | OZ (z : Z).
(* the float.hex() literal and the integer ratio given by the harness denote the same double *)
Definition lit_ok (h : float) (m e : Z) : bool :=
  match Prim2SF h with
  | S754_zero _ => m =? 0
  | S754_finite s mm ee => fl_eqb (F (if s then - Zpos mm else Zpos mm) ee) (F m e)
  | _ => false
  end.
Definition pf_of_Z (z : Z) : float :=
  if z <? 0 then PrimFloat.opp (of_uint63 (Uint63.of_Z (- z))) else of_uint63 (Uint63.of_Z z).
Definition sec_ok (n : Z) (o : tout) : bool :=
  match o with
  | OF h m e =>
    lit_ok h m e && fl_eqb (to_seconds_td n) (F m e)
    && (if Z.abs n <? 2 ^ 53 then float_same (pf_of_Z n / pf_of_Z 1000000)%float h else true)
  | OZ _ => false
  end.
Definition zout (z : Z) (o : tout) : bool := match o with OZ y => z =? y | _ => false end.
Definition check (c : tcase * tout) : bool :=
  match fst c with
  | CSecTd n => sec_ok n (snd c)
  | CSecDt d => sec_ok (dt_minus_epoch d) (snd c)
  | CDtF h m e => lit_ok h m e && zout (to_datetime_float (F m e)) (snd c)
  | CTdF h m e => lit_ok h m e && zout (to_timedelta_float (F m e)) (snd c)
  | CDtTd t => zout (to_datetime_td t) (snd c)
  | CTdDt d => zout (to_timedelta_dt d) (snd c)
  | CDtI s => zout (to_datetime_int s) (snd c)
  | CTdI s => zout (to_timedelta_int s) (snd c)
  end.
Definition model (c : tcase * tout) : bool := check c.
"""

US = 10 ** 6
BOUND = 2 ** 33 * US               # round trip claimed strictly below this many microseconds
MIN_DT_US = -62135596800 * US       # 0001-01-01T00:00:00Z
MAX_DT_US = 253402300799 * US + 999999
MAX_TD_US = 999999999 * 86400 * US + 86399 * US + 999999


# --------------------------------------------------------------------------
# calendar arithmetic of the harness (Howard Hinnant's civil-date algorithms)
# --------------------------------------------------------------------------

def days_from_civil(y, m, d):
    y -= m <= 2
    era = (y if y >= 0 else y - 399) // 400
    yoe = y - era * 400
    doy = (153 * (m + (-3 if m > 2 else 9)) + 2) // 5 + d - 1
    doe = yoe * 365 + yoe // 4 - yoe // 100 + doy
    return era * 146097 + doe - 719468


def civil_from_days(z):
    z += 719468
    era = (z if z >= 0 else z - 146096) // 146097
    doe = z - era * 146097
    yoe = (doe - doe // 1460 + doe // 36524 - doe // 146096) // 365
    y = yoe + era * 400
    doy = doe - (365 * yoe + yoe // 4 - yoe // 100)
    mp = (5 * doy + 2) // 153
    d = doy - (153 * mp + 2) // 5 + 1
    m = mp + (3 if mp < 10 else -9)
    return (y + (m <= 2), m, d)


def dt_to_us(dt):
    off = dt.utcoffset()
    off_us = (off.days * 86400 + off.seconds) * US + off.microseconds
    days = days_from_civil(dt.year, dt.month, dt.day)
    return ((days * 86400 + dt.hour * 3600 + dt.minute * 60 + dt.second) * US + dt.microsecond) - off_us


def us_to_dt(n, offset_minutes=0):
    """aware datetime with the given utc offset denoting n microseconds after the epoch (fields computed here)"""
    local = n + offset_minutes * 60 * US
    days, rem = divmod(local, 86400 * US)
    y, m, d = civil_from_days(days)
    if not (1 <= y <= 9999):
        return None
    s, us = divmod(rem, US)
    return datetime(y, m, d, s // 3600, (s // 60) % 60, s % 60, us,
                    tzinfo=timezone(timedelta(minutes=offset_minutes)))


def td_to_us(td):
    return (td.days * 86400 + td.seconds) * US + td.microseconds


# --------------------------------------------------------------------------
# Gallina printers
# --------------------------------------------------------------------------

def gfloat(x):
    h = x.hex()
    return f"(PrimFloat.opp {h[1:]})%float" if h.startswith("-") else f"({h})%float"


def gratio(x):
    num, den = x.as_integer_ratio()
    k = den.bit_length() - 1
    assert den == 1 << k
    return f"{gz(num)} {gz(-k)}"


def gfl_in(x):
    return f"{gfloat(x)} {gratio(x)}"


# --------------------------------------------------------------------------
# generators
# --------------------------------------------------------------------------

def gen_us(rng, lo, hi, n):
    """microsecond counts: boundaries + random magnitudes"""
    b = [0, 1, -1, 2, 999999, -999999, US, -US, US + 1, 1500000, -1500000, 86400 * US, BOUND - 1, -(BOUND - 1),
         BOUND, BOUND + 1, 2 ** 32 * US - 1, 2 ** 32 * US, 2 ** 32 * US + 1, 2 ** 53 - 1, 2 ** 53, 2 ** 53 + 1, -(2 ** 53 + 1),
         4294967295999999, 8589934591999999, -8589934591999999, lo, hi, lo + 1, hi - 1, 1695000000123456]
    out = [x for x in b if lo <= x <= hi]
    while len(out) < n:
        bits = rng.randrange(1, 66)
        v = rng.getrandbits(bits) * rng.choice([1, -1])
        if rng.random() < 0.3:
            v = v // US * US + rng.choice([0, 1, 499999, 500000, 500001, 999999])
        if lo <= v <= hi:
            out.append(v)
    return out


def gen_floats(rng, n):
    """float seconds: aligned, non-aligned, half-way, tiny, boundaries (all within the datetime range)"""
    b = [0.0, -0.0, 1e-6, -1e-6, 5e-7, 1.5e-6, 2.5e-6, 0.1, 0.5, 1.0, -1.0, 1.9999995, 2.0000005, 1e-7, 4.9e-324, -4.9e-324,
         2.2250738585072014e-308, 0.9999995, 0.9999994999999999, 0.9999995000000001, -0.9999995, 1234567.0000005,
         float(2 ** 32), float(2 ** 33), float(2 ** 33) - 2.0 ** -20, 2.0 ** 33 + 2.0 ** -19, 2.0 ** 37, 1e10, -1e10,
         253402300799.0, -62135596800.0, 1695000000.123456, 1695000000.1234565, 86400.0 * 365 * 50 + 1e-6]
    b += [(2 * j + 1) / 128.0 + k for j in (0, 1, 5, 63) for k in (0, 1, -3, 1000000)]      # frac * 1e6 is exactly x.5
    out = list(b)
    while len(out) < n:
        r = rng.random()
        if r < 0.35:        # nearest double to a multiple of a microsecond
            nus = rng.getrandbits(rng.randrange(1, 58)) * rng.choice([1, -1])
            x = nus / US
        elif r < 0.6:       # random bits
            e = rng.randrange(-40, 38)
            x = math.ldexp(rng.getrandbits(53) | (1 << 52), e - 52) * rng.choice([1, -1])
        elif r < 0.8:       # close to a half-microsecond boundary
            k = rng.getrandbits(rng.randrange(1, 45))
            x = (2 * k + 1) / (2 * US)
            for _ in range(rng.randrange(0, 3)):
                x = math.nextafter(x, rng.choice([-math.inf, math.inf]))
            x *= rng.choice([1, -1])
        else:
            x = rng.uniform(-3e9, 3e9)
        if -62135596800.0 <= x <= 253402300799.0:
            out.append(x)
    return out


# --------------------------------------------------------------------------

def run(chk):
    from reactivex.scheduler.scheduler import Scheduler
    from reactivex.internal.constants import UTC_ZERO
    proved = chk.build_and_prove()
    big = (not proved) or bool(chk.broken) or chk.tier == "thorough"
    rng = chk.rng
    N = 20000 if big else 2500
    to_seconds, to_datetime, to_timedelta = Scheduler.to_seconds, Scheduler.to_datetime, Scheduler.to_timedelta
    gal, meta = [], []
    hist = {"timedelta->seconds": 0, "datetime->seconds": 0, "float->datetime": 0, "float->timedelta": 0,
            "exact int conversions": 0, "aligned<2^33s": 0, "beyond 2^33s": 0, "non-utc offsets": 0, "halfway floats": 0}
    nontrivial = set()

    def viol(sig, d, size=0):
        chk.violation(sig, d, size=size)

    # ---- timedeltas -> seconds -> back ------------------------------------------------
    tds = gen_us(rng, -999999999 * 86400 * US, MAX_TD_US, N)
    res_td = []
    for n in tds:
        td = timedelta(microseconds=n)
        if td_to_us(td) != n:
            raise AssertionError("harness: timedelta construction")
        x = to_seconds(td)
        chk.cov["evaluations"] += 1
        hist["timedelta->seconds"] += 1
        gal.append((f"CSecTd {gz(n)}", f"OF {gfl_in(x)}"))
        meta.append({"fn": "to_seconds", "timedelta_us": n, "result": x.hex()})
        res_td.append((n, x))
        if not isinstance(x, float):
            viol("to_seconds-not-float", {"input_us": n, "result": repr(x)})
        if abs(n) < BOUND:
            hist["aligned<2^33s"] += 1
            back = td_to_us(to_timedelta(x))
            if back != n:
                viol("roundtrip|timedelta->seconds->timedelta",
                     {"timedelta_us": n, "seconds": x.hex(), "back_us": back,
                      "expected": "to_timedelta(to_seconds(td)) == td for |td| < 2^33 s"}, size=abs(n).bit_length())
            elif n % US:
                nontrivial.add(("td", n))
            if to_seconds(to_timedelta(x)) != x:
                viol("roundtrip|seconds->timedelta->seconds", {"seconds": x.hex()}, size=abs(n).bit_length())
        else:
            hist["beyond 2^33s"] += 1
        if to_timedelta(td) is not td or to_seconds(x) != x:
            viol("identity-on-converted", {"timedelta_us": n})
    srt = sorted(res_td)
    for (n1, x1), (n2, x2) in zip(srt, srt[1:]):
        if not x1 <= x2:
            viol("order|to_seconds(timedelta)", {"us": [n1, n2], "seconds": [x1.hex(), x2.hex()],
                                                 "expected": "n1 <= n2 implies to_seconds <= "}, size=abs(n1).bit_length())
    # ---- aware datetimes --------------------------------------------------------------
    dts = gen_us(rng, MIN_DT_US + 86400 * US, MAX_DT_US - 86400 * US, N)
    res_dt = []
    for n in dts:
        off = rng.choice([0, 0, 60, -300, 330, 14 * 60, -12 * 60, 1])
        dt = us_to_dt(n, off)
        if dt is None:
            continue
        hist["non-utc offsets"] += int(off != 0)
        x = to_seconds(dt)
        td = to_timedelta(dt)
        chk.cov["evaluations"] += 2
        hist["datetime->seconds"] += 1
        hist["exact int conversions"] += 1
        gal.append((f"CSecDt {gz(n)}", f"OF {gfl_in(x)}"))
        meta.append({"fn": "to_seconds", "datetime": dt.isoformat(), "us_after_epoch": n, "result": x.hex()})
        gal.append((f"CTdDt {gz(n)}", f"OZ {gz(td_to_us(td))}"))
        meta.append({"fn": "to_timedelta", "datetime": dt.isoformat(), "result_us": td_to_us(td)})
        res_dt.append((n, x, dt))
        if td_to_us(td) != n:
            viol("exact|to_timedelta(datetime)", {"datetime": dt.isoformat(), "us_after_epoch": n, "result_us": td_to_us(td)})
        back = to_datetime(td)
        if back != dt or back.utcoffset() is None or dt_to_us(back) != n:
            viol("roundtrip|datetime->timedelta->datetime", {"datetime": dt.isoformat(), "back": back.isoformat()})
        if to_datetime(dt) is not dt:
            viol("identity-on-converted", {"datetime": dt.isoformat()})
        if abs(n) < BOUND:
            hist["aligned<2^33s"] += 1
            b2 = to_datetime(x)
            if b2.utcoffset() != timedelta(0) or dt_to_us(b2) != n or b2 != dt:
                viol("roundtrip|datetime->seconds->datetime",
                     {"datetime": dt.isoformat(), "seconds": x.hex(), "back": b2.isoformat(),
                      "expected": "to_datetime(to_seconds(dt)) == dt (aware, UTC) within 2^33 s of the epoch"},
                     size=abs(n).bit_length())
            elif n % US:
                nontrivial.add(("dt", n))
    srt = sorted(res_dt, key=lambda t: t[0])
    for (n1, x1, d1), (n2, x2, d2) in zip(srt, srt[1:]):
        if not x1 <= x2 or not ((d1 <= d2) and (to_timedelta(d1) <= to_timedelta(d2))):
            viol("order|datetime", {"us": [n1, n2], "seconds": [x1.hex(), x2.hex()]}, size=abs(n1).bit_length())
    # ---- timedelta -> datetime (exact) ---------------------------------------------------
    for n in dts[: len(dts) // 2]:
        td = timedelta(microseconds=n)
        dt = to_datetime(td)
        chk.cov["evaluations"] += 1
        hist["exact int conversions"] += 1
        gal.append((f"CDtTd {gz(n)}", f"OZ {gz(dt_to_us(dt))}"))
        meta.append({"fn": "to_datetime", "timedelta_us": n, "result": dt.isoformat()})
        if dt.utcoffset() != timedelta(0) or dt_to_us(dt) != n or to_timedelta(dt) != td:
            viol("exact|to_datetime(timedelta)", {"timedelta_us": n, "result": dt.isoformat()})
    # ---- floats -> datetime / timedelta ----------------------------------------------------
    fls = gen_floats(rng, N)
    res_f = []
    for x in fls:
        try:
            dt = to_datetime(x)
            td = to_timedelta(x)
        except (OverflowError, ValueError, OSError) as e:
            viol("float-in-range-rejected", {"seconds": x.hex(), "error": repr(e)})
            continue
        chk.cov["evaluations"] += 2
        hist["float->datetime"] += 1
        hist["float->timedelta"] += 1
        u1, u2 = dt_to_us(dt), td_to_us(td)
        fr = abs(x) * US % 1
        hist["halfway floats"] += int(fr == 0.5)
        gal.append((f"CDtF {gfl_in(x)}", f"OZ {gz(u1)}"))
        meta.append({"fn": "to_datetime", "seconds": x.hex(), "result": dt.isoformat(), "result_us": u1})
        gal.append((f"CTdF {gfl_in(x)}", f"OZ {gz(u2)}"))
        meta.append({"fn": "to_timedelta", "seconds": x.hex(), "result_us": u2})
        res_f.append((x, u1, u2))
        if dt.utcoffset() != timedelta(0):
            viol("to_datetime-not-utc-aware", {"seconds": x.hex(), "result": repr(dt)})
        if u1 != u2:
            viol("to_datetime-vs-to_timedelta", {"seconds": x.hex(), "datetime_us": u1, "timedelta_us": u2,
                                                 "expected": "both denote the same microsecond count"})
        # within half a microsecond (+ the rounding of frac*1e6) of the real number
        if abs(u1 - x * US) > 0.5 + 1e-3 and abs(x) < 2 ** 33:
            viol("float-conversion-inaccurate", {"seconds": x.hex(), "result_us": u1})
        if abs(u1) < BOUND:
            # aligned reading: the double nearest to u1 us converts back to u1
            if td_to_us(to_timedelta(u1 / US)) != u1:
                viol("roundtrip|us->seconds->us", {"us": u1})
            nontrivial.add(("f", x.hex()))
    srt = sorted(res_f, key=lambda t: t[0])
    for (x1, a1, b1), (x2, a2, b2) in zip(srt, srt[1:]):
        if not (a1 <= a2 and b1 <= b2):
            viol("order|float->datetime/timedelta", {"seconds": [x1.hex(), x2.hex()], "us": [a1, a2]},
                 size=10)
    # ---- ints ---------------------------------------------------------------------------
    for s in [0, 1, -1, 1695000000, -62135596800 + 86400, 253402300799 - 86400, 2 ** 33, -(2 ** 33)] + \
             [rng.randrange(-6 * 10 ** 10, 25 * 10 ** 10) for _ in range(50)]:
        dt, td = to_datetime(s), to_timedelta(s)
        chk.cov["evaluations"] += 2
        gal.append((f"CDtI {gz(s)}", f"OZ {gz(dt_to_us(dt))}"))
        meta.append({"fn": "to_datetime", "int_seconds": s, "result": dt.isoformat()})
        gal.append((f"CTdI {gz(s)}", f"OZ {gz(td_to_us(td))}"))
        meta.append({"fn": "to_timedelta", "int_seconds": s, "result_us": td_to_us(td)})
        if dt_to_us(dt) != s * US or td_to_us(td) != s * US or dt.utcoffset() != timedelta(0) or to_seconds(s) != s:
            viol("int-seconds", {"int_seconds": s, "datetime": dt.isoformat(), "timedelta_us": td_to_us(td)})
    # ---- now ------------------------------------------------------------------------------
    nows = check_now()
    for name, problem in nows["problems"]:
        viol(f"now-not-utc-aware|{name}", {"scheduler": name, "problem": problem})
    if dt_to_us(UTC_ZERO) != 0 or UTC_ZERO.utcoffset() != timedelta(0):
        viol("UTC_ZERO", {"UTC_ZERO": repr(UTC_ZERO)})

    bad, logs = lib.correspondence("C36", "conv", IMPORTS, "(tcase * tout) * tout", "model",
                                   "(fun (a : bool) (_ : tout) => a)",
                                   [(f"({a}, {b})", b) for a, b in gal], prelude=PRELUDE, shard=1500)
    chk.cov["traces_validated_against_impl"] = len(gal)
    chk.cov["disagreements_checked"] = len(gal)
    if bad:
        idx = [i for i in bad if i >= 0][:6]
        detail = {"n_disagreements": len(bad), "first_cases": [meta[i] for i in idx],
                  "first_cases_gallina": [gal[i] for i in idx[:2]], "logs": logs[:1]}
        chk.tie_broken("correspondence: Core/TimeConv.v vs Scheduler.to_seconds/to_datetime/to_timedelta (bit-exact)",
                       detail)
    chk.cov["distinct_nontrivial"] = len(nontrivial)
    chk.cov["rule"] = ("timedeltas over the whole timedelta range and aware datetimes (utc offsets 0,+60,-300,+330,+840,"
                       "-720,+1 min) over years 1..9999: boundaries (0, +-1us, +-999999, +-10^6, 2^32 s, 2^33 s -+ 1us, 2^53, "
                       "range ends) + random magnitudes up to 2^65 us, 30% snapped to x.000000/.000001/.499999/.5/.500001/"
                       ".999999 s; floats: nearest doubles of microsecond multiples, random 53-bit mantissas with exponents "
                       "2^-40..2^37, neighbours of half-microsecond boundaries, (2j+1)/128 + k (frac*1e6 exactly x.5), "
                       "denormals, +-0.0, range ends; ints.  non-trivial = distinct values inside the round-trip range "
                       "whose round trip was checked and that are not whole seconds (floats: all inside the range)")
    hist["schedulers_checked_for_now"] = nows["checked"]
    ft = foreign_timezones(chk)
    hist["foreign_timezone_runs"] = {"cases_per_timezone": ft[0], "local_utc_offsets_s": ft[1]} if ft else "failed"
    chk.cov["input_distribution"] = hist
    chk.add_samples([meta[i] for i in range(0, len(meta), max(1, len(meta) // 6))][:6])
    return chk.finish(
        trusted_extra=["Core/TimeConv.v: model of timedelta.total_seconds() (int/int true division, correctly rounded), "
                       "datetime.fromtimestamp(x, utc) (_PyTime_ObjectToTimeval ROUND_HALF_EVEN) and timedelta(seconds=x) "
                       "(delta_new) on integers -- tied bit-exactly by this run; CPython's datetime/timedelta arithmetic",
                       "PrimFloat (kernel binary64) to read float.hex() literals and to cross-check to_seconds below 2^53 us",
                       "the harness' calendar arithmetic (days_from_civil / civil_from_days)"],
        assumptions=["'within the representable range' is made explicit: round trips through float seconds are claimed for "
                     "|t| < 2^33 s = 8589934592 s (about 272 years around the epoch), where binary64 spacing is below 1 us; "
                     "beyond it distinct microsecond counts share one double and no round trip is possible",
                     "`now` being timezone-aware UTC is checked by the harness on instantiable schedulers (not a theorem)"])


# ---- the conversions must not depend on the process's LOCAL timezone ------------------------------------------
TZ_CHILD = r"""
import sys, json, random, time
from datetime import datetime, timedelta, timezone
from reactivex.scheduler.scheduler import Scheduler
from reactivex.scheduler import VirtualTimeScheduler, HistoricalScheduler
seed = int(sys.argv[1])
rng = random.Random(seed)
EPOCH = datetime(1970, 1, 1, tzinfo=timezone.utc)
us = lambda dt: (dt - EPOCH) // timedelta(microseconds=1)
tdus = lambda td: td // timedelta(microseconds=1)
out = []
for i in range(int(sys.argv[2])):
    n = rng.randrange(-10**13, 10**13)
    x = rng.randrange(-10**7, 10**7) / 8.0
    off = rng.choice([0, 60, -300, 330, 345])
    adt = (EPOCH + timedelta(microseconds=n)).astimezone(timezone(timedelta(minutes=off)))
    out.append(["to_datetime(float)", x, us(Scheduler.to_datetime(x))])
    out.append(["to_datetime(timedelta)", n, us(Scheduler.to_datetime(timedelta(microseconds=n)))])
    out.append(["to_datetime(int)", int(x), us(Scheduler.to_datetime(int(x)))])
    out.append(["to_seconds(datetime)", [n, off], Scheduler.to_seconds(adt).hex()])
    out.append(["to_timedelta(datetime)", [n, off], tdus(Scheduler.to_timedelta(adt))])
    out.append(["to_seconds(to_datetime(float))", x, Scheduler.to_seconds(Scheduler.to_datetime(x)).hex()])
    out.append(["to_timedelta(to_datetime(timedelta))", n,
                tdus(Scheduler.to_timedelta(Scheduler.to_datetime(timedelta(microseconds=n))))])
v = VirtualTimeScheduler(250.0)
out.append(["to_seconds(VirtualTimeScheduler(250.0).now)", 250.0, Scheduler.to_seconds(v.now).hex()])
out.append(["VirtualTimeScheduler(250.0).now", 250.0, us(v.now)])
out.append(["HistoricalScheduler().now", None, us(HistoricalScheduler().now)])
out.append(["local utc offset of the child (s)", None, -time.timezone])
print(json.dumps(out))
"""


def foreign_timezones(chk):
    """oracle-only, metamorphic: the same conversions evaluated in child processes whose LOCAL timezone is UTC /
    3 h east / 5 h 30 min west (TZ set before reactivex is imported, so import-time constants see it) must give
    identical results"""
    import os
    import subprocess
    import sys
    n = 40 if chk.tier == "quick" else 400
    seed = chk.rng.getrandbits(32)
    runs = {}
    for tz in ("UTC", "TST-03", "ABC+05:30"):
        env = dict(os.environ, TZ=tz, PYTHONPATH=lib.REPO, PYTHONHASHSEED="0")
        r = subprocess.run([sys.executable, "-c", TZ_CHILD, str(seed), str(n)], env=env, capture_output=True,
                           text=True, timeout=120)
        if r.returncode != 0:
            chk.tie_broken("foreign-timezone child process failed", {"tz": tz, "stderr": r.stderr[-800:]})
            return 0
        runs[tz] = json.loads(r.stdout)
    base = runs["UTC"]
    chk.cov["evaluations"] += 3 * len(base)
    offsets = {tz: rs[-1][2] for tz, rs in runs.items()}
    for tz, rs in runs.items():
        if tz == "UTC":
            continue
        for a, b in zip(base[:-1], rs[:-1]):
            if a != b:
                chk.violation(f"C36|local-timezone-dependence|{a[0]}",
                              {"foreign_timezone": True, "seed": seed, "n": n, "conversion": a[0], "argument": a[1],
                               "result with local timezone UTC": a[2], f"result with TZ={tz}": b[2],
                               "what": "a conversion / `now` gives a different value when only the process's local "
                                       "timezone differs (microseconds since the epoch, float.hex() for seconds)"},
                              size=1)
                break
    return len(base), offsets


def check_now():
    import reactivex.scheduler as sch
    from reactivex.internal.basic import default_now
    problems, checked = [], []

    def ok(name, v):
        checked.append(name)
        if not isinstance(v, datetime) or v.tzinfo is None or v.utcoffset() != timedelta(0):
            problems.append((name, f"now = {v!r}"))

    ok("default_now", default_now())
    mk = {
        "ImmediateScheduler": lambda: sch.ImmediateScheduler(),
        "CurrentThreadScheduler": lambda: sch.CurrentThreadScheduler(),
        "TrampolineScheduler": lambda: sch.TrampolineScheduler(),
        "NewThreadScheduler": lambda: sch.NewThreadScheduler(),
        "TimeoutScheduler": lambda: sch.TimeoutScheduler(),
        "ThreadPoolScheduler": lambda: sch.ThreadPoolScheduler(1),
        "EventLoopScheduler": lambda: sch.EventLoopScheduler(),
        "VirtualTimeScheduler": lambda: sch.VirtualTimeScheduler(),
        "VirtualTimeScheduler(1e9)": lambda: sch.VirtualTimeScheduler(1e9),
        "HistoricalScheduler": lambda: sch.HistoricalScheduler(),
        "CatchScheduler": lambda: sch.CatchScheduler(sch.ImmediateScheduler(), lambda e: True),
    }
    for name, f in mk.items():
        try:
            s = f()
        except Exception as e:     # scheduler not constructible here: not checked
            continue
        try:
            ok(name, s.now)
        finally:
            d = getattr(s, "dispose", None)
            if d and name in ("EventLoopScheduler",):
                d()
            ex = getattr(s, "executor", None)
            if ex is not None:
                ex.shutdown(wait=False)
    try:
        from reactivex.testing import TestScheduler
        ok("TestScheduler", TestScheduler().now)
    except Exception:
        pass
    try:
        import asyncio
        from reactivex.scheduler.eventloop import AsyncIOScheduler
        loop = asyncio.new_event_loop()
        try:
            ok("AsyncIOScheduler", AsyncIOScheduler(loop).now)
        finally:
            loop.close()
    except Exception:
        pass
    return {"problems": problems, "checked": checked}


def replay(chk, path):
    d0 = json.load(open(path))
    if d0.get("foreign_timezone"):
        class _R:       # re-run the family with the recorded seed
            def getrandbits(self, _):
                return d0["seed"]
        before = len(chk.violations) if hasattr(chk, "violations") else 0
        chk.rng = _R()
        foreign_timezones(chk)
        bad = (len(chk.violations) if hasattr(chk, "violations") else 0) > before
        print("foreign-timezone family re-run with seed", d0["seed"], "->", "still differs" if bad else "agrees")
        if bad:
            print(f"VIOLATION property=C36 replay={path}")
        return 1 if bad else 0
    from reactivex.scheduler.scheduler import Scheduler
    d = json.load(open(path))
    print(json.dumps(d, indent=1)[:3000])
    if "timedelta_us" in d and "seconds" in d:
        td = timedelta(microseconds=d["timedelta_us"])
        x = Scheduler.to_seconds(td)
        print("now: to_seconds ->", x.hex(), "back ->", td_to_us(Scheduler.to_timedelta(x)))
    return 1
