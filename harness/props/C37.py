"""C37 -- source factories emit their specified sequences.

Machines: Ops/Sources.v on the runner Ops/Multi.v.  Every factory is subscribed with
the proxy scheduler of harness/k2m.py (passed either to subscribe() or as the factory's
own scheduler argument), so that each piece of scheduled work shows up as a timer with
its delay; the harness fires the timers in due order on a virtual clock and may dispose
after any number of firings.  The recorded boundary log (emissions, timers with delays,
cancellations, iterator pulls) must equal the machine's trace (Coq, vm_compute).

Oracles (never consult the model): Python's own `list(range(...))`, the iterable's items,
the literal while-loop for generate, accumulated delays for generate_with_relative_time,
d + k*p for timer, [v]*n for repeat_value.  Differential runs: the same observable on its
default scheduler (trampoline / immediate; under lib.with_timeout) and, for the timed
factories, on reactivex.testing.TestScheduler.

Oracle-only re-subscription family: the SAME observable object is subscribed a second time
after the first run ('sequential') and twice at once ('overlapping'); every subscription must
emit the specified sequence by itself (per-subscription state: range's iterator, generate's
`first`/`state`, the iterable's iterator).  generate conditions hand back non-bool verdicts
of the same truthiness (1/0, "x"/"", "x"/None, [0]/[]) while the Gallina table stays boolean;
throw("text") / rx.just and falsy payloads (None, 0, False, "", (), 0.0) for of / from_iterable
/ return_value / repeat_value are generated too (payloads are interned to ids for Coq).

Oracle-only family `calls` (harness/c37_calls.py): generate / generate_with_relative_time (bare, or wrapped in
rx.defer / rx.create) with call-recording PARTIAL callbacks (dict / list lookups, a division, assertions --
defined only where the while-loop calls them: iterate and time_mapper only on states that pass the condition)
and callbacks with side effects (call counters, queues popped per call, a condition reading the number of
elements delivered so far); the recorded sequence of (callback, argument) calls interleaved with the
notifications must be the one of the literal while-loop run on a fresh copy of the callbacks."""
import datetime as dt
import itertools
import json
import random

import c37_calls
import k2
import k2m
import lib
from k2 import UserError, err_id
from lib import gz, gopt

IMPORTS = "Base.Prelude Base.CaseLib Ops.Machine Ops.Multi Ops.MultiCase Ops.Sources"
NAMES = ["range", "from_iterable", "of", "return_value", "empty", "never", "throw", "generate",
         "generate_with_relative_time", "timer", "repeat_value"]
MAX_INPUTS = 40
D = list(range(-1, 7))          # state domain of generated loop functions
# payload pool of the value-carrying factories (of / from_iterable / return_value / repeat_value): ids 0..9,
# falsy values first; Coq sees the ids
PV = k2.Pool([None, 0, False, "", (), 0.0, 1, 2, "a", 7])
# what a generate condition hands back for (true, false): same truthiness, not always a bool
VERDICTS = {"bool": (True, False), "int": (1, 0), "str": ("x", ""), "none": ("x", None), "container": ([0], [])}
TEXT = "boom"                   # throw("text")


def pv_id(v):
    try:
        return PV.id(v)
    except KeyError:
        return -12345               # a payload that was never put in


def ident(v):
    return v


def enc_of(case):
    return pv_id if case.get("pool") else ident


def val_of(case):
    return PV.val if case.get("pool") else ident


# ---- driver -------------------------------------------------------------------------

def run_source(build, dispose_after=None, horizon=None, budget=None, via_factory=False):
    """subscribe build(env, sched_or_None) with the proxy scheduler and fire its timers in due order.
    dispose_after=k: the subscriber disposes after k timer firings.  budget=k: the subscriber disposes
    from inside its k-th on_next."""
    env = k2m.Env()
    sched = k2m.make_scheduler(env)
    obs = build(env, sched if via_factory else None)
    sub_box = []
    seen = [0]

    def on_next(v):
        env.log.append((env.tag, "emit", "N", v))
        seen[0] += 1
        if budget is not None and seen[0] == budget:
            sub_box[0].dispose()

    if budget is not None:
        # the subscription handle must exist before the first element arrives: fine, nothing is
        # delivered before the first timer fires
        pass
    escapes = []
    try:
        sub = obs.subscribe(on_next, lambda e: env.log.append((env.tag, "emit", "E", e)),
                            lambda: env.log.append((env.tag, "emit", "C", None)),
                            scheduler=None if via_factory else sched)
    except Exception as e:
        escapes.append((0, e))
        sub = None
    sub_box.append(sub)
    inputs, disposed, capped = [], False, False
    while True:
        if dispose_after is not None and not disposed and len(inputs) >= dispose_after:
            disposed = True
            env.tag = len(inputs) + 1
            inputs.append((env.now, ("dispose",)))
            if sub is not None:
                sub.dispose()
            continue
        if not env.timers:
            break
        tag = min(env.timers, key=lambda t: (env.timers[t][0], t))
        due = env.timers[tag][0]
        if horizon is not None and due > horizon:
            capped = True
            break
        if len(inputs) >= MAX_INPUTS:
            capped = True
            break
        env.now = max(env.now, due)
        env.tag = len(inputs) + 1
        inputs.append((env.now, ("tick", tag)))
        try:
            sched.fire(tag)
        except Exception as e:
            escapes.append((env.tag, e))
    return {"env": env, "inputs": inputs, "log": env.log, "escapes": escapes, "capped": capped,
            "disposed": disposed or (budget is not None and seen[0] >= budget)}


def emitted(res):
    """[(time_ms, kind, payload)] with payload = value / error id / None"""
    out = []
    enc = res.get("enc", ident)
    for (tag, kind, a, b) in res["log"]:
        if kind == "emit":
            t = res["inputs"][tag - 1][0] if tag > 0 else 0
            out.append((t, a, enc(b) if a == "N" else (err_id(b) if a == "E" else None)))
    return out


def run_default(build, enc=ident):
    """the same observable on its default scheduler (only for the factories whose default is the
    trampoline / immediate scheduler); -> ('ok', [(kind, payload)]) | ('timeout', None)"""
    def go():
        out = []
        build(None, None).subscribe(lambda v: out.append(("N", enc(v))), lambda e: out.append(("E", err_id(e))),
                                    lambda: out.append(("C", None)))
        return out
    return lib.with_timeout(5, go)


def run_testscheduler(build):
    from reactivex.testing import TestScheduler
    ts = TestScheduler()

    def go():
        r = ts.start(lambda: build(None, None), created=100.0, subscribed=200.0, disposed=1000.0)
        out = []
        for m in r.messages:
            k = m.value.kind
            out.append((int(round((m.time - 200.0) * 1000)),
                        "N" if k == "N" else ("E" if k == "E" else "C"),
                        m.value.value if k == "N" else (err_id(m.value.exception) if k == "E" else None)))
        return out
    return lib.with_timeout(10, go)


# ---- tables (finite callbacks mirrored in Gallina) -----------------------------------

def g_res(r, enc):
    return f"Raise {gz(r[1])}" if r[0] == "raise" else f"Ok {enc(r[1])}"


def g_table(t, default, enc):
    es = "; ".join(f"({gz(k)}, {g_res(t[k], enc)})" for k in sorted(t))
    return f"(tbl [{es}] ({g_res(default, enc)}))"


def py_table(t, default):
    def f(x):
        r = t.get(x, default)
        if r[0] == "raise":
            raise UserError(r[1])
        return r[1]
    return f


def tbl_json(t):
    return {str(k): list(v) for k, v in t.items()}


def tbl_unjson(j):
    return {int(k): tuple(v) for k, v in j.items()}


class SpyIterable:
    def __init__(self, env, items):
        self.env, self.items = env, items

    def __iter__(self):
        env, items = self.env, self.items
        pos = [0]

        class It:
            def __iter__(self):
                return self

            def __next__(self):
                i = pos[0]
                pos[0] += 1
                if env is not None:
                    env.effect(400 + i)
                if i >= len(items):
                    raise StopIteration
                if items[i][0] == "raise":
                    raise UserError(items[i][1])
                return items[i][1]
        return It()


# ---- cases (JSON) ---------------------------------------------------------------------

def gen_case(rng, name):
    c = {"name": name, "via_factory": False, "dispose_after": None, "budget": None, "horizon": None}
    if name == "range":
        a = rng.randint(-6, 8)
        stop = rng.choice([None, None] + list(range(-6, 9)))
        step = rng.choice([None, None, 1, 2, 3, -1, -2, -3, 5, -7])
        if rng.random() < 0.05:
            step = 0
        c.update(a=a, stop=stop, step=step, via_factory=rng.random() < 0.5)
    elif name in ("from_iterable", "of"):
        n = rng.choice([0, 1, 2, 3, 5])
        items = [["ok", rng.randrange(10)] for _ in range(n)]
        if name == "from_iterable" and rng.random() < 0.3:
            items.insert(rng.randrange(n + 1), ["raise", 51])
        c.update(items=items, alias=rng.choice(["from_iterable", "from_", "from_list"]),
                 via_factory=name == "from_iterable" and rng.random() < 0.5, pool=True)
        if rng.random() < 0.3 and n:
            c["budget"] = rng.randint(1, n)
    elif name == "return_value":
        c.update(v=rng.randrange(10), via_factory=rng.random() < 0.5, pool=True,
                 alias=rng.choice(["return_value", "just"]))
    elif name == "empty":
        c.update(via_factory=rng.random() < 0.5)
    elif name == "throw":
        c.update(via_factory=rng.random() < 0.5, exc=rng.choice(["user", "text"]))
    elif name in ("generate", "generate_with_relative_time"):
        cond = {}
        limit = rng.choice([0, 1, 2, 3, 4, 6])
        for x in D:
            cond[x] = ("ok", x < limit)
        it = {x: ("ok", x + 1 if x + 1 in D else D[0]) for x in D}
        if rng.random() < 0.25:
            it = {x: ("ok", rng.choice(D)) for x in D}
        if rng.random() < 0.2:
            cond[rng.choice(D)] = ("raise", 52)
        if rng.random() < 0.2:
            it[rng.choice(D)] = ("raise", 53)
        c.update(init=rng.choice([-1, 0, 0, 1, 2]), cond=tbl_json(cond), iter=tbl_json(it),
                 verdict=rng.choice(["bool", "int", "str", "none", "container"]))
        if name == "generate_with_relative_time":
            tm = {x: ("ok", rng.choice([0, 0, 10, 20, 35])) for x in D}
            if rng.random() < 0.2:
                tm = {x: ("ok", 0) for x in D}
            if rng.random() < 0.15:
                tm[rng.choice(D)] = ("raise", 54)
            c.update(tm=tbl_json(tm), unit=rng.choice(["float", "timedelta", "int"]))
    elif name == "timer":
        d = rng.choice([-10, 0, 0, 5, 30, 30])
        p = rng.choice([None, None, 0, 10, 30, 30])
        if p is not None:
            d = abs(d)
        c.update(d=d, p=p, d_as=rng.choice(["float", "timedelta", "datetime"]),
                 p_as=rng.choice(["float", "timedelta"]), via_factory=rng.random() < 0.5, horizon=200)
    elif name == "repeat_value":
        c.update(v=rng.randrange(10), n=rng.choice([None, -1, 0, 1, 2, 3, 5]), pool=True)
    if rng.random() < 0.25:
        c["dispose_after"] = rng.choice([0, 1, 2, 3])
    return c


def secs(ms, how):
    if how == "timedelta":
        return dt.timedelta(milliseconds=ms)
    if how == "datetime":
        return k2m.EPOCH + dt.timedelta(milliseconds=ms)
    if how == "int" and ms % 1000 == 0:
        return ms // 1000
    return ms / 1000.0


def make(case):
    """-> (build(env, sched) -> observable, coq machine text | None when the factory itself raises)"""
    import reactivex as rx
    n = case["name"]
    val = val_of(case)
    if n == "range":
        a, stop, step = case["a"], case["stop"], case["step"]

        def build(env, sched):
            if step is not None:
                return rx.range(a, stop, step, scheduler=sched)
            if stop is not None:
                return rx.range(a, stop, scheduler=sched)
            return rx.range(a, scheduler=sched)
        return build, f"x_range_py {gz(a)} {gopt(stop)} {gopt(step)}"
    if n in ("from_iterable", "of"):
        items = [tuple(i) for i in case["items"]]
        g_items = "[" + "; ".join(g_res(i, gz) for i in items) + "]"
        gb = "None" if case["budget"] is None else f"(Some {case['budget']}%nat)"
        if n == "of":
            return (lambda env, sched: rx.of(*[val(i[1]) for i in items])), f"x_from_iterable false {g_items} {gb}"
        fn = getattr(rx, case["alias"])
        pitems = [(k, val(v) if k == "ok" else v) for (k, v) in items]
        return (lambda env, sched: fn(SpyIterable(env, pitems), scheduler=sched)), f"x_from_iterable true {g_items} {gb}"
    if n == "return_value":
        rv = getattr(rx, case.get("alias", "return_value"))         # rx.just is the documented alias
        return (lambda env, sched: rv(val(case["v"]), scheduler=sched)), f"x_return_value {case['v']}"
    if n == "empty":
        return (lambda env, sched: rx.empty(scheduler=sched)), "x_empty"
    if n == "never":
        return (lambda env, sched: rx.never()), "x_never"
    if n == "throw":
        # the factory's scheduler argument is shadowed inside throw_ (see Ops/Sources.v)
        if case.get("exc") == "text":       # throw("text") wraps the text in a plain Exception (err id -100)
            return ((lambda env, sched: rx.throw(TEXT, scheduler=sched)),
                    f"x_throw_immediate {gz(-100)}" if case["via_factory"] else f"x_throw {gz(-100)}")
        return ((lambda env, sched: rx.throw(UserError(11), scheduler=sched)),
                "x_throw_immediate 11" if case["via_factory"] else "x_throw 11")
    if n in ("generate", "generate_with_relative_time"):
        cond, it = tbl_unjson(case["cond"]), tbl_unjson(case["iter"])
        pc, pi = py_table(cond, ("ok", False)), py_table(it, ("ok", 0))
        vt, vf = VERDICTS[case.get("verdict", "bool")]
        pb = pc
        pc = lambda x: vt if pb(x) else vf           # same truthiness, not necessarily a bool
        gc, gi = g_table(cond, ("ok", False), lib.gbool), g_table(it, ("ok", 0), gz)
        if n == "generate":
            return (lambda env, sched: rx.generate(case["init"], pc, pi)), f"x_generate {gz(case['init'])} {gc} {gi}"
        tm = tbl_unjson(case["tm"])
        pt = py_table(tm, ("ok", 0))
        return ((lambda env, sched: rx.generate_with_relative_time(case["init"], pc, pi,
                                                                   lambda s: secs(pt(s), case["unit"]))),
                f"x_gwrt {gz(case['init'])} {gc} {gi} {g_table(tm, ('ok', 0), gz)}")
    if n == "timer":
        d, p = case["d"], case["p"]
        dv = secs(d, case["d_as"])
        if p is None:
            return (lambda env, sched: rx.timer(dv, scheduler=sched)), f"x_timer {gz(d)}"
        pv = secs(p, case["p_as"])
        same = (not isinstance(dv, dt.datetime)) and dv == pv
        coq = f"x_timer_periodic {gz(p)}" if same else f"x_timer_period {gz(d)} {gz(p)}"
        return (lambda env, sched: rx.timer(dv, pv, scheduler=sched)), coq
    if n == "repeat_value":
        return (lambda env, sched: rx.repeat_value(val(case["v"]), case["n"])), f"x_repeat_value {case['v']} {gopt(case['n'])}"
    raise AssertionError(n)


SYNC_DEFAULT = {"range", "from_iterable", "of", "return_value", "empty", "throw", "generate", "repeat_value"}


def run_case(case):
    build, coq = make(case)
    if case["name"] == "range" and case["step"] == 0:
        try:
            build(None, None)
            return {"factory_raised": None, "coq": coq}
        except ValueError as e:
            return {"factory_raised": e, "coq": coq}
    res = run_source(build, dispose_after=case["dispose_after"], horizon=case["horizon"], budget=case["budget"],
                     via_factory=case["via_factory"])
    res["coq"] = coq
    res["enc"] = enc_of(case)
    return res


# ---- the same observable object subscribed twice (oracle only) ------------------------------

def run_shared(case, mode):
    """ONE observable object, two subscriptions on the proxy scheduler.
    'sequential': the first subscription runs as the case says (to its end / disposed / cut, then disposed), the
    second one is made afterwards and runs undisturbed; 'overlapping': both are made before any timer fires, the
    first one disposes as the case says (dispose_after counts all firings), the second one never does.
    -> [(case_i, res_i)]: each res_i has its own emission log and clock readings relative to its subscribe()."""
    build, _ = make(case)
    env = k2m.Env()
    sched = k2m.make_scheduler(env)
    via = case["via_factory"]
    obs = build(env, sched if via else None)
    enc = enc_of(case)

    def subscribe(inputs, budget):
        r = {"log": [], "inputs": inputs, "escapes": [], "capped": False, "disposed": False, "enc": enc, "sub": None,
             "t0": env.now}
        seen = [0]

        def on_next(v):
            r["log"].append((len(inputs), "emit", "N", v))
            seen[0] += 1
            if budget is not None and seen[0] == budget:
                r["disposed"] = True
                r["sub"].dispose()
        try:
            r["sub"] = obs.subscribe(on_next, lambda e: r["log"].append((len(inputs), "emit", "E", e)),
                                     lambda: r["log"].append((len(inputs), "emit", "C", None)),
                                     scheduler=None if via else sched)
        except Exception as e:
            r["escapes"].append((0, e))
        return r

    def pump(runs, inputs, t0, dispose_after):
        fired = 0
        while True:
            if dispose_after is not None and not runs[0]["disposed"] and fired >= dispose_after:
                runs[0]["disposed"] = True
                if runs[0]["sub"] is not None:
                    runs[0]["sub"].dispose()
                continue
            if not env.timers:
                return
            tag = min(env.timers, key=lambda t: (env.timers[t][0], t))
            due = env.timers[tag][0]
            if (case["horizon"] is not None and due - t0 > case["horizon"]) or fired >= MAX_INPUTS:
                for r in runs:
                    r["capped"] = True
                return
            env.now = max(env.now, due)
            inputs.append((env.now - t0, ("tick", tag)))      # appended BEFORE firing: log tags are len(inputs)
            fired += 1
            try:
                sched.fire(tag)
            except Exception as e:
                for r in runs:
                    r["escapes"].append((len(inputs), e))

    first = dict(case)
    second = dict(case, dispose_after=None, budget=None)
    if mode == "sequential":
        i1 = []
        r1 = subscribe(i1, case["budget"])
        pump([r1], i1, 0, case["dispose_after"])
        if r1["sub"] is not None:
            r1["sub"].dispose()
        env.timers.clear()          # whatever the first subscription left behind is not the second one's business
        t0 = env.now
        i2 = []
        r2 = subscribe(i2, None)
        pump([r2], i2, t0, None)
        return [(first, r1), (second, r2)]
    inputs = []
    r1 = subscribe(inputs, case["budget"])
    r2 = subscribe(inputs, None)
    pump([r1, r2], inputs, 0, case["dispose_after"])
    return [(first, r1), (second, r2)]


def oracle_shared(case, mode):
    """every subscription of the one observable object emits the specified sequence by itself"""
    if case["name"] == "range" and case["step"] == 0:
        return None
    # an absolute due time (timer(datetime)) lies in the past for a later subscription: sequence only
    for i, (c, r) in enumerate(run_shared(case, mode)):
        v = oracle(c, r, check_times=not (mode == "sequential" and i == 1 and case.get("d_as") == "datetime"))
        if v:
            return f"subscription {i + 1} of 2 ({mode}) of one observable object: {v}"
    return None


# ---- oracles ------------------------------------------------------------------------------

def finished(res):
    """the run was neither cut by the harness nor disposed: the whole sequence is in the log"""
    return not res["capped"] and not res["disposed"]


def seq(em):
    return [(a, b) for (_, a, b) in em]


def is_prefix(a, b):
    return a == b[:len(a)]


def expect(case):
    """-> (expected [(kind, payload)] of a full run, or a generator for endless ones; expected times or None)"""
    n = case["name"]
    if n == "range":
        a, stop, step = case["a"], case["stop"], case["step"]
        r = range(a) if (stop is None and step is None) else (range(a, stop) if step is None else
                                                              range(a, 2**63 - 1 if stop is None else stop, step))
        try:
            n_r = len(r)
        except OverflowError:       # range(-5, sys.maxsize, 1): longer than a C ssize_t
            n_r = 2**63
        if n_r > 10 * MAX_INPUTS:
            return ("endless", ((("N", x)) for x in r)), None
        return ("finite", [("N", x) for x in list(r)] + [("C", None)]), None
    if n in ("from_iterable", "of"):
        out = []
        for it in case["items"]:
            if it[0] == "raise":
                out.append(("E", it[1]))
                break
            out.append(("N", it[1]))
        else:
            out.append(("C", None))
        return ("finite", out), None
    if n == "return_value":
        return ("finite", [("N", case["v"]), ("C", None)]), None
    if n == "empty":
        return ("finite", [("C", None)]), None
    if n == "never":
        return ("finite", []), None
    if n == "throw":
        return ("finite", [("E", -100 if case.get("exc") == "text" else 11)]), None
    if n in ("generate", "generate_with_relative_time"):
        cond, it = py_table(tbl_unjson(case["cond"]), ("ok", False)), py_table(tbl_unjson(case["iter"]), ("ok", 0))
        tm = py_table(tbl_unjson(case["tm"]), ("ok", 0)) if "tm" in case else None
        out, times, t = [], [], 0
        s = case["init"]
        try:                                     # the equivalent while-loop
            while cond(s):
                if tm is not None:
                    t += tm(s)
                out.append(("N", s))
                times.append(t)
                if len(out) > 3 * MAX_INPUTS:
                    return ("endless", iter(out)), times
                s = it(s)
            out.append(("C", None))
            times.append(t)
        except UserError as e:
            out.append(("E", e.code))
            times.append(t)
        return ("finite", out), (times if tm is not None else None)
    if n == "timer":
        d, p = max(case["d"], 0), case["p"]
        if p is None:
            return ("finite", [("N", 0), ("C", None)]), [d, d]
        return ("endless", (("N", k) for k in itertools.count())), (d + k * p for k in itertools.count())
    if n == "repeat_value":
        v, k = case["v"], case["n"]
        if k is None or k == -1:
            return ("endless", (("N", v) for _ in itertools.count())), None
        return ("finite", [("N", v)] * k + [("C", None)]), None
    raise AssertionError(n)


def oracle(case, res, check_times=True):
    n = case["name"]
    if "factory_raised" in res:
        return None if isinstance(res["factory_raised"], ValueError) else "range(..., step=0) did not raise ValueError"
    if res["escapes"]:
        return f"exception escaped into the scheduler: {[repr(e) for _, e in res['escapes']]}"
    em = emitted(res)
    if n == "throw" and case.get("exc") == "text":
        for (_, kind, a, b) in res["log"]:
            if kind == "emit" and a == "E" and not (type(b) is Exception and b.args == (TEXT,)):
                return f"throw({TEXT!r}) delivered {b!r}, specified Exception({TEXT!r})"
    (kind, exp), times = expect(case)
    got = seq(em)
    if kind == "finite":
        if finished(res):
            if got != exp:
                return f"emitted {got}, specified {exp}"
        else:
            # disposed / cut: what was emitted so far is a prefix of the specification
            if case["budget"] is not None:
                exp = exp[:case["budget"]] if len([x for x in exp if x[0] == "N"]) >= case["budget"] else exp
            if not is_prefix(got, exp):
                return f"emitted {got}, not a prefix of the specified {exp}"
        tl = times
    else:
        exp = list(itertools.islice(exp, len(got) + 1))
        if got != exp[:len(got)]:
            return f"emitted {got}, specified (prefix) {exp}"
        if not res["disposed"] and not res["capped"]:
            return "an endless sequence stopped by itself"
        tl = list(itertools.islice(times, len(got))) if times is not None else None
    if tl is not None and check_times:
        at = [t for (t, _, _) in em]
        if at != list(tl)[:len(at)]:
            return f"emission instants {at} (ms), specified {list(tl)[:len(at)]}"
    return None


def differential(case, res, build):
    """the same observable on its default scheduler / on TestScheduler emits the same sequence"""
    n = case["name"]
    if not finished(res) or case["budget"] is not None:
        return None
    got = seq(emitted(res))
    if n in SYNC_DEFAULT:
        st, out = run_default(build, enc_of(case))
        if st == "timeout":
            return "default scheduler: did not return within 5 s"
        if out != got:
            return f"default scheduler emitted {out}, proxy-scheduled run {got}"
    if n in ("generate_with_relative_time", "timer") and case.get("d_as") != "datetime":
        st, out = run_testscheduler(build)
        if st == "timeout":
            return "TestScheduler: did not return within 10 s"
        if [(t, a, b) for (t, a, b) in out] != emitted(res):
            return f"TestScheduler recorded {out}, proxy-scheduled run {emitted(res)}"
    return None


# ---- the check ---------------------------------------------------------------------------

def run(chk):
    chk.build_and_prove()
    ncase = 60 if chk.tier == "quick" else 700
    if chk.broken:
        ncase = max(ncase, 700)
    cases, per, nontrivial = [], {}, set()
    hist = {"disposed_midway": 0, "reentrant_dispose": 0, "zero_delay": 0, "empty_range": 0, "negative_step": 0,
            "raising_callback_or_iterator": 0, "endless_cut": 0, "scheduler_via_factory": 0, "differential_runs": 0,
            "resubscribed_sequential": 0, "resubscribed_overlapping": 0, "nonbool_verdict": 0, "throw_text": 0,
            "just_alias": 0, "falsy_payload_emitted": 0}
    for name in NAMES:
        for _ in range(ncase if name not in ("empty", "never", "throw") else max(6, ncase // 10)):
            case = gen_case(chk.rng, name)
            res = run_case(case)
            chk.cov["evaluations"] += 1
            per[name] = per.get(name, 0) + 1
            v = oracle(case, res)
            if "factory_raised" in res:
                if v:
                    chk.violation(f"C37|{name}|{v[:60]}", {"case": case, "what": v}, size=1)
                continue
            build, _ = make(case)
            if not v:
                v = differential(case, res, build)
                hist["differential_runs"] += 1
            for mode in ("sequential", "overlapping"):
                v2 = oracle_shared(case, mode)
                chk.cov["evaluations"] += 1
                hist["resubscribed_" + mode] += 1
                if v2:
                    chk.violation(f"C37|{name}|resubscribe {mode}|{v2[v2.index(':') + 2:][:50]}",
                                  {"case": case, "resubscribe": mode, "what": v2}, size=len(res["inputs"]) + 1)
            hist["nonbool_verdict"] += case.get("verdict", "bool") != "bool"
            hist["throw_text"] += case.get("exc") == "text"
            hist["just_alias"] += case.get("alias") == "just"
            if case.get("pool"):
                hist["falsy_payload_emitted"] += any(a == "N" and not b for (_, k, a, b) in res["log"] if k == "emit")
            em = emitted(res)
            hist["disposed_midway"] += bool(res["disposed"] and case["budget"] is None)
            hist["reentrant_dispose"] += case["budget"] is not None
            hist["endless_cut"] += bool(res["capped"])
            hist["scheduler_via_factory"] += bool(case["via_factory"])
            hist["raising_callback_or_iterator"] += any(a == "E" for (_, a, _) in em) and name not in ("throw",)
            if name == "range":
                hist["empty_range"] += finished(res) and len(em) == 1
                hist["negative_step"] += (case["step"] or 1) < 0
            if name == "generate_with_relative_time":
                hist["zero_delay"] += any(k == "timer" and b == 0 and tag > 0 for (tag, k, a, b) in res["log"])
            gi = k2m.g_inputs(res["inputs"])
            gt = k2m.g_trace(res, lambda x: gz(res["enc"](x)))
            if v:
                chk.violation(f"C37|{name}|{v[:60]}", {"case": case, "machine": res["coq"], "inputs (now, event)": gi,
                                                       "observed trace": gt, "what": v}, size=len(res["inputs"]))
            elif len(em) >= 2:
                nontrivial.add(f"{res['coq']}|{gi}")
            cases.append((f"({res['coq']}, {gi})", gt))
    calls_hist = run_calls_family(chk)
    prelude = "Definition model (c : machine Z Z * list (Z * inp Z)) := run_canon (fst c) (snd c).\n"
    bad, logs = lib.correspondence("C37", "m", IMPORTS, "(machine Z Z * list (Z * inp Z)) * list (nat * obs Z)",
                                   "model", "(trace_eqb Z.eqb)", cases, prelude=prelude)
    chk.cov["traces_validated_against_impl"] += len(cases)
    chk.cov["disagreements_checked"] += len(cases)
    if bad:
        firsts = [cases[i] for i in bad if i >= 0][:3]
        d = {"n": len(bad), "first (machine+inputs, implementation trace)": firsts, "logs": logs[:1]}
        if firsts:
            d["model_says"] = lib.coq_show("C37", IMPORTS, f"model {firsts[0][0]}", prelude)
        chk.tie_broken("correspondence K2 (emissions, timers with delays, cancellations, iterator pulls): machine vs implementation", d)
    chk.cov["distinct_nontrivial"] = len(nontrivial)
    chk.cov["rule"] = ("per factory: seeded arguments (range: start in [-6,8], stop None or in [-6,8], step None or in "
                       "{+-1,+-2,+-3,5,-7,0}; iterables of 0-5 items with an optional raising position and an optional "
                       "reentrant dispose inside the k-th on_next; loop/condition/delay functions as finite tables on "
                       "[-1,6] with raising entries, delays in {0,10,20,35} ms as float/timedelta/int; timer d in "
                       "{-10,0,5,30} as float/timedelta/datetime, period None/0/10/30; repeat counts None,-1,0..5) x "
                       "scheduler passed to subscribe() or to the factory x dispose after 0-3 timer firings (25%); "
                       "endless sequences cut after 40 firings or 200 ms; non-trivial = distinct (machine, delivered "
                       "inputs) with >= 2 emissions and oracle + differential runs satisfied.  generate conditions "
                       "return bool / 1,0 / 'x','' / 'x',None / [0],[] verdicts (Gallina table stays boolean); "
                       "payloads of of/from_iterable/return_value(just)/repeat_value from the pool [None,0,False,'',(),"
                       "0.0,1,2,'a',7] (ids in Coq); throw(UserError) or throw('text').  Oracle only: every case "
                       "additionally with ONE observable object subscribed twice -- sequentially (second "
                       "subscription after the first ended / was disposed) and overlapping (both before any firing; "
                       "the first disposes as the case says) -- each subscription must satisfy the oracle by itself.  "
                       "Oracle only, family `calls` (own random stream): generate / generate_with_relative_time with "
                       "0-6 passing states (ints 0..k or payloads from [None,0,'',(),'a',(1,2),2.5,-3,'zz',7,"
                       "frozenset(),'0']), call-recording callbacks -- condition: dict / assert+dict over the visited "
                       "states, call counter, s<k, 'elements delivered so far < k'; iterate: dict / list over the "
                       "PASSING states only, queue pop, s+1; time_mapper: list / dict / assert+dict over the passing "
                       "states only, queue pop, 10*(12//(k-s)), constant; delays in {0,5,10,20,35,1000} ms as float/"
                       "timedelta/int -- optional fault (j-th call of one callback raises, 20%), dispose after 0..k+1 "
                       "firings (15%) / inside the j-th on_next (15%), second subscription of the same object (20%), "
                       "wrapped in rx.defer / rx.create (30%; factory / subscribe function called once per "
                       "subscription with its scheduler, first); the log of (callback, argument) calls interleaved "
                       "with the notifications must equal (disposed: be a prefix of) the log of the literal loop "
                       "`s=init; while cond(s): [wait tm(s)]; emit s; s=iter(s)` on a fresh copy of the callbacks, "
                       "errors by type and args, notification instants = accumulated delays; runs: proxy scheduler, "
                       "default trampoline (generate), TestScheduler (generate_with_relative_time)")
    chk.cov["input_distribution"] = {"per_factory": per, **hist, "calls_family": calls_hist}
    short = [c for c in cases if len(c[0]) + len(c[1]) < 700]
    chk.add_samples([{"case": c[0], "trace": c[1]} for c in short[:: max(1, len(short) // 6)]][:6])
    return chk.finish(
        trusted_extra=["proxy scheduler and boundary log of harness/k2m.py; the timer-firing driver, spy iterable and "
                       "finite callback tables of harness/props/C37.py; the recording callbacks, reference while-loop "
                       "and drivers of harness/c37_calls.py",
                       "CPython's range() as the oracle for range"],
        assumptions=["time is the proxy scheduler's virtual clock in integer milliseconds: timers fire exactly when due, "
                     "in due order (ties: scheduling order); real TimeoutScheduler threads are not exercised",
                     "negative delays / due times in the past are only generated for timer(d) without period"])


def run_calls_family(chk):
    """oracle-only: call-recording partial / side-effecting callbacks against the literal while-loop"""
    xr = random.Random(f"C37-calls-{chk.seed}")         # own stream: the table cases above stay what they were
    n = 400 if chk.tier == "quick" and not chk.broken else 6000
    hist = {"cases": 0, "full_run": 0, "disposed_midway": 0, "resubscribed": 0, "wrapped_defer": 0, "wrapped_create": 0,
            "fault_injected": 0, "ended_with_error": 0, "ended_with_lookup_error_in_loop": 0, "initially_false": 0,
            "stateful_callback": 0, "partial_time_mapper": 0, "partial_iterate": 0, "non_int_states": 0,
            "emitted": 0, "callback_calls": 0, "per_factory": {}}
    for name in c37_calls.NAMES:
        for _ in range(n):
            case = c37_calls.gen_case(xr, name)
            v, st = c37_calls.check_case(case)
            chk.cov["evaluations"] += 1
            hist["cases"] += 1
            hist["per_factory"][name] = hist["per_factory"].get(name, 0) + 1
            for k_, x in st.items():
                if k_ in hist:
                    hist[k_] += int(x)
            hist["disposed_midway"] += not st.get("full_run", True)
            hist["resubscribed"] += case["twice"]
            hist["wrapped_defer"] += case["wrap"] == "defer"
            hist["wrapped_create"] += case["wrap"] == "create"
            hist["fault_injected"] += case["fault"] is not None
            hist["initially_false"] += case["k"] == 0
            hist["stateful_callback"] += (case["cond"] in ("count", "emitted") or case["iter"] == "pop"
                                          or case.get("tm") == "pop")
            hist["partial_time_mapper"] += case.get("tm") in ("list", "dict", "div", "assert", "pop")
            hist["partial_iterate"] += case["iter"] in ("dict", "list", "pop")
            hist["non_int_states"] += not case["ints"]
            if v:
                chk.violation(c37_calls.signature(case, v), {"case": case, "what": v[1]}, size=c37_calls.size(case))
    return hist


def replay(chk, path):
    d = json.load(open(path))
    case = d["case"]
    if case.get("family") == "calls":
        v, _ = c37_calls.check_case(case)
        ref = c37_calls.Callbacks(case)
        c37_calls.reference(ref, case["name"] == "generate_with_relative_time", 2 if case["twice"] else 1, case.get("wrap"))
        print(json.dumps({"case": case, "while-loop (calls and notifications)": c37_calls.show(ref.log),
                          "oracle": v[1] if v else "holds"}, indent=1))
        if v:
            print(f"VIOLATION property=C37 replay={path}")
            return 1
        return 0
    res = run_case(case)
    if d.get("resubscribe"):
        v = oracle_shared(case, d["resubscribe"])
    else:
        v = oracle(case, res)
        if not v and "factory_raised" not in res:
            v = differential(case, res, make(case)[0])
    out = {"case": case, "machine": res.get("coq"), "oracle": v or "holds"}
    if "log" in res:
        out["observed trace"] = k2m.g_trace(res, lambda x: gz(res.get("enc", ident)(x)))
        out["inputs"] = k2m.g_inputs(res["inputs"])
    print(json.dumps(out, indent=1))
    if v:
        print(f"VIOLATION property=C37 replay={path}")
        return 1
    return 0
