"""C37 -- source factories emit their specified sequences.

Machines: Ops/Sources.v on the runner Ops/Multi.v.  Every factory is subscribed with
the proxy scheduler of harness/k2m.py (passed either to subscribe() or as the factory's
own scheduler argument), so that each piece of scheduled work shows up as a timer with
its delay; the harness fires the timers in due order on a virtual clock and may dispose
after any number of firings.  The recorded boundary log (emissions, timers with delays,
cancellations, iterator pulls) must equal the machine's trace (Coq, vm_compute).

Oracles (never consult the model): Python's own `list(range(...))`, the iterable's items,
the literal while-loop for generate, accumulated delays for generate_with_relative_time,
d + k*p for timer, [v]*n for repeat_value.  Differential runs: the same observable on its
default scheduler (trampoline / immediate; under lib.with_timeout) and, for the timed
factories, on reactivex.testing.TestScheduler."""
import datetime as dt
import itertools
import json

import k2
import k2m
import lib
from k2 import UserError, err_id
from lib import gz, gopt

IMPORTS = "Base.Prelude Base.CaseLib Ops.Machine Ops.Multi Ops.MultiCase Ops.Sources"
NAMES = ["range", "from_iterable", "of", "return_value", "empty", "never", "throw", "generate",
         "generate_with_relative_time", "timer", "repeat_value"]
MAX_INPUTS = 40
D = list(range(-1, 7))          # state domain of generated loop functions


# ---- driver -------------------------------------------------------------------------

def run_source(build, dispose_after=None, horizon=None, budget=None, via_factory=False):
    """subscribe build(env, sched_or_None) with the proxy scheduler and fire its timers in due order.
    dispose_after=k: the subscriber disposes after k timer firings.  budget=k: the subscriber disposes
    from inside its k-th on_next."""
    env = k2m.Env()
    sched = k2m.make_scheduler(env)
    obs = build(env, sched if via_factory else None)
    sub_box = []
    seen = [0]

    def on_next(v):
        env.log.append((env.tag, "emit", "N", v))
        seen[0] += 1
        if budget is not None and seen[0] == budget:
            sub_box[0].dispose()

    if budget is not None:
        # the subscription handle must exist before the first element arrives: fine, nothing is
        # delivered before the first timer fires
        pass
    escapes = []
    try:
        sub = obs.subscribe(on_next, lambda e: env.log.append((env.tag, "emit", "E", e)),
                            lambda: env.log.append((env.tag, "emit", "C", None)),
                            scheduler=None if via_factory else sched)
    except Exception as e:
        escapes.append((0, e))
        sub = None
    sub_box.append(sub)
    inputs, disposed, capped = [], False, False
    while True:
        if dispose_after is not None and not disposed and len(inputs) >= dispose_after:
            disposed = True
            env.tag = len(inputs) + 1
            inputs.append((env.now, ("dispose",)))
            if sub is not None:
                sub.dispose()
            continue
        if not env.timers:
            break
        tag = min(env.timers, key=lambda t: (env.timers[t][0], t))
        due = env.timers[tag][0]
        if horizon is not None and due > horizon:
            capped = True
            break
        if len(inputs) >= MAX_INPUTS:
            capped = True
            break
        env.now = max(env.now, due)
        env.tag = len(inputs) + 1
        inputs.append((env.now, ("tick", tag)))
        try:
            sched.fire(tag)
        except Exception as e:
            escapes.append((env.tag, e))
    return {"env": env, "inputs": inputs, "log": env.log, "escapes": escapes, "capped": capped,
            "disposed": disposed or (budget is not None and seen[0] >= budget)}


def emitted(res):
    """[(time_ms, kind, payload)] with payload = value / error id / None"""
    out = []
    for (tag, kind, a, b) in res["log"]:
        if kind == "emit":
            t = res["inputs"][tag - 1][0] if tag > 0 else 0
            out.append((t, a, b if a == "N" else (err_id(b) if a == "E" else None)))
    return out


def run_default(build):
    """the same observable on its default scheduler (only for the factories whose default is the
    trampoline / immediate scheduler); -> ('ok', [(kind, payload)]) | ('timeout', None)"""
    def go():
        out = []
        build(None, None).subscribe(lambda v: out.append(("N", v)), lambda e: out.append(("E", err_id(e))),
                                    lambda: out.append(("C", None)))
        return out
    return lib.with_timeout(5, go)


def run_testscheduler(build):
    from reactivex.testing import TestScheduler
    ts = TestScheduler()

    def go():
        r = ts.start(lambda: build(None, None), created=100.0, subscribed=200.0, disposed=1000.0)
        out = []
        for m in r.messages:
            k = m.value.kind
            out.append((int(round((m.time - 200.0) * 1000)),
                        "N" if k == "N" else ("E" if k == "E" else "C"),
                        m.value.value if k == "N" else (err_id(m.value.exception) if k == "E" else None)))
        return out
    return lib.with_timeout(10, go)


# ---- tables (finite callbacks mirrored in Gallina) -----------------------------------

def g_res(r, enc):
    return f"Raise {gz(r[1])}" if r[0] == "raise" else f"Ok {enc(r[1])}"


def g_table(t, default, enc):
    es = "; ".join(f"({gz(k)}, {g_res(t[k], enc)})" for k in sorted(t))
    return f"(tbl [{es}] ({g_res(default, enc)}))"


def py_table(t, default):
    def f(x):
        r = t.get(x, default)
        if r[0] == "raise":
            raise UserError(r[1])
        return r[1]
    return f


def tbl_json(t):
    return {str(k): list(v) for k, v in t.items()}


def tbl_unjson(j):
    return {int(k): tuple(v) for k, v in j.items()}


class SpyIterable:
    def __init__(self, env, items):
        self.env, self.items = env, items

    def __iter__(self):
        env, items = self.env, self.items
        pos = [0]

        class It:
            def __iter__(self):
                return self

            def __next__(self):
                i = pos[0]
                pos[0] += 1
                if env is not None:
                    env.effect(400 + i)
                if i >= len(items):
                    raise StopIteration
                if items[i][0] == "raise":
                    raise UserError(items[i][1])
                return items[i][1]
        return It()


# ---- cases (JSON) ---------------------------------------------------------------------

def gen_case(rng, name):
    c = {"name": name, "via_factory": False, "dispose_after": None, "budget": None, "horizon": None}
    if name == "range":
        a = rng.randint(-6, 8)
        stop = rng.choice([None, None] + list(range(-6, 9)))
        step = rng.choice([None, None, 1, 2, 3, -1, -2, -3, 5, -7])
        if rng.random() < 0.05:
            step = 0
        c.update(a=a, stop=stop, step=step, via_factory=rng.random() < 0.5)
    elif name in ("from_iterable", "of"):
        n = rng.choice([0, 1, 2, 3, 5])
        items = [["ok", rng.randrange(10)] for _ in range(n)]
        if name == "from_iterable" and rng.random() < 0.3:
            items.insert(rng.randrange(n + 1), ["raise", 51])
        c.update(items=items, alias=rng.choice(["from_iterable", "from_", "from_list"]),
                 via_factory=name == "from_iterable" and rng.random() < 0.5)
        if rng.random() < 0.3 and n:
            c["budget"] = rng.randint(1, n)
    elif name == "return_value":
        c.update(v=rng.randrange(10), via_factory=rng.random() < 0.5)
    elif name in ("empty", "throw"):
        c.update(via_factory=rng.random() < 0.5)
    elif name in ("generate", "generate_with_relative_time"):
        cond = {}
        limit = rng.choice([0, 1, 2, 3, 4, 6])
        for x in D:
            cond[x] = ("ok", x < limit)
        it = {x: ("ok", x + 1 if x + 1 in D else D[0]) for x in D}
        if rng.random() < 0.25:
            it = {x: ("ok", rng.choice(D)) for x in D}
        if rng.random() < 0.2:
            cond[rng.choice(D)] = ("raise", 52)
        if rng.random() < 0.2:
            it[rng.choice(D)] = ("raise", 53)
        c.update(init=rng.choice([-1, 0, 0, 1, 2]), cond=tbl_json(cond), iter=tbl_json(it))
        if name == "generate_with_relative_time":
            tm = {x: ("ok", rng.choice([0, 0, 10, 20, 35])) for x in D}
            if rng.random() < 0.2:
                tm = {x: ("ok", 0) for x in D}
            if rng.random() < 0.15:
                tm[rng.choice(D)] = ("raise", 54)
            c.update(tm=tbl_json(tm), unit=rng.choice(["float", "timedelta", "int"]))
    elif name == "timer":
        d = rng.choice([-10, 0, 0, 5, 30, 30])
        p = rng.choice([None, None, 0, 10, 30, 30])
        if p is not None:
            d = abs(d)
        c.update(d=d, p=p, d_as=rng.choice(["float", "timedelta", "datetime"]),
                 p_as=rng.choice(["float", "timedelta"]), via_factory=rng.random() < 0.5, horizon=200)
    elif name == "repeat_value":
        c.update(v=rng.randrange(10), n=rng.choice([None, -1, 0, 1, 2, 3, 5]))
    if rng.random() < 0.25:
        c["dispose_after"] = rng.choice([0, 1, 2, 3])
    return c


def secs(ms, how):
    if how == "timedelta":
        return dt.timedelta(milliseconds=ms)
    if how == "datetime":
        return k2m.EPOCH + dt.timedelta(milliseconds=ms)
    if how == "int" and ms % 1000 == 0:
        return ms // 1000
    return ms / 1000.0


def make(case):
    """-> (build(env, sched) -> observable, coq machine text | None when the factory itself raises)"""
    import reactivex as rx
    n = case["name"]
    if n == "range":
        a, stop, step = case["a"], case["stop"], case["step"]

        def build(env, sched):
            if step is not None:
                return rx.range(a, stop, step, scheduler=sched)
            if stop is not None:
                return rx.range(a, stop, scheduler=sched)
            return rx.range(a, scheduler=sched)
        return build, f"x_range_py {gz(a)} {gopt(stop)} {gopt(step)}"
    if n in ("from_iterable", "of"):
        items = [tuple(i) for i in case["items"]]
        g_items = "[" + "; ".join(g_res(i, gz) for i in items) + "]"
        gb = "None" if case["budget"] is None else f"(Some {case['budget']}%nat)"
        if n == "of":
            return (lambda env, sched: rx.of(*[i[1] for i in items])), f"x_from_iterable false {g_items} {gb}"
        fn = getattr(rx, case["alias"])
        return (lambda env, sched: fn(SpyIterable(env, items), scheduler=sched)), f"x_from_iterable true {g_items} {gb}"
    if n == "return_value":
        return (lambda env, sched: rx.return_value(case["v"], scheduler=sched)), f"x_return_value {case['v']}"
    if n == "empty":
        return (lambda env, sched: rx.empty(scheduler=sched)), "x_empty"
    if n == "never":
        return (lambda env, sched: rx.never()), "x_never"
    if n == "throw":
        # the factory's scheduler argument is shadowed inside throw_ (see Ops/Sources.v)
        return ((lambda env, sched: rx.throw(UserError(11), scheduler=sched)),
                "x_throw_immediate 11" if case["via_factory"] else "x_throw 11")
    if n in ("generate", "generate_with_relative_time"):
        cond, it = tbl_unjson(case["cond"]), tbl_unjson(case["iter"])
        pc, pi = py_table(cond, ("ok", False)), py_table(it, ("ok", 0))
        gc, gi = g_table(cond, ("ok", False), lib.gbool), g_table(it, ("ok", 0), gz)
        if n == "generate":
            return (lambda env, sched: rx.generate(case["init"], pc, pi)), f"x_generate {gz(case['init'])} {gc} {gi}"
        tm = tbl_unjson(case["tm"])
        pt = py_table(tm, ("ok", 0))
        return ((lambda env, sched: rx.generate_with_relative_time(case["init"], pc, pi,
                                                                   lambda s: secs(pt(s), case["unit"]))),
                f"x_gwrt {gz(case['init'])} {gc} {gi} {g_table(tm, ('ok', 0), gz)}")
    if n == "timer":
        d, p = case["d"], case["p"]
        dv = secs(d, case["d_as"])
        if p is None:
            return (lambda env, sched: rx.timer(dv, scheduler=sched)), f"x_timer {gz(d)}"
        pv = secs(p, case["p_as"])
        same = (not isinstance(dv, dt.datetime)) and dv == pv
        coq = f"x_timer_periodic {gz(p)}" if same else f"x_timer_period {gz(d)} {gz(p)}"
        return (lambda env, sched: rx.timer(dv, pv, scheduler=sched)), coq
    if n == "repeat_value":
        return (lambda env, sched: rx.repeat_value(case["v"], case["n"])), f"x_repeat_value {case['v']} {gopt(case['n'])}"
    raise AssertionError(n)


SYNC_DEFAULT = {"range", "from_iterable", "of", "return_value", "empty", "throw", "generate", "repeat_value"}


def run_case(case):
    build, coq = make(case)
    if case["name"] == "range" and case["step"] == 0:
        try:
            build(None, None)
            return {"factory_raised": None, "coq": coq}
        except ValueError as e:
            return {"factory_raised": e, "coq": coq}
    res = run_source(build, dispose_after=case["dispose_after"], horizon=case["horizon"], budget=case["budget"],
                     via_factory=case["via_factory"])
    res["coq"] = coq
    return res


# ---- oracles ------------------------------------------------------------------------------

def finished(res):
    """the run was neither cut by the harness nor disposed: the whole sequence is in the log"""
    return not res["capped"] and not res["disposed"]


def seq(em):
    return [(a, b) for (_, a, b) in em]


def is_prefix(a, b):
    return a == b[:len(a)]


def expect(case):
    """-> (expected [(kind, payload)] of a full run, or a generator for endless ones; expected times or None)"""
    n = case["name"]
    if n == "range":
        a, stop, step = case["a"], case["stop"], case["step"]
        r = range(a) if (stop is None and step is None) else (range(a, stop) if step is None else
                                                              range(a, 2**63 - 1 if stop is None else stop, step))
        try:
            n_r = len(r)
        except OverflowError:       # range(-5, sys.maxsize, 1): longer than a C ssize_t
            n_r = 2**63
        if n_r > 10 * MAX_INPUTS:
            return ("endless", ((("N", x)) for x in r)), None
        return ("finite", [("N", x) for x in list(r)] + [("C", None)]), None
    if n in ("from_iterable", "of"):
        out = []
        for it in case["items"]:
            if it[0] == "raise":
                out.append(("E", it[1]))
                break
            out.append(("N", it[1]))
        else:
            out.append(("C", None))
        return ("finite", out), None
    if n == "return_value":
        return ("finite", [("N", case["v"]), ("C", None)]), None
    if n == "empty":
        return ("finite", [("C", None)]), None
    if n == "never":
        return ("finite", []), None
    if n == "throw":
        return ("finite", [("E", 11)]), None
    if n in ("generate", "generate_with_relative_time"):
        cond, it = py_table(tbl_unjson(case["cond"]), ("ok", False)), py_table(tbl_unjson(case["iter"]), ("ok", 0))
        tm = py_table(tbl_unjson(case["tm"]), ("ok", 0)) if "tm" in case else None
        out, times, t = [], [], 0
        s = case["init"]
        try:                                     # the equivalent while-loop
            while cond(s):
                if tm is not None:
                    t += tm(s)
                out.append(("N", s))
                times.append(t)
                if len(out) > 3 * MAX_INPUTS:
                    return ("endless", iter(out)), times
                s = it(s)
            out.append(("C", None))
            times.append(t)
        except UserError as e:
            out.append(("E", e.code))
            times.append(t)
        return ("finite", out), (times if tm is not None else None)
    if n == "timer":
        d, p = max(case["d"], 0), case["p"]
        if p is None:
            return ("finite", [("N", 0), ("C", None)]), [d, d]
        return ("endless", (("N", k) for k in itertools.count())), (d + k * p for k in itertools.count())
    if n == "repeat_value":
        v, k = case["v"], case["n"]
        if k is None or k == -1:
            return ("endless", (("N", v) for _ in itertools.count())), None
        return ("finite", [("N", v)] * k + [("C", None)]), None
    raise AssertionError(n)


def oracle(case, res):
    n = case["name"]
    if "factory_raised" in res:
        return None if isinstance(res["factory_raised"], ValueError) else "range(..., step=0) did not raise ValueError"
    if res["escapes"]:
        return f"exception escaped into the scheduler: {[repr(e) for _, e in res['escapes']]}"
    em = emitted(res)
    (kind, exp), times = expect(case)
    got = seq(em)
    if kind == "finite":
        if finished(res):
            if got != exp:
                return f"emitted {got}, specified {exp}"
        else:
            # disposed / cut: what was emitted so far is a prefix of the specification
            if case["budget"] is not None:
                exp = exp[:case["budget"]] if len([x for x in exp if x[0] == "N"]) >= case["budget"] else exp
            if not is_prefix(got, exp):
                return f"emitted {got}, not a prefix of the specified {exp}"
        tl = times
    else:
        exp = list(itertools.islice(exp, len(got) + 1))
        if got != exp[:len(got)]:
            return f"emitted {got}, specified (prefix) {exp}"
        if not res["disposed"] and not res["capped"]:
            return "an endless sequence stopped by itself"
        tl = list(itertools.islice(times, len(got))) if times is not None else None
    if tl is not None:
        at = [t for (t, _, _) in em]
        if at != list(tl)[:len(at)]:
            return f"emission instants {at} (ms), specified {list(tl)[:len(at)]}"
    return None


def differential(case, res, build):
    """the same observable on its default scheduler / on TestScheduler emits the same sequence"""
    n = case["name"]
    if not finished(res) or case["budget"] is not None:
        return None
    got = seq(emitted(res))
    if n in SYNC_DEFAULT:
        st, out = run_default(build)
        if st == "timeout":
            return "default scheduler: did not return within 5 s"
        if out != got:
            return f"default scheduler emitted {out}, proxy-scheduled run {got}"
    if n in ("generate_with_relative_time", "timer") and case.get("d_as") != "datetime":
        st, out = run_testscheduler(build)
        if st == "timeout":
            return "TestScheduler: did not return within 10 s"
        if [(t, a, b) for (t, a, b) in out] != emitted(res):
            return f"TestScheduler recorded {out}, proxy-scheduled run {emitted(res)}"
    return None


# ---- the check ---------------------------------------------------------------------------

def run(chk):
    chk.build_and_prove()
    ncase = 60 if chk.tier == "quick" else 700
    if chk.broken:
        ncase = max(ncase, 700)
    cases, per, nontrivial = [], {}, set()
    hist = {"disposed_midway": 0, "reentrant_dispose": 0, "zero_delay": 0, "empty_range": 0, "negative_step": 0,
            "raising_callback_or_iterator": 0, "endless_cut": 0, "scheduler_via_factory": 0, "differential_runs": 0}
    for name in NAMES:
        for _ in range(ncase if name not in ("empty", "never", "throw") else max(6, ncase // 10)):
            case = gen_case(chk.rng, name)
            res = run_case(case)
            chk.cov["evaluations"] += 1
            per[name] = per.get(name, 0) + 1
            v = oracle(case, res)
            if "factory_raised" in res:
                if v:
                    chk.violation(f"C37|{name}|{v[:60]}", {"case": case, "what": v}, size=1)
                continue
            build, _ = make(case)
            if not v:
                v = differential(case, res, build)
                hist["differential_runs"] += 1
            em = emitted(res)
            hist["disposed_midway"] += bool(res["disposed"] and case["budget"] is None)
            hist["reentrant_dispose"] += case["budget"] is not None
            hist["endless_cut"] += bool(res["capped"])
            hist["scheduler_via_factory"] += bool(case["via_factory"])
            hist["raising_callback_or_iterator"] += any(a == "E" for (_, a, _) in em) and name not in ("throw",)
            if name == "range":
                hist["empty_range"] += finished(res) and len(em) == 1
                hist["negative_step"] += (case["step"] or 1) < 0
            if name == "generate_with_relative_time":
                hist["zero_delay"] += any(k == "timer" and b == 0 and tag > 0 for (tag, k, a, b) in res["log"])
            gi = k2m.g_inputs(res["inputs"])
            gt = k2m.g_trace(res, gz)
            if v:
                chk.violation(f"C37|{name}|{v[:60]}", {"case": case, "machine": res["coq"], "inputs (now, event)": gi,
                                                       "observed trace": gt, "what": v}, size=len(res["inputs"]))
            elif len(em) >= 2:
                nontrivial.add(f"{res['coq']}|{gi}")
            cases.append((f"({res['coq']}, {gi})", gt))
    prelude = "Definition model (c : machine Z Z * list (Z * inp Z)) := run_canon (fst c) (snd c).\n"
    bad, logs = lib.correspondence("C37", "m", IMPORTS, "(machine Z Z * list (Z * inp Z)) * list (nat * obs Z)",
                                   "model", "(trace_eqb Z.eqb)", cases, prelude=prelude)
    chk.cov["traces_validated_against_impl"] += len(cases)
    chk.cov["disagreements_checked"] += len(cases)
    if bad:
        firsts = [cases[i] for i in bad if i >= 0][:3]
        d = {"n": len(bad), "first (machine+inputs, implementation trace)": firsts, "logs": logs[:1]}
        if firsts:
            d["model_says"] = lib.coq_show("C37", IMPORTS, f"model {firsts[0][0]}", prelude)
        chk.tie_broken("correspondence K2 (emissions, timers with delays, cancellations, iterator pulls): machine vs implementation", d)
    chk.cov["distinct_nontrivial"] = len(nontrivial)
    chk.cov["rule"] = ("per factory: seeded arguments (range: start in [-6,8], stop None or in [-6,8], step None or in "
                       "{+-1,+-2,+-3,5,-7,0}; iterables of 0-5 items with an optional raising position and an optional "
                       "reentrant dispose inside the k-th on_next; loop/condition/delay functions as finite tables on "
                       "[-1,6] with raising entries, delays in {0,10,20,35} ms as float/timedelta/int; timer d in "
                       "{-10,0,5,30} as float/timedelta/datetime, period None/0/10/30; repeat counts None,-1,0..5) x "
                       "scheduler passed to subscribe() or to the factory x dispose after 0-3 timer firings (25%); "
                       "endless sequences cut after 40 firings or 200 ms; non-trivial = distinct (machine, delivered "
                       "inputs) with >= 2 emissions and oracle + differential runs satisfied")
    chk.cov["input_distribution"] = {"per_factory": per, **hist}
    short = [c for c in cases if len(c[0]) + len(c[1]) < 700]
    chk.add_samples([{"case": c[0], "trace": c[1]} for c in short[:: max(1, len(short) // 6)]][:6])
    return chk.finish(
        trusted_extra=["proxy scheduler and boundary log of harness/k2m.py; the timer-firing driver, spy iterable and "
                       "finite callback tables of harness/props/C37.py",
                       "CPython's range() as the oracle for range"],
        assumptions=["time is the proxy scheduler's virtual clock in integer milliseconds: timers fire exactly when due, "
                     "in due order (ties: scheduling order); real TimeoutScheduler threads are not exercised",
                     "negative delays / due times in the past are only generated for timer(d) without period"])


def replay(chk, path):
    d = json.load(open(path))
    case = d["case"]
    res = run_case(case)
    v = oracle(case, res)
    if not v and "factory_raised" not in res:
        v = differential(case, res, make(case)[0])
    out = {"case": case, "machine": res.get("coq"), "oracle": v or "holds"}
    if "log" in res:
        out["observed trace"] = k2m.g_trace(res, gz)
        out["inputs"] = k2m.g_inputs(res["inputs"])
    print(json.dumps(out, indent=1))
    if v:
        print(f"VIOLATION property=C37 replay={path}")
        return 1
    return 0
