"""C33 -- cancelling an asyncio-scheduled action is effective from any thread.

Theorems (Props/C33.v) over all schedules on the transition system Core/AsyncIO.v.
Tie: a REAL asyncio loop under the thread controller.  Choice (see k3_time.CLoop): the loop thread of
the check calls the public loop.run_forever() of a minimal subclass of asyncio.BaseEventLoop that
supplies only what BaseEventLoop leaves to its subclasses (selector.select -> controlled wait,
_process_events, _write_to_self) and time() -> controlled clock.  call_soon, call_later, call_at,
call_soon_threadsafe, the ready deque, the timer heap, _run_once, Handle, TimerHandle are the
unmodified CPython code.  Yield points (coarse = the model's steps): select, the `if handle._cancelled`
test and `handle._run()` in _run_once, `return timer` of call_at (inside stage2), the second
`handle.pop().cancel()`, every call of the driver, future.result().  Fine: every line of the two
scheduler files, of _run_once / call_at / call_later / call_soon[_threadsafe] and of Handle.cancel /
Handle._run.  Foreign threads call schedule / schedule_relative / dispose, the loop thread may do so
before run_forever() and from inside actions.  Coarse runs are compared with the model under the same
schedule (logs and final thread status, in Coq); all runs are judged by the oracle: an action does not
start after dispose() of its disposable returned; it starts on the loop thread, not before its due time.

Stop / run again: the scenario language has ["stop"] (loop.stop(), from an action, from the loop thread
between two runs, from a foreign thread), ["sleep", t] (the calling thread waits for the controlled clock: a
busy callback, or "run again later") and `again` (what the loop thread calls after each return of
run_forever() before it calls run_forever() again).  run_forever() returns between two iterations of
_run_once with whatever is queued still queued -- e.g. a marshalled cancel_handle and the callback it is to
cancel; a dispose() that found the loop running must stay in future.result() until the loop is run again
and cancel_handle has run ON the loop.  The oracle is the same on these histories.

schedule_absolute of both classes (["abs", t, a]; the model's AAbs: schedule_relative(t - now)), negative relative
delays, and foreign threads that dispose from inside a running event loop of their own (case key own_loop: the last
line of _on_self_loop_or_not_running) are part of the scenario language; "not earlier than due" is the theorem
C33_not_early (Core/AsyncIOTime.v) on the model and the `early` oracle on the real loop."""
from __future__ import annotations

import hashlib
import json
import sys
import time

import aiodrv as A
import eldrv as E
import k3
import k3_time as kt
import lib

_REPLAY_CACHE = {}
if "--replay" in sys.argv[:-1]:
    _p = sys.argv[sys.argv.index("--replay") + 1]
    try:
        _REPLAY_CACHE[_p] = open(_p).read()
    except OSError:
        pass

FIXED = [
    # the two-stage window: foreign dispose while stage2 is between call_later and handle.append
    {"ts": True, "t0": 0, "pre": [], "progs": [[["rel", 1000, 1], ["dispose", 1]]], "bodies": {}, "ticks": [1000]},
    # immediate, foreign dispose racing the dispatch
    {"ts": True, "t0": 0, "pre": [], "progs": [[["now", 1], ["dispose", 1]]], "bodies": {}, "ticks": []},
    # dispose from inside an action (loop thread) and from a foreign thread, same call
    {"ts": True, "t0": 0, "pre": [["now", 1], ["rel", 500, 2]], "progs": [[["dispose", 2]]],
     "bodies": {"1": [["dispose", 2]]}, "ticks": [500]},
    # plain scheduler, used by the loop thread only: before run_forever and inside an action
    {"ts": False, "t0": 0, "pre": [["now", 1], ["rel", 500, 2], ["dispose", 1]], "progs": [],
     "bodies": {"2": [["now", 3], ["dispose", 3]]}, "ticks": [500]},
    # dispose while the loop is not running (it starts only after dispose returned)
    {"ts": True, "t0": 0, "pre": [["rel", 500, 1]], "progs": [[["dispose", 1]], [["now", 2]]], "bodies": {},
     "ticks": [500]},
    # two foreign threads, two calls each
    {"ts": True, "t0": 0, "pre": [], "progs": [[["rel", 500, 1], ["dispose", 1]], [["rel", 1007, 2], ["dispose", 2]]],
     "bodies": {}, "ticks": [500, 500]},
    # ---- the loop is stopped while callbacks are queued, and later run again ----
    # a busy callback (action 1) keeps the loop running while a foreign thread schedules action 2 and disposes it
    # (marshalled); the callback then stops the loop: _ready = [interval 2, cancel_handle]; the loop is run again
    # 199 ms later.  dispose() must still be waiting then.
    {"ts": True, "t0": 0, "pre": [["now", 1]], "again": [[["sleep", 200000]]],
     "progs": [[["now", 2], ["dispose", 2]]], "bodies": {"1": [["sleep", 1000], ["stop"]]}, "ticks": []},
    # the same without sleeps: the interleaving and the passage of time are left to the schedule
    {"ts": True, "t0": 0, "pre": [["now", 1]], "again": [[]],
     "progs": [[["now", 2], ["dispose", 2]]], "bodies": {"1": [["stop"]]}, "ticks": [50000]},
    # a relative schedule: stage2 runs in the stopping iteration, its timer expires while the loop is stopped, the
    # cancel_handle queued before overtakes it on the next run
    {"ts": True, "t0": 0, "pre": [["now", 1], ["rel", 500, 2]], "again": [[["sleep", 60000]]],
     "progs": [[["dispose", 2]]], "bodies": {"1": [["sleep", 500], ["stop"]]}, "ticks": []},
    # stop() before run_forever() (exactly one iteration), loop-thread dispose between two runs and a foreign dispose
    # while the loop is stopped (both direct); two further runs
    {"ts": True, "t0": 0, "pre": [["now", 1], ["rel", 500, 2], ["rel", 1000, 3], ["stop"]],
     "again": [[["dispose", 2], ["stop"]], [["now", 4]]], "progs": [[["dispose", 3]]], "bodies": {}, "ticks": [500, 500]},
    # stopped for good with a marshalled cancel_handle queued: that dispose() never returns (quirk, not a violation)
    {"ts": True, "t0": 0, "pre": [["now", 1]], "again": [],
     "progs": [[["now", 2], ["dispose", 2]]], "bodies": {"1": [["sleep", 1000], ["stop"]]}, "ticks": []},
    # plain scheduler, loop thread only: stopped by an action, a timed action disposed between the runs
    {"ts": False, "t0": 0, "pre": [["now", 1], ["rel", 500, 2], ["rel", 1000, 3]], "again": [[["dispose", 2]]],
     "progs": [], "bodies": {"1": [["stop"]]}, "ticks": [500, 500]},
    # a foreign thread stops the loop (loop.stop() is a plain store) and disposes while it may or may not still run
    {"ts": True, "t0": 0, "pre": [["rel", 500, 1]], "again": [[["sleep", 60000]]],
     "progs": [[["now", 2], ["stop"], ["dispose", 1], ["dispose", 2]]], "bodies": {}, "ticks": [500]},
    # ---- schedule_absolute (both classes: schedule_relative(duetime - now)), negative relative delays ----
    # thread-safe: an absolute time ahead (two-stage), one in the past and a negative relative delay (both schedule());
    # a foreign dispose of the two-stage one
    {"ts": True, "t0": 200, "pre": [["abs", 1707, 1], ["abs", 100, 2], ["rel", -700, 3]], "progs": [[["dispose", 1]]],
     "bodies": {}, "ticks": [500, 1000, 7]},
    # the same window as the first case, entered through schedule_absolute from the foreign thread
    {"ts": True, "t0": 5000, "pre": [], "progs": [[["abs", 6000, 1], ["dispose", 1]]], "bodies": {}, "ticks": [1000]},
    # plain scheduler: absolute ahead / in the past / exactly now, negative relative; scheduled before run_forever()
    # and from inside an action at a later clock; dispose between
    {"ts": False, "t0": 200, "pre": [["abs", 1707, 1], ["abs", 100, 2], ["rel", -700, 3], ["abs", 200, 4], ["abs", 1214, 5],
                                     ["dispose", 5]],
     "progs": [], "bodies": {"2": [["abs", 721, 6]], "1": [["abs", 1707, 7], ["abs", 2228, 8], ["dispose", 8]]},
     "ticks": [500, 500, 507, 500, 21]},
    # the clock moves between two absolute schedules of a foreign thread; an absolute time that is ahead for the
    # first call may be in the past at the second
    {"ts": True, "t0": 0, "pre": [["abs", 507, 1]], "progs": [[["abs", 1014, 2], ["abs", 521, 3], ["dispose", 2]]],
     "bodies": {"1": [["abs", 1028, 4], ["dispose", 3]]}, "ticks": [500, 7, 500, 7, 14]},
    # ---- a foreign thread that runs an event loop OF ITS OWN: `return self._loop == current_loop` ----
    # the two-stage window again; the disposing thread has a running loop, so get_running_loop() succeeds
    {"ts": True, "t0": 0, "pre": [], "progs": [[["rel", 1000, 1], ["dispose", 1]]], "bodies": {}, "ticks": [1000],
     "own_loop": True},
    # immediate + absolute, two foreign threads with their own loop, one dispose while the loop is not yet running
    {"ts": True, "t0": 0, "pre": [["rel", 507, 1]],
     "progs": [[["dispose", 1], ["now", 2], ["dispose", 2]], [["abs", 1021, 3], ["dispose", 3]]],
     "bodies": {}, "ticks": [500, 7, 500, 14], "own_loop": True},
]


def gen_case(rng):
    labels = iter(range(1, 30))
    ts = rng.random() < 0.8
    t0 = rng.choice([0, 5000])
    sched = []

    def sched_op():
        a = next(labels)
        sched.append(a)
        x = rng.random()
        if x < 0.35:
            return ["now", a]
        # asyncio leaves the order of timers with the same expiry undefined (heapq): keep expiries distinct
        # (clock values at the calls are t0 + multiples of 500, so every expiry is = 7a modulo 500)
        if x < 0.6:
            # schedule_absolute: ahead of, at, or behind the clock of the call (which depends on the schedule)
            return ["abs", t0 + rng.choice([-500, 0, 500, 1000, 1500, 2000]) + 7 * a, a]
        d = rng.choice([0, 500, 1000, 1500, -500, -1])
        return ["rel", d + (7 * a if d > 0 else 0), a]

    def prog(n):
        p, mine = [], []
        for _ in range(n):
            if rng.random() < 0.6 or not mine:
                op = sched_op()
                mine.append(op[-1])
            else:
                op = ["dispose", rng.choice(mine if rng.random() < 0.8 or not sched else sched)]
            p.append(op)
        return p
    pre = prog(rng.randint(0, 2))
    progs = [prog(rng.randint(1, 3)) for _ in range(rng.choice([1, 1, 2]))] if ts else []
    bodies = {}
    for a in list(sched):
        if rng.random() < 0.3:
            bodies[str(a)] = [["dispose", rng.choice(sched)]] if rng.random() < 0.6 else [sched_op()]
    ticks = [rng.choice([500, 500, 1000]) for _ in range(rng.choice([0, 1, 2, 3]))]
    again = []
    if rng.random() < 0.45 and sched:
        # the loop is stopped and run again: by an action (optionally a busy one), by the loop thread before
        # run_forever(), or by a foreign thread; sleeps are absolute times on the controlled clock (multiples of 500
        # so that timer expiries stay distinct); 60 ms / 120 ms let a sliced wait of 50 ms expire
        how = rng.random()
        if how < 0.6:
            a = rng.choice(sched)
            busy = [["sleep", t0 + rng.choice([500, 1000])]] if rng.random() < 0.6 else []
            bodies[str(a)] = busy + [["stop"]]
        elif how < 0.8 or not progs:
            pre = pre + [["stop"]]
        else:
            p = rng.choice(progs)
            p.insert(rng.randrange(len(p) + 1), ["stop"])
        for k in range(rng.choice([1, 1, 2])):
            seg = []
            if rng.random() < 0.6:
                seg.append(["sleep", t0 + rng.choice([2000, 60000, 120000]) * (k + 1)])
            if rng.random() < 0.4:
                seg.append(sched_op() if rng.random() < 0.5 else ["dispose", rng.choice(sched)])
            if k == 0 and rng.random() < 0.3:
                seg.append(["stop"])
            again.append(seg)
        if rng.random() < 0.3:
            ticks.append(50000)
    case = {"ts": ts, "t0": t0, "pre": pre, "again": again, "progs": progs, "bodies": bodies, "ticks": ticks}
    if progs and rng.random() < 0.25:
        # the foreign threads dispose from inside a running event loop of their own
        case["own_loop"] = True
    return case


def all_ops(case):
    for l in [case.get("pre", [])] + case.get("again", []) + case["progs"] + list(case.get("bodies", {}).values()):
        yield from l


def has_op(case, pred):
    return any(pred(o) for o in all_ops(case))


def size(case, sched):
    return (len(case.get("pre", [])) + sum(len(p) for p in case["progs"]) +
            sum(len(p) + 1 for p in case.get("again", []))) * 100 + len(sched)


def run(chk):
    t_b0 = time.time()
    chk.build_and_prove()
    t_build = time.time() - t_b0
    quick = chk.tier == "quick"
    t_budget = (40 if quick else 420) * (3 if chk.broken and quick else 1)
    t_start = time.time()
    diffs = A.structure_check()
    if diffs:
        chk.tie_broken("asyncio / scheduler sources differ from what the model assumes", diffs)
    fixed = A.fixed_in_source()
    if not fixed:
        chk.tie_broken("_on_self_loop_or_not_running is not in its repaired form (`return False` for a thread "
                       "without a running loop): the theorem C33_cancel_effective needs fixed = true",
                       {"except_branch_returns": A.decision_shape()})
    ok_st, st_facts = kt.self_test(2)
    if not ok_st:
        chk.tie_broken("k3_time self-test failed", st_facts)
    bound = 2 if quick else 3
    cases = list(FIXED) + [gen_case(chk.rng) for _ in range(40 if quick else 300)]
    coq_cases, coq_meta = [], []
    hist = {"coarse": 0, "fine": 0, "random": 0}
    distinct, nontrivial = set(), set()
    samples = []
    evals = 0
    quirks = {}
    restarted = set()
    started = {"now": 0, "rel": 0, "rel_negative": 0, "abs_ahead": 0, "abs_not_ahead": 0}
    own_marshalled = [0]
    lim_fixed, lim = (60, 14) if quick else (3000, 300)

    def judge(case, r, fine, sched):
        nonlocal evals
        evals += 1
        h = hashlib.sha1(json.dumps([case, r.log], default=str).encode()).hexdigest()
        distinct.add(h)
        if any(e[2] in ("dispret",) for e in r.log) and k3.preemptions(r.trace) > 0:
            nontrivial.add(h)
        i_ret = [i for i, e in enumerate(r.log) if e[2] == "runret"]
        if i_ret and any(e[2] in ("start", "dispret") for e in r.log[i_ret[0]:]):
            restarted.add(h)
        ops = {o[-1]: o for o in all_ops(case) if o[0] in ("now", "rel", "abs")}
        t_call = {e[3]: e[1] for e in r.log if e[2] == "call"}
        for e in r.log:
            if e[2] == "start" and e[3] in ops:
                o = ops[e[3]]
                if o[0] == "abs":
                    started["abs_ahead" if o[1] > t_call.get(e[3], 0) else "abs_not_ahead"] += 1
                else:
                    started["rel_negative" if (o[0] == "rel" and o[1] < 0) else o[0]] += 1
        own_marshalled[0] += getattr(r, "last_line", 0)
        for sig, msg in A.oracle(case, r):
            if sig.startswith("NOTE"):
                quirks[sig] = quirks.get(sig, 0) + 1
                continue
            chk.violation(sig, {"case": case, "schedule": sched, "fine": fine, "what": msg,
                                "implementation_log": [list(map(str, e)) for e in r.log]}, size=size(case, sched))

    with E.rebound():
        for ci, case in enumerate(cases):
            if time.time() - t_start > t_budget:
                chk.notes.append(f"time budget reached after {ci} of {len(cases)} cases")
                break
            L = lim_fixed if ci < len(FIXED) else lim
            box = {}

            def once(chooser, fine):
                r = A.run_case(case, chooser, fine=fine)
                box["r"] = r
                return r.trace, None
            n = 0
            for sched, _ in k3.explore(lambda ch: once(ch, False), bound, limit=L):
                n += 1
                r = box["r"]
                hist["coarse"] += 1
                judge(case, r, False, sched)
                if not r.error:
                    coq_cases.append(A.g_case(case, r, fixed))
                    coq_meta.append((case, sched))
                if n == 2 and len(samples) < 4:
                    samples.append({"case": case, "schedule": sched, "log": [list(map(str, e)) for e in r.log][:30]})
            for _ in range(3 if quick else 30):
                r = A.run_case(case, k3.random_chooser(chk.rng), fine=False)
                hist["random"] += 1
                judge(case, r, False, r.schedule)
                if not r.error:
                    coq_cases.append(A.g_case(case, r, fixed))
                    coq_meta.append((case, r.schedule))
            for sched, _ in k3.explore(lambda ch: once(ch, True), 1 if quick else 2, limit=max(8, L // 2)):
                hist["fine"] += 1
                judge(case, box["r"], True, sched)
            for _ in range(3 if quick else 30):
                r = A.run_case(case, k3.random_chooser(chk.rng), fine=True)
                hist["fine"] += 1
                judge(case, r, True, r.schedule)
    t_explore = time.time() - t_start
    bad, logs = lib.correspondence("C33", "aio", A.IMPORTS, A.CASE_TY, A.MODEL_FN, "aoutcome_eqb", coq_cases, shard=150)
    for b in bad[:5]:
        if b < 0:
            chk.tie_broken("correspondence shard failed to evaluate", logs[:1])
        else:
            case, sched = coq_meta[b]
            shown = lib.coq_show("C33", A.IMPORTS, f"{A.MODEL_FN} ({coq_cases[b][0]})")
            chk.tie_broken("correspondence asyncio schedulers vs Core/AsyncIO.v",
                           {"case": case, "schedule": sched, "implementation": coq_cases[b][1], "model": shown[-3000:]})
    chk.cov["phase_seconds"] = {"build_and_prove": round(t_build, 1), "explore": round(t_explore, 1),
                                "coq_correspondence": round(time.time() - t_start - t_explore, 1)}
    chk.cov["evaluations"] = evals
    chk.cov["distinct_nontrivial"] = len(nontrivial)
    chk.cov["rule"] = ("a case = scheduler kind (thread-safe / plain), calls of the loop thread before run_forever(), "
                       "0-2 foreign threads with 1-3 calls (schedule / schedule_relative with positive, zero and negative "
                       "delays / schedule_absolute ahead of, at and behind the clock / dispose of a returned "
                       "disposable; in a quarter of the cases with foreign threads these dispose from inside a running "
                       "event loop of their own), optional one-call action bodies (dispose or schedule from inside an action), "
                       "optionally loop.stop() (from an action -- possibly a busy one that first waits for the clock --, "
                       "from the loop thread before run_forever(), from a foreign thread) with 1-2 further segments of "
                       "calls of the loop thread each followed by run_forever() again (optionally after waiting for the "
                       "clock), a clock thread; each case runs on a real asyncio loop under all schedules with <= %d preemptions "
                       "(capped), seeded random schedules and fine-grained schedules; distinct = distinct (case, "
                       "implementation log); non-trivial = some dispose() took effect and at least one preemption" % bound)
    chk.cov["input_distribution"] = dict(hist, cases=len(cases), distinct_logs=len(distinct),
                                         plain=sum(1 for c in cases if not c["ts"]),
                                         with_bodies=sum(1 for c in cases if c["bodies"]),
                                         with_pre=sum(1 for c in cases if c["pre"]),
                                         with_stop_and_run_again=sum(1 for c in cases if c.get("again")),
                                         with_schedule_absolute=sum(1 for c in cases if has_op(c, lambda o: o[0] == "abs")),
                                         with_negative_relative=sum(
                                             1 for c in cases if has_op(c, lambda o: o[0] == "rel" and o[1] < 0)),
                                         foreign_threads_with_own_running_loop=sum(
                                             1 for c in cases if c.get("own_loop")),
                                         starts_by_kind=dict(started),
                                         decisions_reaching_the_last_line_of_on_self_loop_or_not_running=own_marshalled[0],
                                         distinct_logs_with_events_after_a_restart=len(restarted))
    chk.cov["quirks_not_violations"] = quirks
    chk.cov["traces_validated_against_impl"] = len(coq_cases)
    chk.cov["disagreements_checked"] = len([b for b in bad if b >= 0])
    chk.cov["source_is_repaired"] = fixed
    chk.cov["k3_time_self_test"] = "ok" if ok_st else "FAILED"
    chk.add_samples(samples)
    return chk.finish(
        trusted_extra=[
            "harness/k3.py + harness/k3_time.py (CLoop: asyncio.BaseEventLoop with a controlled selector and clock; "
            "controlled Future); self-test on every run",
            "asyncio internals as modelled: FIFO _ready, timer heap (asyncio leaves the order of timers with the same "
            "expiry undefined; the model is stable, the generated cases keep expiries distinct), Handle.cancel() = "
            "flag + cleared callback, tests at pop and at run",
            "harness/aiodrv.py: driver, line finder for the asyncio sources (fail-closed), Gallina printer, oracle"],
        assumptions=[
            "the loop does not start (again) while a dispose() that found it not running is in progress (stated in the "
            "property; enforced by the driver: the gate is closed from the moment a foreign thread enters "
            "_on_self_loop_or_not_running until that returns False or, if it returned True, until dispose() returns)",
            "loop.stop() only takes effect between two iterations of _run_once (CPython's run_forever); a dispose() whose "
            "cancel_handle is still queued when the loop is stopped for good never returns (liveness is not part of "
            "the property; counted under quirks_not_violations)",
            "preemption only at the yield points of the chosen granularity; inside one source line (e.g. between "
            "loading handle._callback and entering it in Handle._run) CPython may still switch threads -- with the "
            "repaired code no foreign thread cancels a handle directly while the loop runs, so that window is not "
            "reachable through dispose()",
            "a disposable is disposed by one caller at a time: a second, concurrent dispose() returns at once "
            "(Disposable is idempotent) while the first may still be waiting; the oracle judges the dispose() that "
            "performed the cancellation"])


def replay(chk, path):
    data = json.loads(_REPLAY_CACHE.get(path) or open(path).read())
    case, sched, fine = data["case"], data["schedule"], data.get("fine", False)
    with E.rebound():
        r = A.run_case(case, k3.follow(sched, lenient=True), fine=fine)
    bad = A.oracle(case, r)
    print(json.dumps({"case": case, "schedule_followed": r.schedule, "log": [list(map(str, e)) for e in r.log],
                      "oracle": bad}, indent=1))
    for sig, msg in bad:
        if sig.startswith("NOTE"):
            continue
        chk.violation(sig, {"case": case, "schedule": r.schedule, "fine": fine, "what": msg,
                            "implementation_log": [list(map(str, e)) for e in r.log]}, size=size(case, r.schedule))
    chk.cov["evaluations"] = 1
    chk.cov["rule"] = "replay of one recorded (case, schedule)"
    chk.add_samples([{"case": case, "schedule": sched}])
    return chk.finish()
