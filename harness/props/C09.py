"""C09 -- exceptions raised by user callbacks are delivered as on_error.

K2 of every CALLBACK operator of the C05/C06 tables with callbacks that raise
often, on hot sources; against the machines (an exception escaping into the
emitter is rendered as a pseudo-notification no machine produces).  Direct
oracle on the implementation: nothing escapes into the emitter; when a callback
raised while input k was delivered, the subscriber's last notification is
on_error(that exception) at k, nothing follows, and the source subscription is
disposed at k (grammar + release still hold).

Callback operators that no table covers (join, group_join, expand, starmap,
pluck, partition_indexed, do_action, zip_with_iterable, aggregate key mappers /
comparers, cold factories under flat_map ...) are run by the ORACLE-ONLY family
of harness/c09_rest.py (exception injected at the k-th invocation of one chosen
callback; oracle straight from the property text).  The grouping / windowing
operators are run once more by the ORACLE-ONLY family of harness/c09_selfclose.py
with durations derived from the group / window itself (they fire while the
operator is failing its groups), every callback raising at every position.
harness/c09_held.py (ORACLE-ONLY) runs all callback operators subscribed WITH a
scheduler that does not run actions at once (hand-stepped / TestScheduler with
several notifications per tick): the on_error must come in the raising step.
harness/c09_palette.py (ORACLE-ONLY) re-runs the c09_rest catalogue and the callback
operators of the C05/C06 tables with the injected exception drawn from a palette of
classes the library itself catches somewhere (StopIteration, KeyError, ...)."""
import json
import random

import k2
import lib
from k2 import Pool, POOL, HASHABLE_POOL
from props import C05, C06

IMPORTS = "Base.Prelude Base.CaseLib Ops.Machine Ops.Elementwise Ops.Aggregates"
CALLBACK_OPS = {"map", "map_indexed", "filter", "filter_indexed", "take_while", "take_while_indexed",
                "skip_while", "skip_while_indexed", "distinct", "distinct_until_changed", "find",
                "reduce", "scan", "count", "first", "last", "single", "some", "all", "to_dict", "min_max_by",
                # comparers / key mappers drawn from the C06 families (instances without a callback never raise)
                "contains", "sequence_equal", "min", "max", "sum", "average"}


class raising_tables:
    """callbacks of the C05/C06 tables raise more often while this is active"""

    def __enter__(self):
        self.old = (k2.rand_pred, k2.rand_map)
        old_pred, old_map = self.old
        k2.rand_pred = lambda rng, pool, p_raise=0.4: old_pred(rng, pool, p_raise)
        k2.rand_map = lambda rng, pool, p_raise=0.33: old_map(rng, pool, p_raise)

    def __exit__(self, *a):
        k2.rand_pred, k2.rand_map = self.old


COLD_KINDS = ("from_iterable", "cold_test_observable")


def cold_case(table, name, kind, case_seed):
    """one callback operator over a cold source on a fresh VirtualTimeScheduler -> (problems, info)"""
    import sys
    import reactivex as rx
    from reactivex.scheduler import VirtualTimeScheduler
    from reactivex.notification import OnNext, OnError, OnCompleted
    from reactivex.testing.coldobservable import ColdObservable
    from reactivex.testing.recorded import Recorded
    rng = random.Random(case_seed)
    mod = {"C05": C05, "C06": C06}[table]
    with raising_tables():
        pool, T = mod.ops_table()
        inst = T[name](rng)
    ipool = inst.get("pool", pool)
    n = rng.choice([0, 1, 2, 2, 3, 3, 4, 5, 6])
    xs = [rng.choice(ipool.values) for _ in range(n)]
    term = "C" if (kind == "from_iterable" or rng.random() < 0.7) else "E"
    sched = VirtualTimeScheduler()
    cold = None
    if kind == "from_iterable":
        src = rx.from_iterable(xs, scheduler=sched)
    else:
        msgs = [Recorded(10.0 * (i + 1), OnNext(x)) for i, x in enumerate(xs)]
        msgs.append(Recorded(10.0 * (n + 1), OnCompleted() if term == "C" else OnError(k2.UserError(11))))
        cold = src = ColdObservable(sched, msgs)
    out, escapes, calls_at_error = [], [], []
    k2.CURRENT_TAG[0] = 0
    del k2.RAISED[:]
    del k2.CALLS[:]

    def on_error(e):
        out.append(("E", e))
        calls_at_error.append(len(k2.CALLS))
    try:
        src.pipe(inst["py"]).subscribe(lambda v: out.append(("N", v)), on_error, lambda: out.append(("C", None)),
                                       scheduler=sched)
    except Exception as e:
        escapes.append(("subscribe()", e))
    try:
        sched.start()
    except Exception as e:
        escapes.append(("scheduler.start()", e))
    raised = [r for r in k2.RAISED if r[1] >= 20]
    kinds = "".join(k for k, _ in out)
    probs = []
    for where, e in escapes:
        probs.append(("escaped", f"{e!r} came out of {where}"))
    if any(c in "EC" for c in kinds[:-1]):
        probs.append(("grammar", f"subscriber received {kinds}"))
    if raised:
        code = raised[0][1]
        last = out[-1] if out else None
        if not (last and last[0] == "E" and k2.err_id(last[1]) == code):
            probs.append(("not-delivered", f"a callback raised user-error-{code}; the subscriber's last notification is "
                                           f"{(last[0], repr(last[1])) if last else None}"))
        if len(raised) > 1:
            probs.append(("raised-again", f"user callbacks raised {len(raised)} times: {raised}"))
        if calls_at_error and calls_at_error[0] != len(k2.CALLS):
            probs.append(("callback-after-failure", f"{len(k2.CALLS) - calls_at_error[0]} callback invocation(s) after "
                                                    f"the error was delivered"))
        if cold is not None and cold.subscriptions and cold.subscriptions[0].unsubscribe == sys.maxsize:
            probs.append(("not-released", "the cold source's subscription was never disposed"))
    info = {"raised": bool(raised), "n": n, "coq": inst["coq"], "xs": [repr(x) for x in xs], "term": term,
            "out": [(k, repr(v)) for k, v in out]}
    return probs, info


def cold_scheduled(chk):
    ncase = 10 if chk.tier == "quick" else 150
    nontrivial = set()
    cov = {"cases": 0, "callback_raised": 0, "per_source_kind": {k: 0 for k in COLD_KINDS}}
    for table, mod in (("C05", C05), ("C06", C06)):
        pool, T = mod.ops_table()
        for name in T:
            if name not in CALLBACK_OPS:
                continue
            for kind in COLD_KINDS:
                for ci in range(ncase):
                    seed = chk.rng.getrandbits(48)
                    probs, info = cold_case(table, name, kind, seed)
                    chk.cov["evaluations"] += 1
                    cov["cases"] += 1
                    cov["per_source_kind"][kind] += 1
                    cov["callback_raised"] += info["raised"]
                    if probs:
                        chk.violation(f"cold|{name}|{kind}|{probs[0][0]}",
                                      {"cold_case": {"table": table, "operator": name, "source": kind,
                                                     "case_seed": seed},
                                       "instance": info["coq"], "source elements": info["xs"],
                                       "source terminal": info["term"], "subscriber": info["out"],
                                       "what": [t for _, t in probs]}, size=info["n"])
                    elif info["raised"] and info["n"] >= 2:
                        nontrivial.add((table, name, kind, seed))
    return nontrivial, cov


def run(chk):
    chk.build_and_prove()
    ncase = 60 if chk.tier == "quick" else 600
    nontrivial = set()
    per_op, raised_hist = {}, {"raised": 0, "not_raised": 0}
    gal = {}
    # callbacks raise more often here
    old_pred, old_map = k2.rand_pred, k2.rand_map
    k2.rand_pred = lambda rng, pool, p_raise=0.4: old_pred(rng, pool, p_raise)
    k2.rand_map = lambda rng, pool, p_raise=0.33: old_map(rng, pool, p_raise)
    try:
        for mod in (C05, C06):
            pool, T = mod.ops_table()
            for name in T:
                if name not in CALLBACK_OPS:
                    continue
                for ci in range(ncase):
                    inst = T[name](chk.rng)
                    ipool = inst.get("pool", pool)
                    if inst.get("pool") is not None:
                        ins = C06.num_inputs(chk.rng, ipool)
                    else:
                        ins = k2.gen_inputs(chk.rng, ipool, maxlen=7)
                    res = k2.run_hot(lambda s: s.pipe(inst["py"]), ins)
                    chk.cov["evaluations"] += 1
                    per_op[name] = per_op.get(name, 0) + 1
                    gi = k2.g_inputs(ins, ipool)
                    sig = f"{name}|{gi}|{inst['coq'][:60]}"
                    # ---- oracle
                    bad = None
                    if res["escapes"]:
                        bad = "an exception propagated into the emitter"
                    elif res["raised"]:
                        tag, code = res["raised"][0]
                        raised_hist["raised"] += 1
                        last = res["out"][-1] if res["out"] else None
                        if not (last and last[1] == "E" and k2.err_id(last[2]) == code and last[0] == tag):
                            bad = f"callback raised {code} at input {tag} but the subscriber's last notification is {last}"
                        elif len(res["raised"]) > 1:
                            bad = f"a user callback ran again after the failure: {res['raised']}"
                        elif ("unsub", 0, tag) not in res["sublog"]:
                            bad = f"source subscription not disposed at the failure instant: {res['sublog']}"
                        else:
                            nontrivial.add(sig)
                    else:
                        raised_hist["not_raised"] += 1
                    if bad:
                        chk.violation(f"callback-error|{name}|{bad[:40]}",
                                      {"operator": name, "instance": inst["coq"], "inputs": gi,
                                       "output": [(t, k, repr(p)) for t, k, p in res["out"]],
                                       "escaped": [(t, repr(e)) for t, e in res["escapes"]],
                                       "callbacks_raised (tag, code)": res["raised"], "sublog": res["sublog"],
                                       "what": bad}, size=len(ins))
                    if inst.get("find_enc"):
                        nx, t0 = 0, None
                        for e in ins:
                            if e[0] == "N":
                                nx += 1
                            else:
                                t0 = e[0]
                                break
                        inst["enc"].none_is_absent = (t0 == "C" and bool(res["out"]) and res["out"][0][0] == nx + 1)
                    key = (inst["ty"], inst["eqb"], "Z")
                    gal.setdefault(key, []).append((f"({inst['coq']}, {gi})", k2.g_out(res, inst["enc"])))
    finally:
        k2.rand_pred, k2.rand_map = old_pred, old_map
    for (ty, eqb, _), cases in gal.items():
        prelude = f"Definition model (c : mealy Z {ty} * list (ev Z)) := exec (fst c) (snd c).\n"
        bad, logs = lib.correspondence("C09", "r_" + str(abs(hash((ty, eqb))) % 10**6), IMPORTS,
                                       f"(mealy Z {ty} * list (ev Z)) * list (nat * ev {ty})",
                                       "model", f"(tagged_eqb {eqb})", cases, prelude=prelude)
        chk.cov["traces_validated_against_impl"] += len(cases)
        chk.cov["disagreements_checked"] += len(cases)
        if bad:
            firsts = [cases[i] for i in bad if i >= 0][:3]
            d = {"n": len(bad), "first": firsts, "logs": logs[:1]}
            if firsts:
                d["model_says"] = lib.coq_show("C09", IMPORTS, f"model {firsts[0][0]}", prelude)
            chk.tie_broken(f"correspondence K2 with raising callbacks ({ty})", d)
    # ---- callback operators of the multi-source tables (mapper of flat_map/switch_map/concat_map, condition of
    # while_do/do_while, handler of catch): same oracle on the boundary log
    import comb_table
    import comb_oracle

    def oracle_multi(name, inst, res):
        v = comb_oracle.common(res, comb_oracle.timeline(res))
        if v:
            return v
        raised = [r for r in res.get("raised", []) if r[1] >= 20]
        if raised:
            tag, code = raised[0]
            ems = [(t, a, b) for (t, kind, a, b) in res["log"] if kind == "emit"]
            last = ems[-1] if ems else None
            if not (last and last[1] == "E" and k2.err_id(last[2]) == code and last[0] == tag):
                return f"callback raised {code} at input {tag} but the subscriber's last notification is {last}"
            if len(raised) > 1:
                return f"a user callback ran again after the failure: {raised}"
        return None
    before = chk.cov["distinct_nontrivial"] if isinstance(chk.cov.get("distinct_nontrivial"), int) else 0
    comb_table.run_ops(chk, "C09", ["flat_map", "flat_map_indexed", "merge_all", "concat_map", "merge_mc", "switch_map",
                                    "switch_map_indexed", "flat_map_latest", "switch_latest", "while_do", "do_while",
                                    "catch_handler"], oracle_multi,
                       ncase=(25 if chk.tier == "quick" else 300))
    multi_nt = chk.cov["distinct_nontrivial"]
    multi_dist = chk.cov.get("input_distribution")
    chk.cov["distinct_nontrivial"] = len(nontrivial) + multi_nt
    chk.cov["multi_source_callback_operators"] = multi_dist
    chk.cov["rule"] = ("every callback operator of the C05/C06 tables x seeded instances whose callbacks raise on "
                       "33-40% of the values x seeded hot inputs (20% non-conforming); non-trivial = distinct "
                       "(instance, input) in which a callback actually raised and the oracle held")
    chk.cov["input_distribution"] = {"per_operator": per_op, "runs": raised_hist}
    chk.cov["rule"] += ("; plus the callback operators of the multi-source tables (flat_map, flat_map_indexed, "
                        "map+merge_all, concat_map, merge(max_concurrent), switch_map, switch_map_indexed, "
                        "flat_map_latest, map+switch_latest, while_do, do_while, catch(handler)) with the same oracle")
    chk.add_samples([{"case": c[0], "output": c[1]} for cs in gal.values() for c in cs[:1]][:5])
    # ---- ORACLE-ONLY: the same callback operators over COLD sources driven by a virtual-time scheduler
    cold_nt, cold_cov = cold_scheduled(chk)
    chk.cov["distinct_nontrivial"] += len(cold_nt)
    chk.cov["cold_sources_on_virtual_time_scheduler"] = cold_cov
    chk.cov["rule"] += ("; plus (oracle only) every callback operator of the C05/C06 tables over two kinds of COLD source "
                        "on a VirtualTimeScheduler -- rx.from_iterable(xs, scheduler) (its loop catches) and the "
                        "library's cold test observable (one scheduled action per notification, nothing caught) -- "
                        "with scheduler.start() wrapped: nothing may come out of subscribe() or start(); if a callback "
                        "raised, the subscriber's last notification is that on_error, no callback raises or runs "
                        "afterwards, the grammar holds and the cold test observable's subscription is disposed")
    # ---- ORACLE-ONLY family: callback operators that no table covers (join, group_join, expand, starmap, pluck,
    # partition_indexed, do_action/tap/do, zip_with_iterable, key mappers / comparers of the aggregates, cold
    # factories under flat_map), hand-driven hot sources, exception injected at the k-th invocation of one callback
    import c09_rest
    rest_nt = c09_rest.run_family(chk)
    chk.cov["distinct_nontrivial"] += len(rest_nt)
    chk.cov["rule"] += ("; plus the oracle-only family of harness/c09_rest.py over the callback operators outside "
                        "every table (see uncovered_callback_operators: its own rule and counts)")
    # ---- ORACLE-ONLY family: grouping / windowing operators (group_by_until, group_by, window_toggle, window_when,
    # buffer_when, group_join, join) whose inner durations are derived from the group / window itself and fire
    # synchronously when it terminates, i.e. INSIDE the operator's error fan-out; every callback, every position
    import c09_selfclose
    sc_nt = c09_selfclose.run_family(chk)
    chk.cov["distinct_nontrivial"] += len(sc_nt)
    chk.cov["rule"] += ("; plus the oracle-only family of harness/c09_selfclose.py: group_by_until / group_by / "
                        "window_toggle / window_when / buffer_when / group_join / join with SELF-CLOSING durations "
                        "(materialize+filter, ignore_elements, last, count of the group or window itself, mixed with hot "
                        "durations and never()), group subscribers reacting to the group's terminal by disposing, "
                        "several groups / windows open, each user callback raising at each of its invocations (see "
                        "self_closing_durations: its own rule and counts)")
    # ---- ORACLE-ONLY family: every callback operator (catalogue of c09_rest + timed mappers + observable-returning
    # mappers + grouping / windowing + plain element-wise ones) subscribed WITH a non-immediate scheduler (a
    # hand-stepped one that only queues; TestScheduler with several notifications on one tick), further source
    # notifications arriving before that scheduler runs again: the on_error must be delivered in the raising step
    import c09_held
    held_nt = c09_held.run_family(chk)
    chk.cov["distinct_nontrivial"] += len(held_nt)
    chk.cov["rule"] += ("; plus the oracle-only family of harness/c09_held.py: every callback operator of the c09_rest "
                        "catalogue, timeout_with_mapper / delay_with_mapper / throttle_with_mapper, "
                        "generate_with_relative_time under flat_map, flat_map(_indexed) / switch_map(_indexed) / "
                        "concat_map / flat_map_latest / catch(handler), group_by(_until) / window_when / buffer_when / "
                        "window_toggle / buffer_toggle with hot and timer durations, and 16 plain element-wise / "
                        "aggregate operators, subscribed with subscribe(..., scheduler=s) where s does NOT run actions "
                        "at once (a hand-stepped scheduler that only queues, stepped by the script; the library's "
                        "TestScheduler with several source notifications due on the same tick), further notifications "
                        "pushed before s runs again; the exception must be delivered as on_error in the very step in "
                        "which the callback raised (see non_immediate_subscribe_scheduler: its own rule and counts)")
    # ---- ORACLE-ONLY family: the injected exception drawn from a PALETTE of classes the library itself uses for
    # control flow or catches specifically (StopIteration, KeyError, IndexError, ..., its own exception classes,
    # a user subclass of each), for every callback of the c09_rest catalogue and of the C05/C06 tables
    import c09_palette
    pal_nt = c09_palette.run_family(chk)
    chk.cov["distinct_nontrivial"] += len(pal_nt)
    chk.cov["rule"] += ("; plus the oracle-only family of harness/c09_palette.py: every (operator, callback) of the "
                        "c09_rest catalogue and every callback operator of the C05/C06 tables with the injected "
                        "exception drawn from EVERY entry of a palette of exception classes that the library uses for "
                        "its own control flow or catches specifically (StopIteration, StopAsyncIteration, IndexError, "
                        "KeyError, ValueError, TypeError, AttributeError, AssertionError, its own exception classes, "
                        "TimeoutError, the asyncio / concurrent.futures exceptions deriving from Exception, "
                        "RuntimeError('generator raised StopIteration'), and a user subclass of each): the subscriber "
                        "must get on_error with that very object (see exception_palette: its own rule and counts)")
    return chk.finish(
        trusted_extra=["raise bookkeeping in harness/k2.py (UserError records the input position at which it was raised)"],
        assumptions=["timed mappers are exercised with raising callbacks against their models in C15-C17 and here "
                     "(oracle only, harness/c09_held.py: non-immediate subscribe-time scheduler); timer, interval, sample, "
                     "debounce, throttle_first, buffer/window_with_time(_or_count) and the other purely time-"
                     "parameterised operators take no user callback (nothing to inject); window/buffer closing selectors "
                     "and group_by(_until) selectors are exercised against their models in C18/C19 and here (oracle "
                     "only, self-closing durations: harness/c09_selfclose.py); the first call of the closing mapper of "
                     "window_when / buffer_when happens inside subscribe(), before any notification is processed, and "
                     "is not judged; finally_action / do_finally actions run at dispose time, after the terminal was "
                     "delivered (C40); every other callback operator is run here (machines + tables, or the "
                     "oracle-only family of harness/c09_rest.py)"])


def replay(chk, path):
    import json
    d = json.load(open(path))
    if "rest_case" in d:
        import c09_rest
        return c09_rest.replay_case(chk, d, path)
    if "selfclose_case" in d:
        import c09_selfclose
        return c09_selfclose.replay_case(chk, d, path)
    if "held_case" in d:
        import c09_held
        return c09_held.replay_case(chk, d, path)
    if "palette_table_case" in d:
        import c09_palette
        return c09_palette.replay_case(chk, d, path)
    if "cold_case" in d:
        c = d["cold_case"]
        probs, info = cold_case(c["table"], c["operator"], c["source"], c["case_seed"])
        print(json.dumps({"cold_case": c, **info, "oracle": [f"{s}: {t}" for s, t in probs] or "holds"},
                         indent=1, default=repr))
        if probs:
            print(f"VIOLATION property=C09 replay={path}")
            return 1
        return 0
    print(open(path).read())
    return 1
