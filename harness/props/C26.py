"""C26 -- container disposables dispose each held item exactly once.

Theorems (Props/C26.v): per-item conservation law for CompositeDisposable,
SerialDisposable, SingleAssignmentDisposable (plus rejection of a second
assignment) and a complete characterisation for MultipleAssignmentDisposable,
over all one-thread histories and over ALL schedules of any number of threads;
the pre-fix SingleAssignmentDisposable is refuted by four witnesses.
Tie: K1 + K3.  Oracle: per-item dispose() counts against what was handed over
and what the container still holds (public getters), "never while held" probed
at the moment of each dispose() call, rejection of second assignments."""
import dispcheck
import dispdrv as D
import k3

KINDS = ("composite", "serial", "single", "multiple")


def regressions(chk):
    """the witnesses that refuted the old SingleAssignmentDisposable, on the current code"""
    out = {}
    # 1. dispose(); assign a falsy disposable  -> must be disposed at once
    o = D.run_seq("single", None, [("dispose",), ("set", 0)], falsy=(0,))
    out["falsy value after dispose"] = o
    if o != [[], [("disp", 0)]]:
        chk.violation("single|seq|late-item-not-disposed|regression",
                      {"mode": "sequential", "kind": "single", "init": None, "history": [["dispose"], ["set", 0]],
                       "implementation": o, "what": "falsy item assigned after dispose() is not disposed"}, size=2)
    # 2. assign a falsy disposable, assign again -> rejected
    o = D.run_seq("single", None, [("set", 0), ("set", 1), ("get",)], falsy=(0,))
    out["second assignment after a falsy first"] = o
    if o != [[], [("raise",)], [("item", 0)]]:
        chk.violation("single|seq|second-assignment-accepted|regression",
                      {"mode": "sequential", "kind": "single", "init": None,
                       "history": [["set", 0], ["set", 1], ["get"]], "implementation": o,
                       "what": "second assignment accepted when the first value is falsy"}, size=3)
    # 3./4. the two racing schedules (now 3 and 2 steps long: the decisions are inside the lock)
    with D.Rebound():
        for name, progs in (("assign || dispose", [[("set", 1)], [("dispose",)]]),
                            ("assign || assign", [[("set", 1)], [("set", 2)]])):
            seen = {}
            for fine in (False, True):
                for sched, ns, log, w in D.explore_conc("single", None, [], progs, 3, fine=fine):
                    seen.setdefault(json_key(log), sched)
                    cnt = sum(1 for e in log if e[1:] == ("disp", 1))
                    rej = sum(1 for e in log if e[1] == "rej")
                    if cnt > 1 or (name == "assign || assign" and rej != 1):
                        chk.violation(f"single|conc|regression|{name}",
                                      {"mode": "concurrent", "granularity": "fine" if fine else "coarse",
                                       "kind": "single", "setup": [], "programs": progs, "schedule": sched,
                                       "implementation_log": log, "what": "pre-fix race is back"}, size=len(sched))
            out[name] = {"distinct outcomes": len(seen)}
    return out


def json_key(log):
    return tuple(tuple(e) for e in log)


def run(chk):
    return dispcheck.run_check(
        chk, KINDS,
        "CompositeDisposable, SerialDisposable, SingleAssignmentDisposable, MultipleAssignmentDisposable holding spy "
        "items",
        extra_assumptions=["MultipleAssignmentDisposable does not promise to dispose a replaced item; the oracle "
                           "exempts exactly the items that were current when a later assignment replaced them"],
        regressions=regressions)


def replay(chk, path):
    return dispcheck.replay(chk, path)
