"""C08 -- falsy values are ordinary elements.

Theorems (Props/C08.v): naturality of the value-agnostic machines under every
relabelling of the elements.  Tie: K2 of every operator of the C05/C06 tables on
inputs drawn ONLY from the falsy values (None, 0, False, '', (), 0.0, [], {}),
against the machines.  Oracle (independent of the model, metamorphic): the same
operator instance run on the input with every falsy value replaced by a truthy
token with the same equality structure must produce the corresponding output at
the same instants."""
import random

import k2
import lib
from k2 import Pool, POOL, HASHABLE_POOL
from props import C05, C06

IMPORTS = "Base.Prelude Base.CaseLib Ops.Machine Ops.Elementwise Ops.Aggregates"
N_FALSY = {"C05": 8, "C06": 6}      # leading falsy entries of POOL / HASHABLE_POOL


class Tok:
    """always-truthy stand-in; equal/hash by the equality class of the value it replaces"""

    def __init__(self, i, cls):
        self.i, self.cls = i, cls

    def __eq__(self, other):
        return isinstance(other, Tok) and other.cls == self.cls

    def __hash__(self):
        return hash(("tok", self.cls))

    def __repr__(self):
        return f"Tok({self.i})"

    def __bool__(self):
        return True


def token_values(values):
    p = Pool(values)
    return [Tok(i, p.cls[i]) for i in range(p.K)]


def run(chk):
    chk.build_and_prove()
    ncase = 30 if chk.tier == "quick" else 300
    nontrivial = set()
    per_op = {}
    falsy_hist = {}
    gal = {}
    for mod, values in ((C05, POOL), (C06, HASHABLE_POOL)):
        nf = N_FALSY[mod.__name__.split(".")[-1]]
        toks = token_values(values)
        poolF, TF = mod.ops_table(values)
        poolT, TT = mod.ops_table(toks)
        for name in TF:
            for ci in range(ncase):
                seed = chk.rng.getrandbits(48)
                instF = TF[name](random.Random(seed))
                instT = TT[name](random.Random(seed))
                if instF.get("pool") is not None:      # numeric operators: values are the semantics
                    continue
                # input: falsy values only (ids < nf)
                rin = random.Random(seed + 1)
                ids = [rin.randrange(nf) for _ in range(rin.choice([0, 1, 2, 3, 4, 6]))]
                term = rin.choice([("C",), ("C",), ("E", k2.UserError(11)), None])
                insF = [("N", poolF.val(i)) for i in ids] + ([term] if term else [])
                insT = [("N", poolT.val(i)) for i in ids] + ([term] if term else [])
                rF = k2.run_hot(lambda s: s.pipe(instF["py"]), insF)
                rT = k2.run_hot(lambda s: s.pipe(instT["py"]), insT)
                chk.cov["evaluations"] += 2
                per_op[name] = per_op.get(name, 0) + 1
                for i in ids:
                    falsy_hist[repr(poolF.val(i))] = falsy_hist.get(repr(poolF.val(i)), 0) + 1
                if instF.get("find_enc"):
                    continue    # find's None result is ambiguous by design; covered in C05
                gF = k2.g_out(rF, instF["enc"])
                gT = k2.g_out(rT, instT["enc"])
                gi = k2.g_inputs(insF, poolF)
                if gF != gT:
                    chk.violation(f"falsy-differs|{name}|{gi}|{instF['coq'][:50]}",
                                  {"operator": name, "instance": instF["coq"], "input ids": gi,
                                   "falsy values": [repr(poolF.val(i)) for i in ids],
                                   "output with falsy values": gF, "output with truthy tokens": gT,
                                   "expected": "identical (ids, instants)"}, size=len(ids))
                elif len(ids) >= 2 and rF["out"]:
                    nontrivial.add(name + gi + instF["coq"])
                key = (instF["ty"], instF["eqb"])
                gal.setdefault(key, []).append((f"({instF['coq']}, {gi})", gF))
    for (ty, eqb), cases in gal.items():
        prelude = f"Definition model (c : mealy Z {ty} * list (ev Z)) := exec (fst c) (snd c).\n"
        bad, logs = lib.correspondence("C08", "f_" + str(abs(hash((ty, eqb))) % 10**6), IMPORTS,
                                       f"(mealy Z {ty} * list (ev Z)) * list (nat * ev {ty})",
                                       "model", f"(tagged_eqb {eqb})", cases, prelude=prelude)
        chk.cov["traces_validated_against_impl"] += len(cases)
        chk.cov["disagreements_checked"] += len(cases)
        if bad:
            firsts = [cases[i] for i in bad if i >= 0][:3]
            d = {"n": len(bad), "first": firsts, "logs": logs[:1]}
            if firsts:
                d["model_says"] = lib.coq_show("C08", IMPORTS, f"model {firsts[0][0]}", prelude)
            chk.tie_broken(f"correspondence K2 on falsy-only inputs ({ty})", d)
    chk.cov["distinct_nontrivial"] = len(nontrivial)
    chk.cov["rule"] = ("every operator of the C05 and C06 tables (numeric sum/min/max/average excluded) x seeded "
                       "instances x inputs made only of falsy values; each run twice: real falsy values vs truthy "
                       "tokens with the same equality classes; non-trivial = distinct (instance, input) with >= 2 "
                       "elements and a non-empty output on which both runs agree")
    chk.cov["input_distribution"] = {"per_operator": per_op, "falsy_value_occurrences": falsy_hist}
    chk.add_samples([{"case": c[0], "output": c[1]} for cs in gal.values() for c in cs[:1]][:5])
    return chk.finish(trusted_extra=["metamorphic oracle harness/props/C08.py (token substitution)"],
                      assumptions=["subjects, delay and other time-based operators named by the property are "
                                   "exercised with the same falsy-headed pool in their own checks (C15, C20-C23)"])


def replay(chk, path):
    print(open(path).read())
    return 1
