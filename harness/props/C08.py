"""C08 -- falsy values are ordinary elements.

Theorems (Props/C08.v): naturality of the value-agnostic machines under every
relabelling of the elements.  Tie: K2 of every operator of the C05/C06 tables on
inputs drawn ONLY from the falsy values (None, 0, False, '', (), 0.0, [], {}),
against the machines.  Oracle (independent of the model, metamorphic): the same
operator instance run on the input with every falsy value replaced by a truthy
token with the same equality structure must produce the corresponding output at
the same instants.

Second metamorphic family (oracle only, harness/c08_multi.py): multi-source and the
remaining value-agnostic operators, creation functions, subjects and multicasting,
each run twice on the same seeded interleaving of 0-3 hand-driven hot sources --
falsy values vs truthy tokens -- and compared notification by notification."""
import json
import random

import k2
import lib
from k2 import Pool, POOL, HASHABLE_POOL
from props import C05, C06

IMPORTS = "Base.Prelude Base.CaseLib Ops.Machine Ops.Elementwise Ops.Aggregates"
N_FALSY = {"C05": 8, "C06": 6}      # leading falsy entries of POOL / HASHABLE_POOL


class Tok:
    """always-truthy stand-in; equal/hash by the equality class of the value it replaces"""

    def __init__(self, i, cls):
        self.i, self.cls = i, cls

    def __eq__(self, other):
        return isinstance(other, Tok) and other.cls == self.cls

    def __hash__(self):
        return hash(("tok", self.cls))

    def __repr__(self):
        return f"Tok({self.i})"

    def __bool__(self):
        return True


def token_values(values):
    p = Pool(values)
    return [Tok(i, p.cls[i]) for i in range(p.K)]


def run(chk):
    chk.build_and_prove()
    ncase = 30 if chk.tier == "quick" else 300
    nontrivial = set()
    per_op = {}
    falsy_hist = {}
    gal = {}
    for mod, values in ((C05, POOL), (C06, HASHABLE_POOL)):
        nf = N_FALSY[mod.__name__.split(".")[-1]]
        toks = token_values(values)
        poolF, TF = mod.ops_table(values)
        poolT, TT = mod.ops_table(toks)
        for name in TF:
            for ci in range(ncase):
                seed = chk.rng.getrandbits(48)
                instF = TF[name](random.Random(seed))
                instT = TT[name](random.Random(seed))
                if instF.get("pool") is not None:      # numeric operators: values are the semantics
                    continue
                # input: falsy values only (ids < nf)
                rin = random.Random(seed + 1)
                ids = [rin.randrange(nf) for _ in range(rin.choice([0, 1, 2, 3, 4, 6]))]
                term = rin.choice([("C",), ("C",), ("E", k2.UserError(11)), None])
                insF = [("N", poolF.val(i)) for i in ids] + ([term] if term else [])
                insT = [("N", poolT.val(i)) for i in ids] + ([term] if term else [])
                rF = k2.run_hot(lambda s: s.pipe(instF["py"]), insF)
                rT = k2.run_hot(lambda s: s.pipe(instT["py"]), insT)
                chk.cov["evaluations"] += 2
                per_op[name] = per_op.get(name, 0) + 1
                for i in ids:
                    falsy_hist[repr(poolF.val(i))] = falsy_hist.get(repr(poolF.val(i)), 0) + 1
                if instF.get("find_enc"):
                    continue    # find's None result is ambiguous by design; covered in C05
                gF = k2.g_out(rF, instF["enc"])
                gT = k2.g_out(rT, instT["enc"])
                gi = k2.g_inputs(insF, poolF)
                if gF != gT:
                    chk.violation(f"falsy-differs|{name}|{gi}|{instF['coq'][:50]}",
                                  {"operator": name, "instance": instF["coq"], "input ids": gi,
                                   "falsy values": [repr(poolF.val(i)) for i in ids],
                                   "output with falsy values": gF, "output with truthy tokens": gT,
                                   "expected": "identical (ids, instants)"}, size=len(ids))
                elif len(ids) >= 2 and rF["out"]:
                    nontrivial.add(name + gi + instF["coq"])
                key = (instF["ty"], instF["eqb"])
                gal.setdefault(key, []).append((f"({instF['coq']}, {gi})", gF))
    for (ty, eqb), cases in gal.items():
        prelude = f"Definition model (c : mealy Z {ty} * list (ev Z)) := exec (fst c) (snd c).\n"
        bad, logs = lib.correspondence("C08", "f_" + str(abs(hash((ty, eqb))) % 10**6), IMPORTS,
                                       f"(mealy Z {ty} * list (ev Z)) * list (nat * ev {ty})",
                                       "model", f"(tagged_eqb {eqb})", cases, prelude=prelude)
        chk.cov["traces_validated_against_impl"] += len(cases)
        chk.cov["disagreements_checked"] += len(cases)
        if bad:
            firsts = [cases[i] for i in bad if i >= 0][:3]
            d = {"n": len(bad), "first": firsts, "logs": logs[:1]}
            if firsts:
                d["model_says"] = lib.coq_show("C08", IMPORTS, f"model {firsts[0][0]}", prelude)
            chk.tie_broken(f"correspondence K2 on falsy-only inputs ({ty})", d)
    # ---- second family: multi-source / remaining value-agnostic operators, subjects (oracle only)
    import c08_multi
    m = c08_multi.run_family(chk, 80 if chk.tier == "quick" else 600)
    chk.cov["evaluations"] += m["evaluations"]
    chk.cov["distinct_nontrivial"] = len(nontrivial) + len(m["nontrivial"])
    chk.cov["distinct_nontrivial_single_source_tables"] = len(nontrivial)
    chk.cov["distinct_nontrivial_multi_source_family"] = len(m["nontrivial"])
    chk.cov["multi_source_family"] = {k: m[k] for k in (
        "operators", "evaluations", "cases_with_two_or_more_sources", "cases_second_source_ahead",
        "cases_differing", "interleaving_modes")}
    chk.cov["rule"] = ("every operator of the C05 and C06 tables (numeric sum/min/max/average excluded) x seeded "
                       "instances x inputs made only of falsy values; each run twice: real falsy values vs truthy "
                       "tokens with the same equality classes; non-trivial = distinct (instance, input) with >= 2 "
                       "elements and a non-empty output on which both runs agree.  PLUS (oracle only) the catalogue of "
                       "harness/c08_multi.py: every entry (multi-source, buffering, default/seed/key parameters, "
                       "higher-order over inner hot sources, creation functions, subjects and multicasting with a late "
                       "second subscriber, time-based operators on a virtual-time scheduler, slice with a negative "
                       "start and a positive stop (elements wrapped as (index, x)), and the synchronous forms of the "
                       "bridges that hold a last value: to_future with a concurrent.futures.Future constructor probed "
                       "after every step and read back through from_future, from_future of a completed future, "
                       "rx.of(...).run() on its default / immediate / current-thread scheduler, rx.start and "
                       "rx.to_async on the ImmediateScheduler) x seeded explicit scripts "
                       "interleaving 0-3 hot sources in 6 modes (random, second source first, first source first, last "
                       "first, bursts, round-robin led by the second), terminals C/E/none per source, inline or deferred to the end in "
                       "seeded orders; each run twice (falsy palette vs tokens with the same equality classes) and compared on "
                       "every notification of every subscriber with its script position, escaping exceptions, probes "
                       "and the sources' subscribe/unsubscribe instants; non-trivial = distinct (operator, parameters, "
                       "script) on which both runs agree and the subscribers received >= 2 notifications")
    chk.cov["input_distribution"] = {"per_operator": per_op, "falsy_value_occurrences": falsy_hist,
                                     "multi_per_operator": m["per_operator"],
                                     "multi_falsy_value_occurrences": m["falsy_value_occurrences"]}
    chk.add_samples([{"case": c[0], "output": c[1]} for cs in gal.values() for c in cs[:1]][:4])
    chk.add_samples([s for s in m["samples"] if s["operator"] in (
        "sequence_equal(observable)", "ReplaySubject(buffer_size)", "buffer(boundaries)")], limit=7)
    return chk.finish(trusted_extra=["metamorphic oracle harness/props/C08.py (token substitution)",
                                     "harness/c08_multi.py: hand-driven hot sources (k2m.MSource), script generator, "
                                     "per-operator output schemas (structural encoding by type and repr), the "
                                     "harness-side callbacks of the catalogue (they look only at the palette position "
                                     "of the element), reactivex VirtualTimeScheduler for the time-based entries"],
                      assumptions=["the second family is an oracle without a Coq model: it shows that falsy values "
                                   "behave like truthy tokens with the same equality classes on the explored scripts, "
                                   "not that the common behaviour is right (that is the subject of C10-C13, C15, "
                                   "C20-C23 with the same falsy-headed pool)",
                                   "a defect that treats truthy tokens and falsy values alike, or that depends on "
                                   "arithmetic/ordering of elements (sum, average, min, max, to_marbles; excluded), is "
                                   "out of reach of the substitution oracle",
                                   "find, default_if_empty() and *_or_default() without an explicit default produce a "
                                   "literal None by design and are excluded from the substitution (C05)"])


def replay(chk, path):
    rep = json.load(open(path))
    if rep.get("family") != "multi":
        print(open(path).read())
        return 1
    import c08_multi
    fails, rF, rT = c08_multi.replay_case(rep)
    print(f"[C08] replay of {rep['operator']}  pseed={rep['pseed']}  palette={rep.get('palette')}")
    for line in rep.get("script_readable", []):
        print("   ", line)
    print("  with falsy values :", json.dumps(rF["out"], default=repr))
    print("  with truthy tokens:", json.dumps(rT["out"], default=repr))
    if rF["subs"] != rT["subs"]:
        print("  source subscriptions (falsy) :", json.dumps(rF["subs"]))
        print("  source subscriptions (tokens):", json.dumps(rT["subs"]))
    if fails:
        print(f"VIOLATION property=C08 replay={path}")
        return 1
    print("[C08] the two runs agree on the current tree: the recorded case no longer fails")
    return 0
