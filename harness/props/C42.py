"""C42 -- CatchScheduler routes action exceptions to its handler.

Theorems (Props/C42.v) are about Core/CatchSched.v (the wrapper as a program
transformation on action trees) over Core/VTime.v.  Tie (K1): generated histories
whose schedule / schedule_relative / schedule_absolute / schedule_periodic calls
go through the real CatchScheduler(inner, handler) -- inner = VirtualTimeScheduler,
TestScheduler or HistoricalScheduler -- with actions that schedule recursively
through the scheduler HANDED TO THEM, raise at every position (also
ArgumentOutOfRangeException from sleep), periodic actions that raise, and every
handler verdict table; Coq evaluates run_catch on the same history and compares
every observation (runs, handler calls, notes, escaping exceptions, clocks).
Oracles: vt.oracle_catch (each raise is followed by the handler call with that
exception; verdict True swallows and the run goes on, verdict False propagates out
of start()/advance_to() and nothing runs after; periodic work stops), and a
differential run WITHOUT the CatchScheduler for histories that never raise.

Added after the coverage audit: handler verdicts None and 0 besides False (each must
propagate: only True swallows; the model sees `false` for all three); every schedule
call passes a fresh state object and the action checks that it is invoked with that
very object (vt.run_impl, trace event "badstate"); `cancel` disposes the disposable
RETURNED by CatchScheduler.schedule* (not the inner scheduler's handle).

Family `handed` (harness/c42_handed.py, oracle-only): wrapped schedulers that hand their actions a scheduler OTHER than
themselves -- a recording stub scheduler handing out child stubs (identity / due time / state of every nested
schedule call, nested raises, `now` of the handed scheduler; differential run on the bare stub) and the real
NewThreadScheduler / ThreadPoolScheduler (a nested action runs on its parent's thread, after the parent returned, as
on the bare scheduler).

Family `returned` (harness/c42_returned.py, oracle-only, differential): non-raising actions that RETURN a disposable
(the disposable of follow-up work scheduled through the handed scheduler, alone or inside Disposable(fn) / Composite /
Serial / SingleAssignment / MultipleAssignment / RefCount / a user DisposableBase subclass; BooleanDisposable; None),
the disposable of the outer work item being disposed before the action ran, after it ran but before the follow-up is
due, between follow-ups, after everything or never: the same follow-ups run / are cancelled and the returned object is
disposed at the same clock as on the bare wrapped scheduler (virtual-time schedulers and a recording stub)."""
import itertools
import json

import c42_handed
import c42_returned
import lib
import vt

IMPORTS = "Base.Prelude Core.VTime Core.CatchSched"
PRELUDE = """
Definition model (c : kind * nat * list (Z*bool) * list tcmd) : list oev :=
  let '(k, fuel, v, h) := c in observe (run_catch (Cfg k false) fuel (verdict v) (init 0) h).
"""
CASE_TY = "(kind * nat * list (Z*bool) * list tcmd) * list oev"
U = vt.US
CODES = (-1, 0, 1, 2)


FALSY = (False, None, 0)      # every verdict other than True must propagate; the model sees `false`


def g_verdict(v):
    return "[" + "; ".join(f"({vt.gz(int(k))}, {'true' if x is True else 'false'})" for k, x in v.items()) + "]"


def falsy_mix(v, i):
    """replace the False verdicts of table v by False / None / 0 in rotation"""
    out, j = {}, i
    for k, x in v.items():
        if x is True:
            out[k] = True
        else:
            out[k] = FALSY[j % 3]
            j += 1
    return out


def relabel(h):
    n = [0]

    def c(x):
        if x[0] == "sched":
            lab = n[0]
            n[0] += 1
            return ["sched", x[1], lab, [c(y) for y in x[3]]]
        return x
    return [["do", c(t[1])] if t[0] == "do" else t for t in h]


def exhaustive():
    """all action trees: root body of 0..2 commands from a small alphabet, one level of nesting"""
    L = -7
    leaf = [["raise", 0], ["raise", 1], ["note", 3], ["sleep", -U]]
    inner = [[], [["raise", 0]], [["raise", 1]], [["note", 4], ["raise", 0]], [["sched", ["now"], L, [["raise", 1]]]]]
    nested = [["sched", w, L, b] for w in (["now"], ["rel", U]) for b in inner]
    alpha = leaf + nested
    bodies = [[]] + [[a] for a in alpha] + [[a, b] for a in alpha for b in alpha]
    out = []
    for b in bodies:
        out.append(relabel([["do", ["sched", ["abs", U], L, b]], ["do", ["sched", ["abs", 2 * U], L, []]], ["start"]]))
    return out


def gen_cases(tier, rng):
    """-> (world, history, verdicts, origin)"""
    out = []
    ex = exhaustive()
    verdicts = [dict(zip(map(str, CODES), v)) for v in itertools.product([True, False], repeat=3)]
    verdicts = [dict(v, **{"2": False}) for v in verdicts]       # codes -1, 0, 1 vary
    for i, h in enumerate(ex):
        vs = verdicts if tier == "thorough" else [verdicts[i % len(verdicts)], verdicts[(i * 3 + 5) % len(verdicts)]]
        for j, v in enumerate(vs):
            out.append((("vts", "test", "hist")[i % 3], h, falsy_mix(v, i // 3 + j), "exhaustive"))
    # periodic actions raising at their k-th call, scheduled at top level and from inside an action
    for world in vt.WORLDS:
        for k in (0, 1, 2):
            for e in (0, 1):
                for acc in (True, False, None, 0):
                    tab = [[[i, ["next", [], i + 1]] for i in range(k)], ["raise", [10 + k], e]]
                    v = {"-1": FALSY[(k + e) % 3], "0": acc, "1": acc, "2": False}
                    out.append((world, [["do", ["periodic", U, tab, 0]], ["advto", 5 * U], ["do", ["stop"]],
                                        ["advto", 9 * U]], v, "periodic-raise"))
                    out.append((world, [["do", ["sched", ["abs", U], 0, [["periodic", 2 * U, tab, 0]]]],
                                        ["advto", 12 * U], ["do", ["stop"]], ["advby", 6 * U]], v, "periodic-raise"))
    # two periodic jobs on ONE CatchScheduler: A raises at its k-th call (swallowed or not), B never raises and is
    # scheduled before A, after A, or after A has failed.  B's ticks are judged against B running alone.
    for world in vt.WORLDS:
        for k in (0, 1, 2):
            for acc in (True, False):
                tabA = [[[i, ["next", [], i + 1]] for i in range(k)], ["raise", [20 + k], 1]]
                tabB = [[[i, ["next", [], i + 1]] for i in range(30)], ["next", [], 0]]
                v = {"-1": False, "0": acc, "1": acc, "2": False}
                A, B = ["do", ["periodic", 2 * U, tabA, 0]], ["do", ["periodic", 3 * U, tabB, 0]]
                for h in ([A, B, ["advto", 20 * U]], [B, A, ["advto", 20 * U]],
                          [A, ["advto", 7 * U], B, ["advto", 25 * U]]):
                    out.append((world, h, v, "two-periodic"))
    # cancellation through the disposables RETURNED by CatchScheduler.schedule / schedule_relative /
    # schedule_absolute (top level) and by the recursive wrapper handed to an action (nested)
    L = -7
    whens = (["now"], ["rel", U], ["abs", U], ["rel", 2 * U], ["abs", 3 * U])
    v0 = {"-1": None, "0": True, "1": 0, "2": False}
    for wi, world in enumerate(vt.WORLDS):
        for w1 in whens:
            for w2 in whens[:3]:
                for victim in (0, 1):
                    for drive in (["start"], ["advto", 5 * U]):
                        out.append((world, relabel([["do", ["sched", w1, L, []]], ["do", ["sched", w2, L, [["note", 1]]]],
                                                    ["do", ["cancel", victim]], drive]), v0, "cancel-returned"))
            for w2 in whens[1:]:
                # action 0 schedules 1 and 2 through the scheduler handed to it and cancels 1 at once /
                # action 2 cancels 1 when it runs (1 is due later than 2)
                out.append((world, relabel([["do", ["sched", w1, L, [["sched", w2, L, [["note", 2]]],
                                                                    ["sched", ["now"], L, []], ["cancel", 1]]]],
                                            ["start"]]), v0, "cancel-returned"))
                out.append((world, relabel([["do", ["sched", w1, L, [["sched", ["rel", 4 * U], L, [["raise", 0]]],
                                                                    ["sched", w2, L, [["cancel", 1]]]]]],
                                            ["start"]]), v0, "cancel-returned"))
    nr = 1500 if tier == "quick" else 20000
    for _ in range(nr):
        world = rng.choice(vt.WORLDS)
        unit = rng.choice([U, 1000])
        per = rng.random() < 0.35
        g = vt.Gen(rng, unit=unit, allow=("cancel", "stop", "sleep", "note") + (("pcancel",) if per else ()),
                   raise_p=rng.choice([0.0, 0.1, 0.2]), periodic_p=0.12 if per else 0.0,
                   table_kinds=("count", "cycle", "raise", "raise", "raise", "disp"))
        h = g.history(world, rng.randrange(1, 9), bounded_only=per)
        if not per and rng.random() < 0.6:
            h.append(["start"])
        v = {str(e): rng.choice([True, True, True, False, None, 0]) for e in CODES}
        out.append((world, h, v, "random-periodic" if per else "random"))
    return out


def raises_somewhere(h):
    def t_raises(tab):
        return any(r[0] == "raise" for _, r in tab[0]) or tab[1][0] == "raise"

    def c_r(c):
        if c[0] == "raise" or (c[0] == "sleep" and c[1] < 0):
            return True
        if c[0] == "periodic":
            return t_raises(c[2])
        return c[0] == "sched" and any(c_r(x) for x in c[3])
    return any(t[0] == "do" and c_r(t[1]) for t in h)


def two_periodic_oracle(world, h, v, trace):
    """the periodic job whose action never raises ticks exactly as it does without the other job (actions that do
    not raise behave as on the wrapped scheduler; another job's exception is not theirs) -- unless the other
    job's exception propagated out of the run loop (verdict not True), which ends the run for everybody"""
    def is_b(c):
        return c[0] == "do" and c[1][0] == "periodic" and c[1][2][1][0] == "next"
    pid_b = [i for i, c in enumerate([c for c in h if c[0] == "do" and c[1][0] == "periodic"]) if is_b(c)][0]
    alone = [c for c in h if not (c[0] == "do" and c[1][0] == "periodic" and not is_b(c))]
    _, tr2 = vt.run_impl(world, 0, alone, catch=v, timeout=10.0)
    got = [(e[2], e[3]) for e in trace if e[0] == "tick" and e[1] == pid_b]
    exp = [(e[2], e[3]) for e in tr2 if e[0] == "tick" and e[1] == 0]
    propagated = any(e[0] == "handler" and not e[2] for e in trace)
    if propagated:
        ok = got == exp[:len(got)]
    else:
        ok = got == exp
    return [] if ok else [("periodic-job-that-never-raised-stopped-or-drifted",
                           f"ticks (state, time) of the non-raising job {got[:8]}... alone {exp[:8]}...")]


def run(chk):
    proved = chk.build_and_prove()
    tier = chk.tier if proved and not chk.broken else "thorough"
    if tier != chk.tier:
        chk.cov["search"] = "theorem or build broke: scope enlarged to thorough"
    cases = gen_cases(tier, chk.rng)
    gal, failures, nontrivial = [], [], set()
    hist = {"world": {}, "origin": {}, "handler_calls": 0, "accepted": 0, "rejected": 0,
            "rejected_by_verdict": {"False": 0, "None": 0, "0": 0}, "nested_raise": 0,
            "periodic_raise": 0, "no_raise_differential": 0,
            "actions_invoked_with_state_checked": 0, "cancel_via_returned_disposable": 0,
            "cancel_via_returned_disposable_of_pending_action": 0, "cancel_via_hook (items of periodic work)": 0}
    for (world, h, v, origin) in cases:
        obs, trace = vt.run_impl(world, 0, h, catch=v, timeout=10.0)
        chk.cov["evaluations"] += 1
        hist["world"][world] = hist["world"].get(world, 0) + 1
        hist["origin"][origin] = hist["origin"].get(origin, 0) + 1
        hs = [e for e in trace if e[0] == "handler"]
        hist["handler_calls"] += len(hs)
        hist["accepted"] += sum(1 for e in hs if e[2])
        hist["rejected"] += sum(1 for e in hs if not e[2])
        for e in hs:
            if not e[2]:
                hist["rejected_by_verdict"][e[3]] += 1
        hist["actions_invoked_with_state_checked"] += sum(1 for e in trace if e[0] == "run")
        pend = set()
        for e in trace:
            if e[0] == "sched":
                pend.add(e[1])
            elif e[0] == "run":
                pend.discard(e[1])
            elif e[0] == "cancel":
                if e[2] == "returned":
                    hist["cancel_via_returned_disposable"] += 1
                    hist["cancel_via_returned_disposable_of_pending_action"] += e[1] in pend
                else:
                    hist["cancel_via_hook (items of periodic work)"] += 1
        hist["nested_raise"] += sum(1 for e in trace if e[0] == "raise" and e[4] > 1)
        hist["periodic_raise"] += sum(1 for e in trace if e[0] == "raise" and e[3] is not None)
        if hs:
            nontrivial.add(json.dumps([world, h, v]))
        bad = vt.oracle_catch(trace)
        bad += [b for b in vt.oracle_vt(world, trace, check_exact=False)
                if b[0] != "advance_to-target-equals-clock"]
        if any(e[0] == "hang" for e in trace):
            bad.append(("hang", "no return within the watchdog"))
        if not raises_somewhere(h):
            # Actions that do not raise behave exactly as on the wrapped scheduler
            obs2, _ = vt.run_impl(world, 0, h, catch=None, timeout=10.0)
            chk.cov["evaluations"] += 1
            hist["no_raise_differential"] += 1
            if obs2 != obs:
                bad.append(("non-raising-history-differs-from-wrapped-scheduler",
                            f"with CatchScheduler {obs[:12]} ... directly {obs2[:12]}"))
        if origin == "two-periodic":
            bad += two_periodic_oracle(world, h, v, trace)
            chk.cov["evaluations"] += 1
        size = vt.hsize(h) * 100 + len(json.dumps(h))
        for sig, detail in bad:
            failures.append((size, sig, world, h, v, obs, detail))
        fuel = 3000 if vt.has(h, ("periodic",)) else vt.hsize(h)
        gal.append((f"({vt.KIND[world]}, {fuel}%nat, {g_verdict(v)}, {vt.g_history(h)})", vt.g_obs(obs)))
    failures.sort(key=lambda f: f[0])
    seen = set()
    for size, sig, world, h, v, obs, detail in failures:
        if sig in seen:
            continue
        seen.add(sig)
        chk.violation(f"{sig}|{world}", {"world": world, "history": h, "handler_verdicts": v, "observed": obs,
                                        "what_failed": detail,
                                        "expected": "every exception raised by a scheduled action reaches the handler; "
                                                    "True swallows (periodic work stops), anything else (False, None, "
                                                    "0) propagates; an action receives the state it was scheduled "
                                                    "with; disposing the returned disposable cancels; "
                                                    "non-raising actions behave as on the wrapped scheduler"},
                      size=size)
    # family `handed`: the wrapped scheduler hands its actions another scheduler than itself (oracle-only)
    hfails, hhist, hnontrivial = c42_handed.run_family(chk)
    hist["origin"]["handed-stub"] = sum(hhist["stub_programs"].values())
    hist["origin"]["handed-threads"] = sum(hhist["thread_scenarios"].values())
    hist["handed"] = hhist
    nontrivial |= {"handed:" + x for x in hnontrivial}
    hfails.sort(key=lambda f: f[0])
    for size, sig, rep in hfails:
        if sig in seen:
            continue
        seen.add(sig)
        chk.violation(sig, rep, size=size)
    # family `returned`: what a non-raising action returns is owned by the wrapped scheduler (oracle-only, differential)
    rfails, rhist, rnontrivial = c42_returned.run_family(chk)
    hist["origin"]["returned"] = sum(rhist["programs"].values())
    hist["returned"] = rhist
    nontrivial |= {"returned:" + x for x in rnontrivial}
    rfails.sort(key=lambda f: f[0])
    for size, sig, rep in rfails:
        if sig in seen:
            continue
        seen.add(sig)
        chk.violation(sig, rep, size=size)
    bad, logs = lib.correspondence("C42", "corr", IMPORTS, CASE_TY, "model", "(list_eqb oev_eqb)", gal,
                                   prelude=PRELUDE)
    chk.cov["traces_validated_against_impl"] = len(gal)
    chk.cov["disagreements_checked"] = len(gal)
    if bad:
        firsts = [i for i in bad if i >= 0][:3]
        detail = {"n_disagreements": len(bad), "logs": [l[-1500:] for l in logs[:1]],
                  "first_cases": [{"world": cases[i][0], "history": cases[i][1], "verdicts": cases[i][2],
                                   "implementation": gal[i][1]} for i in firsts]}
        if firsts:
            detail["model_says"] = lib.coq_show("C42", IMPORTS, f"model {gal[firsts[0]][0]}", PRELUDE)
        chk.tie_broken("correspondence: Core/CatchSched.v run_catch vs real CatchScheduler", detail)
    chk.cov["distinct_nontrivial"] = len(nontrivial)
    chk.cov["rule"] = ("exhaustive: every root action body of 0..2 commands over {raise 0, raise 1, note, sleep(-1) "
                       "(ArgumentOutOfRangeException), nested action scheduled now / +1 s whose body is one of 5 "
                       "(raising at depth 2 and 3)} followed by a later action and start(), with 2 (thorough: all 8) "
                       "handler verdict tables, rotating over the three inner schedulers; plus random histories "
                       "(depth <= 3, raise probability 0/0.1/0.2 per command, cancel/stop/sleep, 35 % with periodic "
                       "actions that count, cycle, raise or dispose themselves, random verdicts).  Rejecting "
                       "verdicts are False, None and 0 in rotation / at random (never a truthy non-True value); every "
                       "schedule call carries a fresh state object whose identity the action checks; cancel disposes "
                       "the disposable returned by CatchScheduler.schedule*.  non-trivial = "
                       "distinct (world, history, verdicts) in which the handler was called at least once.  Family "
                       "`handed` (oracle-only, no model): (1) programs on a recording stub scheduler that hands every "
                       "invoked action a fresh child stub / one shared child / itself / a rotation of these, each stub "
                       "with its own clock skew: exhaustive top-level way {now, rel, abs} x nested way {now, rel as "
                       "timedelta, rel as float, abs as datetime, abs as float, periodic} x second-level way {none, "
                       "now, rel, abs, periodic} x raise {nowhere, level 1, level 2} x 4 policies, plus random programs "
                       "(depth <= 3, raises, periodic jobs raising / disposing themselves at the k-th tick, cancel of "
                       "returned disposables, verdicts True/False/None/0); every schedule call made through the handed "
                       "scheduler must arrive once at exactly the stub handed to the running action with the due time "
                       "and state object asked for, `now` of the handed scheduler is that stub's, raises are routed, "
                       "and the event log equals the bare stub's (whole log if nothing raises, else the actions' own "
                       "events); (2) real NewThreadScheduler / ThreadPoolScheduler(4): outer {now, rel, abs} -> inner "
                       "{now, rel float, rel timedelta, abs, periodic} -> optional second level, raise nowhere / inner "
                       "/ second level (handler accepts): same thread as the parent, not started before the parent "
                       "returned, state identity -- each demanded only if it holds on the bare scheduler; counted "
                       "non-trivial = stub programs with a nested call from an action that was handed another "
                       "scheduler than the wrapped one, and every thread scenario.  Family `returned` (oracle-only, "
                       "differential, no model): programs of 1..3 top-level actions (now / relative / absolute) whose "
                       "actions never raise, schedule 0..2 follow-ups each through the scheduler handed to them (up to 3 "
                       "levels) and RETURN the follow-ups' disposables in one of 10 shapes {the nested schedule result "
                       "itself, Disposable(fn), CompositeDisposable, SerialDisposable, SingleAssignmentDisposable, "
                       "MultipleAssignmentDisposable, RefCountDisposable, a user subclass of abc.DisposableBase, "
                       "BooleanDisposable (cancels nothing), None}; the disposable returned by a schedule call (top "
                       "level or nested) is disposed before its action ran / after it ran and before the follow-up is "
                       "due / between two follow-ups / after everything / never, by the driver between advance_to calls, "
                       "by an action on the wrapped scheduler or by an action scheduled through the CatchScheduler; on "
                       "VirtualTimeScheduler, TestScheduler, HistoricalScheduler and a recording stub (handing itself / "
                       "a fresh child) that keeps what an action returned and disposes it with the work item.  "
                       "Exhaustive: 5 wrapped schedulers x outer way x 10 shapes x follow-up way x 5 disposal points "
                       "(disposer rotating; thorough: all three), two-level chains shape x shape x 3 points x 2 targets, "
                       "two follow-ups in one returned object; plus random programs.  Demanded: the trace (which action "
                       "ran at which clock, at which clock each returned object was disposed, is_disposed of the "
                       "program-built returned objects after every disposal and at the end, anything escaping) equals "
                       "the trace on the bare scheduler and the handler is never called; non-trivial = programs in "
                       "which on the bare scheduler a returned object was disposed or a follow-up was cancelled after "
                       "its parent ran")
    chk.cov["input_distribution"] = hist
    chk.add_samples([{"world": c[0], "history": c[1], "verdicts": c[2]} for c in cases[::max(1, len(cases) // 6)]])
    return chk.finish(
        trusted_extra=["Core/CatchSched.v + Core/VTime.v hand-written models (validated by this run's correspondence); "
                       "the _get_recursive_wrapper cache is not modelled (all clones share the handler)",
                       "harness/vt.py drives the real CatchScheduler; stop/sleep/advance/clock reads go to the inner "
                       "scheduler (CatchScheduler has no such methods)",
                       "state forwarding (identity of a fresh object per schedule call) and cancellation through the "
                       "returned disposables are judged by the oracles only (no counterpart in the model); the model "
                       "sees every verdict other than True as false",
                       "family `handed` (harness/c42_handed.py) is oracle-only: the recording stub scheduler RecStub and "
                       "its run loop are written in the harness (an exception leaving an action ends that unit of work "
                       "only); the real-thread scenarios use wall-clock waits (40 ms linger, 10 ms delays, 5 s "
                       "watchdogs) and demand of the CatchScheduler run only what the bare run of the same scenario "
                       "showed",
                       "family `returned` (harness/c42_returned.py) is oracle-only and purely differential (CatchScheduler "
                       "run against the bare run of the same program; no independent reference of the bare scheduler's "
                       "own behaviour); its stub MiniStub and run loop are written in the harness and dispose what an "
                       "action returned when the work item's disposable is disposed (the ScheduledItem contract); "
                       "whether the object arriving at the stub IS the returned object is counted, not demanded"],
        assumptions=["the inner scheduler is a virtual-time scheduler (single thread) in the families tied to the model; "
                     "a single-threaded recording stub or NewThreadScheduler/ThreadPoolScheduler in family `handed`",
                     "the handler itself does not raise; exceptions are Exception subclasses",
                     "handler verdicts are True, False, None or 0 (no truthy value other than True)"])


def replay(chk, path):
    d = json.load(open(path))
    if d.get("family") in ("handed-stub", "handed-threads", "returned"):
        bad = c42_returned.replay(d) if d["family"] == "returned" else c42_handed.replay(d)
        for sig, detail in bad:
            print("FAILS", sig, detail)
        if bad:
            print(f"VIOLATION property=C42 replay={path}")
        return 1 if bad else 0
    if "history" not in d:
        print(json.dumps(d, indent=1))
        return 1
    obs, trace = vt.run_impl(d["world"], 0, d["history"], catch=d["handler_verdicts"])
    bad = vt.oracle_catch(trace)
    bad += [b for b in vt.oracle_vt(d["world"], trace, check_exact=False)
            if b[0] != "advance_to-target-equals-clock"]
    if any(e[0] == "hang" for e in trace):
        bad.append(("hang", "no return within the watchdog"))
    if not raises_somewhere(d["history"]):
        obs2, _ = vt.run_impl(d["world"], 0, d["history"], catch=None)
        if obs2 != obs:
            bad.append(("non-raising-history-differs-from-wrapped-scheduler",
                        f"with CatchScheduler {obs[:12]} ... directly {obs2[:12]}"))
    if str(d.get("signature", "")).startswith("periodic-job-that-never-raised"):
        bad += two_periodic_oracle(d["world"], d["history"], d["handler_verdicts"], trace)
    print("history", json.dumps(d["history"]))
    print("verdicts", d["handler_verdicts"])
    print("observed", obs)
    for sig, detail in bad:
        print("FAILS", sig, detail)
    if bad:
        print(f"VIOLATION property=C42 replay={path}")
    return 1 if bad else 0
