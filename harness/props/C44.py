"""C44 -- an operator function can be applied to many sources independently.

Theorems (Props/C44.v): the generic closure-level theorem (one shared operator value = fresh operator
values per application, for all histories, whenever no code writes a factory-level cell) and the
decidable check of the allocation table REGENERATED from /repo/reactivex on every run by
harness/translate/alloc_tr.py (Gen/AllocTable.v).

Ties:
 (1) the kernel's entry_ok_C44 on every generated row = the translator's python twin (coq_eval);
 (2) differential run, INDEPENDENT of the translator (= the oracle): for every recipe of
     harness/alloc_cases.py that yields an operator value (every public factory of
     reactivex.operators, incl. the multicast family: publish/replay/publish_value are subscribed AND
     connected, ref_count is applied to published sources) and for seeded random COMPOSED operator
     values (compose of 2-4 factories), ONE operator value is applied to two different cold sources;
     both results are subscribed (twice each) and connected at interleaved virtual times, and also one
     after the other; the same world is run with a FRESH operator value per application.
     Per-subscriber notifications (absolute virtual times) and the subscription intervals of both
     sources and of every argument observable must be identical.
 (3) verdict correspondence table <-> differential as in C04.
"""
import json

import lib
import alloc_cases as ac


def plans(tier, rng):
    """fixed plans + seeded random interleavings of two sources (A, B) and of three (A, B, C)"""
    P = ["seq", "interleaved"]
    n2, n3 = (3, 2) if tier == "quick" else (8, 6)
    for _ in range(n2):
        ds = sorted(rng.sample(range(0, 80), 3))
        P.append(("inter", tuple(ds), (rng.randrange(0, 90), rng.randrange(0, 90))))
    for _ in range(n3):
        ds = sorted(rng.sample(range(0, 80), 5))
        P.append(("inter3", tuple(ds), tuple(rng.randrange(0, 90) for _ in range(3))))
    return P


def one(r, plan):
    st1, s = lib.with_timeout(8, ac.run_c44, r, True, plan)
    st2, f = lib.with_timeout(8, ac.run_c44, r, False, plan)
    if st1 != "ok" or st2 != "ok":
        return "timeout", None, None
    if "construct_error" in s or "construct_error" in f:
        return "construct", s, f
    return ("ok" if s == f else "diff"), s, f


def fails(r, plan):
    return one(r, plan)[0] == "diff"


def shared_vs_fresh(chk, enlarge):
    """Oracle-only family on the driver of C04's closure_progs (props/C04.py drive_closure): ONE ops.take(count) /
    ops.skip(count) operator value applied to 2-3 probe sources versus a fresh operator value per application, the
    same generated history of overlapping subscriptions and deliveries; per delivery who heard what must be equal
    (the statement of C44 itself; the shared run is also compared with the Coq program by C04)."""
    from props.C04 import drive_closure
    rng = chk.rng
    n = {"quick": 300, "thorough": 3000}[chk.tier] * (4 if enlarge else 1)
    dist, failing = {"take": 0, "skip": 0, "events": 0}, []
    for _ in range(n):
        which, napps = rng.randrange(2), rng.randint(2, 3)
        count = rng.randint(1, 4) if which == 0 else rng.randint(0, 4)
        h, nsub, fed = [(-100, 0)] * napps, 0, {}
        for _step in range(rng.randint(2, 14)):
            if nsub < 2 or (nsub < 5 and rng.random() < 0.25):
                h.append((-1 - (nsub if nsub < napps else rng.randrange(napps)), 0))
                nsub += 1
            else:
                j = rng.randrange(nsub)
                fed[j] = fed.get(j, 0) + 1
                h.append((j, fed[j] - 1))
        shared, _ = drive_closure(which, count, h)
        ref, _ = drive_closure(which, count, h, fresh=True)
        chk.cov["evaluations"] += 1
        dist["take" if which == 0 else "skip"] += 1
        dist["events"] += len(h)
        if shared != ref:
            failing.append({"family": "shared_vs_fresh", "operator": "take" if which == 0 else "skip", "which": which,
                            "count": count, "history": [list(e) for e in h], "shared": shared, "fresh": ref})
    chk.cov["shared_vs_fresh"] = {"cases": n, "distribution": dist,
                                  "rule": "one ops.take / ops.skip operator value applied to 2-3 probe sources vs a fresh "
                                          "value per application; 2-5 subscriptions spread over the applications, each "
                                          "fed 0, 1, 2, ...; per delivery: who heard what"}
    for m in sorted(failing, key=lambda m: len(m["history"]))[:1]:
        chk.violation(f"shared_vs_fresh|{m['operator']}",
                      dict(m, n_failing_histories=len(failing),
                           what="history: (-100, _) = apply the operator value to a new source, (-1 - k, _) = subscribe "
                                "to application k, (j, i) = deliver i to subscription j; recordings per delivery "
                                "[subscriber, value, #heard, heard...] (0 = on_completed, v+1 = on_next v)"), size=1)


def run(chk):
    proved = chk.build_and_prove()
    tv = ac.table_verdict(chk, "C44")
    R = ac.recipes()
    tier = chk.tier
    enlarge = (not proved) or bool(chk.broken)
    if enlarge:
        chk.cov["search"] = ("theorem file / translator / table tie broke: the differential run is enlarged to "
                             "the thorough plans and 4x the random composed operators; it is the search for a "
                             "failing input")
    P = plans("thorough" if enlarge else tier, chk.rng)
    hist = {"plans": {}, "recipes": 0, "random_composed_operators": 0, "construct_errors": [], "timeouts": [],
            "stage_histogram": {}}
    nontrivial, failing, samples = set(), [], []
    cases = [r for r in R if r.c44 and r.op is not None]
    hist["recipes"] = len(cases)
    pool = ac.stage_pool(R, multicast_ok=True)
    npipe = {"quick": 200, "thorough": 2500}[tier] * (4 if enlarge and tier == "quick" else 1)
    pipes, seen = [], set()
    for _ in range(npipe):
        p = ac.random_pipeline(chk.rng, pool)
        if p.id not in seen:
            seen.add(p.id)
            pipes.append(p)
    hist["random_composed_operators"] = len(pipes)
    for r in cases + pipes:
        for s in getattr(r, "stages", [r]):
            hist["stage_histogram"][s.name] = hist["stage_histogram"].get(s.name, 0) + 1
        bad = None
        for plan in P:
            v, sh, fr = one(r, plan)
            chk.cov["evaluations"] += 2
            pk = plan if isinstance(plan, str) else plan[0]
            hist["plans"][pk] = hist["plans"].get(pk, 0) + 1
            if v == "construct":
                hist["construct_errors"].append([r.id, (sh or {}).get("construct_error") or
                                                 (fr or {}).get("construct_error")])
                break
            if v == "timeout":
                hist["timeouts"].append([r.id, str(plan)])
                break
            if v == "diff":
                bad = (plan, sh, fr)
                break
            if sum(len(t) for _, t in sh["subs"]) >= 4:
                nontrivial.add((r.id, str(plan)))
            if len(samples) < 5 and r.id in ("ops.ref_count", "ops.replay", "ops.publish_value", "ops.scan",
                                             "ops.publish") and plan == "interleaved":
                samples.append({"operator": r.id, "plan": plan, "shared_operator_value": sh})
        if bad is not None:
            plan, sh, fr = bad
            failing.append(r)
            m = r
            if isinstance(r, ac.Pipeline):
                m = ac.shrink_pipeline(r, lambda c: fails(c, plan))
                _, sh, fr = one(m, plan)
                sig = "shared-operator|compose|" + "+".join(sorted({s.name for s in m.stages}))
                desc = m.to_json()
            else:
                sig = f"shared-operator|{r.name}"
                desc = r.id
            chk.violation(sig, {"case": desc, "plan": plan if isinstance(plan, str) else list(plan),
                                "what": "ONE operator value applied to two sources (A, B); subscriptions [which, "
                                        "[time, kind, value]...] and source subscription intervals",
                                "one_shared_operator_value": sh, "fresh_operator_value_per_source": fr,
                                "expected": "identical", "operators_used": list(m.uses)},
                          size=len(m.uses) + 2 * (len(getattr(m, "stages", [m])) - 1))
    pub = ac.public_operator_names()
    have = {r.name for r in cases}
    missing = sorted(n for n in pub if "ops." + n not in have)
    hist["public_operators_without_recipe"] = missing
    if set(missing) - {"to_future"}:
        chk.tie_broken("differential harness has no recipe for a public operator factory (new operator?)",
                       sorted(set(missing) - {"to_future"}))
    if hist["construct_errors"]:
        chk.tie_broken("differential harness: a recipe can no longer be constructed", hist["construct_errors"][:10])
    ac.tie_table_vs_differential(chk, tv, failing, cases + pipes, "C44")
    shared_vs_fresh(chk, enlarge)
    if tv is not None:
        chk.cov["table"] = tv["stats"]
        chk.cov["traces_validated_against_impl"] = tv["stats"]["rows_checked_in_coq"]
        chk.cov["disagreements_checked"] = tv["stats"]["rows_checked_in_coq"]
    chk.cov["distinct_nontrivial"] = len(nontrivial)
    chk.cov["rule"] = ("every operator-valued recipe of harness/alloc_cases.py (all public factories of "
                       "reactivex.operators except to_future; multicast family included, connectables are connected) "
                       "+ seeded random composed operator values (compose of 2-4 factories) x plans (sequential "
                       "A,B,A; interleaved A,B,A,B at fixed and, in the thorough tier, seeded random offsets and "
                       "connection instants), each run with one shared operator value and with fresh ones; "
                       "non-trivial = distinct (case, plan) on which both runs agree and at least four notifications "
                       "were recorded")
    chk.cov["input_distribution"] = hist
    chk.add_samples(samples)
    if pipes:
        chk.add_samples([{"operator": pipes[0].to_json(), "plan": "interleaved",
                          "shared_operator_value": ac.run_c44(pipes[0], True, "interleaved")}], limit=6)
    return chk.finish(
        trusted_extra=["translator harness/translate/alloc_tr.py (fail-closed below subscription level; grammar, "
                       "level rules and allowlists in its header; assumptions A1-A3); cross-checked on every run "
                       "by the differential run, which does not use it",
                       "reading of the table as a levelled program (Ops/Closure.v described_by)",
                       "compositionality: a public function called inside another one contributes through its own "
                       "rows (the table check covers all rows)"],
        assumptions=["the arguments given to the factory (callbacks, observables, iterables, a subject handed to "
                     "multicast(subject=...)) are the caller's: state inside them is shared by construction and is "
                     "not what the property is about (stateless callbacks, cold argument observables, re-iterable "
                     "iterables are used)",
                     "to_future is applied, not subscribed: it returns a Future per application (no recipe)",
                     "allowlisted benign factory-level write: skip_last_with_time's idempotent "
                     "duration = to_timedelta(duration) (pinned by C44_benign_sites)"])


def replay(chk, path):
    d = json.load(open(path))
    if d.get("family") == "shared_vs_fresh":
        from props.C04 import drive_closure
        h = [tuple(e) for e in d["history"]]
        shared, _ = drive_closure(d["which"], d["count"], h)
        ref, _ = drive_closure(d["which"], d["count"], h, fresh=True)
        print("history:", h)
        print("one operator value :", shared)
        print("fresh per application:", ref)
        if shared != ref:
            print(f"VIOLATION property=C44 replay={path}")
        return 0 if shared == ref else 1
    if "case" not in d:
        print(json.dumps(d, indent=1)[:6000])
        return 1
    R = ac.recipes()
    r = ac.rebuild(R, d["case"])
    plan = d["plan"]
    if not isinstance(plan, str):
        plan = (plan[0], tuple(plan[1]), tuple(plan[2]))
    v, sh, fr = one(r, plan)
    print("one shared operator value:      ", json.dumps(sh, default=repr)[:2500])
    print("fresh operator value per source:", json.dumps(fr, default=repr)[:2500])
    print("identical" if v == "ok" else "DIFFERENT" if v == "diff" else v)
    if v != "ok":
        print(f"VIOLATION property=C44 replay={path}")
    return 0 if v == "ok" else 1
