"""C10 -- see DESIGN.md section 7/C10.  Machines: Ops/Combinators.v on the runner
Ops/Multi.v; tie: K2 multi-source port-level replay (harness/k2m.py); oracle:
harness/comb_oracle.py (direct reading of the property statement)."""
import comb_oracle
import comb_table
import lib

NAMES = {"C10": ["concat", "for_in", "catch", "catch_handler", "on_error_resume_next", "repeat", "retry", "while_do", "do_while"],
         "C11": ["merge", "flat_map", "flat_map_indexed", "merge_all", "concat_map", "merge_mc"],
         "C12": ["switch_map", "switch_map_indexed", "flat_map_latest", "switch_latest"],
         "C13": ["zip", "combine_latest", "with_latest_from", "fork_join", "amb"]}["C10"]
ORACLE = getattr(comb_oracle, "oracle_" + "C10".lower())


def run(chk):
    chk.build_and_prove()
    comb_table.run_ops(chk, "C10", NAMES, ORACLE)
    chk.cov["rule"] = ("per operator: seeded instances (source counts 1-3, callback tables indexed by invocation, "
                       "20% raising) x seeded interleavings of hand-driven hot sources (0-4 elements each, "
                       "completion/error/none, 15% non-conforming tails, 15% with a dispose instant, same-instant "
                       "events); non-trivial = distinct (machine, delivered input sequence) with >= 2 emissions and "
                       "the oracle satisfied")
    chk.cov["operators_modelled"] = NAMES
    return chk.finish(trusted_extra=["multi-source K2 driver harness/k2m.py (hot sources, boundary log, canonical "
                                     "per-instant ordering of subscribe/unsubscribe events)",
                                     "runner assumption (Ops/Multi.v): the disposable an operator returns holds every "
                                     "subscription it opened -- checked here by comparing unsubscribe instants"])


def replay(chk, path):
    import json
    rep = json.load(open(path))
    if rep.get("family") == "cold_scenarios":
        bad = _cold_check(rep["case"])
        if bad:
            print(json.dumps({"case": rep["case"], "got": bad[0], "expected": bad[1], "status": bad[2]},
                             indent=1, default=repr))
            print(f"VIOLATION property=C10 replay={path}")
            return 1
        print(f"[C10] replay {path}: implementation agrees with the reference semantics on this case")
        return 0
    if "rerun" in rep:
        v, gi, gt = comb_table.rerun_case(rep["rerun"], ORACLE)
        if v:
            print(json.dumps({"operator": rep["operator"], "machine": rep["machine"], "inputs (now, event)": gi,
                              "observed trace": gt, "what": v}, indent=1))
            print(f"VIOLATION property=C10 replay={path}")
            return 1
        print(f"[C10] replay {path}: the oracle is satisfied on this case now")
        return 0
    print(open(path).read())
    return 1


# ---- oracle-only scenarios: cold synchronous sources and non-trampolining schedulers ------------
# case = {"op", "scheduler": "trampoline" | "immediate", "sources": [{"kind", "xs", "end", "factory"?}], "count",
#         "cond": [True | False | "raise", ...], "raise_at": int | None, "handler": "ok" | "raise"}
#   source kinds: "cold" (library from_iterable [+ throw], runs on the scheduler passed to subscribe),
#                 "sync" (own Observable: emits xs and terminates directly inside subscribe()),
#                 "hot" (Subject, fed after subscribe() in source order), "future" (a resolved / failed
#                 concurrent.futures.Future: one element + completion, or an error)
# Side effects of the callbacks the operators take (lazy iterables, for_in's mapper, on_error_resume_next's
# factories, while_do's condition, catch's handler) are written INTO the output sequence as marker tuples, so
# that their position relative to the elements -- i.e. laziness and order -- is part of what is compared.
COLD_OPS = ["concat", "concat_lazy", "start_with", "catch", "catch_lazy", "oern", "repeat", "retry", "while_do",
            "do_while", "for_in", "catch_handler"]


def _expected(case):
    """reference semantics: the property text executed over per-source (elements, terminal)"""
    op = case["op"]
    seqs = [(s["xs"], s["end"]) for s in case["sources"]]
    n = len(seqs)
    out = []
    if op in ("concat", "concat_lazy", "start_with", "for_in"):
        for j, (xs, t) in enumerate(seqs):
            if op in ("concat_lazy", "for_in"):
                out.append(["produce", j])
                if op == "for_in" and case.get("raise_at") == j:
                    return out, "E"
            out += xs
            if t == "E":
                return out, "E"
            if t is None:
                return out, None
        if op == "concat_lazy":
            out.append(["produce", n])
        return out, "C"
    if op in ("catch", "catch_lazy"):
        for j, (xs, t) in enumerate(seqs):
            if op == "catch_lazy":
                out.append(["produce", j])
            out += xs
            if t == "C":
                return out, "C"
            if t is None:
                return out, None
        if op == "catch_lazy":
            out.append(["produce", n])
        return out, ("E" if n else "C")
    if op == "oern":
        prev = None
        for k, (xs, t) in enumerate(seqs):
            if case["sources"][k].get("factory"):
                out.append(["factory", k, prev])
            out += xs
            if t is None:
                return out, None
            prev = "E" if t == "E" else None
        return out, "C"
    if op == "repeat":
        xs, t = seqs[0]
        for _ in range(case["count"]):
            out += xs
            if t != "C":
                return out, t
        return out, "C"
    if op == "retry":
        xs, t = seqs[0]
        for i in range(case["count"]):
            out += xs
            if t != "E":
                return out, t
        return out, ("E" if case["count"] > 0 else "C")
    if op in ("while_do", "do_while"):
        xs, t = seqs[0]
        if op == "do_while":
            out += xs
            if t != "C":
                return out, t
        j = 0
        while True:
            out.append(["cond", j])
            c = case["cond"][j] if j < len(case["cond"]) else False
            j += 1
            if c == "raise":
                return out, "E"
            if not c:
                return out, "C"
            out += xs
            if t != "C":
                return out, t
    if op == "catch_handler":
        xs, t = seqs[0]
        out += xs
        if t != "E":
            return out, t
        out.append(["handler", "source error", "source"])
        if case["handler"] == "raise":
            return out, "E"
        xs, t = seqs[1]
        return out + xs, t
    raise AssertionError(op)


def _cold_gen(rng):
    op = rng.choice(COLD_OPS)
    case = {"op": op, "scheduler": rng.choice(["trampoline", "immediate"]), "count": None}
    single = op in ("repeat", "retry", "while_do", "do_while")
    if single:
        nsrc = 1
    elif op == "catch_handler":
        nsrc = 2
    elif op == "start_with":
        nsrc = 2
    else:
        nsrc = rng.choice([0, 1, 2, 2, 3, 3, 3])
    srcs = []
    for i in range(nsrc):
        kinds = ["cold", "sync"] if single else ["cold", "sync", "hot"]
        if op == "oern" or (op == "catch_handler" and i == 1) or (op == "while_do" and rng.random() < 0.2):
            kinds = kinds + ["future"]
        kind = rng.choice(kinds)
        if kind == "future":
            failed = rng.random() < 0.4
            srcs.append({"kind": kind, "xs": [] if failed else [rng.randrange(10)], "end": "E" if failed else "C"})
            if op == "while_do":
                srcs = srcs[-1:]
            continue
        xs = [rng.randrange(10) for _ in range(rng.choice([0, 1, 2, 3]))]
        t = rng.choice(["C", "C", "E"] + ([None] if kind == "hot" else []))
        srcs.append({"kind": kind, "xs": xs, "end": t})
    if op == "start_with":
        srcs[0] = {"kind": "sync", "xs": srcs[0]["xs"], "end": "C"}
    if op == "oern":
        for s in srcs:
            s["factory"] = rng.random() < 0.5
    if op in ("repeat", "retry"):
        case["count"] = rng.choice([0, 1, 2, 3])
    if op in ("while_do", "do_while"):
        case["cond"] = [rng.choice([True, True, True, False, "raise"] if rng.random() < 0.3 else [True, True, False])
                        for _ in range(rng.choice([0, 1, 2, 3]))]
    if op == "for_in":
        case["raise_at"] = rng.randrange(nsrc) if nsrc and rng.random() < 0.15 else None
    if op == "catch_handler":
        case["handler"] = "raise" if rng.random() < 0.25 else "ok"
    case["sources"] = srcs
    return case


def _cold_run(case):
    import concurrent.futures
    import reactivex as rx
    from reactivex import operators as ops
    from reactivex.disposable import Disposable
    from reactivex.scheduler import ImmediateScheduler
    from reactivex.subject import Subject
    import k2
    op = case["op"]
    sched = ImmediateScheduler() if case["scheduler"] == "immediate" else None
    specs = case["sources"]
    out, term = [], []
    subjects, obs_list, errors = [], [], []
    for k, sp in enumerate(specs):
        err = k2.UserError(15)
        errors.append(err)
        subjects.append(None)
        if sp["kind"] == "cold":
            parts = [rx.from_iterable(list(sp["xs"]))]
            if sp["end"] == "E":
                parts.append(rx.throw(err))
            obs_list.append(rx.concat(*parts) if len(parts) > 1 else parts[0])
        elif sp["kind"] == "sync":
            def subscribe(observer, scheduler=None, sp=sp, err=err):
                for x in sp["xs"]:
                    observer.on_next(x)
                if sp["end"] == "E":
                    observer.on_error(err)
                elif sp["end"] == "C":
                    observer.on_completed()
                return Disposable()
            obs_list.append(rx.Observable(subscribe))
        elif sp["kind"] == "future":
            f = concurrent.futures.Future()
            if sp["end"] == "E":
                f.set_exception(err)
            else:
                f.set_result(sp["xs"][0])
            obs_list.append(f)
        else:
            subjects[-1] = Subject()
            obs_list.append(subjects[-1])

    def lazy():
        def gen():
            for j, o in enumerate(obs_list):
                out.append(["produce", j])
                yield o
            out.append(["produce", len(obs_list)])
        return gen()

    if op == "concat":
        o = rx.concat(*obs_list)
    elif op == "concat_lazy":
        o = rx.concat_with_iterable(lazy())
    elif op == "start_with":
        o = obs_list[1].pipe(ops.start_with(*specs[0]["xs"]))
    elif op == "catch":
        o = rx.catch(*obs_list)
    elif op == "catch_lazy":
        o = rx.catch_with_iterable(lazy())
    elif op == "oern":
        def factory(k):
            def f(ex):
                if ex is None:
                    what = None
                elif k > 0 and ex is errors[k - 1]:
                    what = "E"
                else:
                    what = f"unexpected argument {ex!r}"
                out.append(["factory", k, what])
                return obs_list[k]
            return f
        o = rx.on_error_resume_next(*[factory(k) if sp.get("factory") else obs_list[k]
                                      for k, sp in enumerate(specs)])
    elif op == "repeat":
        o = obs_list[0].pipe(ops.repeat(case["count"]))
    elif op == "retry":
        o = obs_list[0].pipe(ops.retry(case["count"]))
    elif op in ("while_do", "do_while"):
        calls = [0]

        def cond(src):
            j = calls[0]
            calls[0] += 1
            out.append(["cond", j])
            c = case["cond"][j] if j < len(case["cond"]) else False
            if c == "raise":
                raise k2.UserError(16)
            return c
        o = (ops.do_while if op == "do_while" else ops.while_do)(cond)(obs_list[0])
    elif op == "for_in":
        def mapper(j):
            out.append(["produce", j])
            if case.get("raise_at") == j:
                raise k2.UserError(16)
            return obs_list[j]
        o = rx.for_in(range(len(obs_list)), mapper)
    elif op == "catch_handler":
        def handler(e, src):
            out.append(["handler", "source error" if e is errors[0] else f"unexpected {e!r}",
                        "source" if src is obs_list[0] else "not the source"])
            if case["handler"] == "raise":
                raise k2.UserError(16)
            return obs_list[1]
        o = obs_list[0].pipe(ops.catch(handler))
    else:
        raise AssertionError(op)
    o.subscribe(out.append, lambda e: term.append("E"), lambda: term.append("C"), scheduler=sched)
    for k, (sp, s) in enumerate(zip(specs, subjects)):
        if s is None:
            continue
        for x in sp["xs"]:
            s.on_next(x)
        if sp["end"] == "C":
            s.on_completed()
        elif sp["end"] == "E":
            s.on_error(errors[k])
    return out, term


def _cold_check(case):
    """None if the implementation agrees with the reference, else (got, expected, status)"""
    exp = _expected(case)
    status, r = lib.with_timeout(10, _cold_run, case)
    if status != "ok":
        return (None, list(exp), status)
    out, term = r
    got = (out, term[0] if term else None)
    if got != exp or len(term) > 1:
        return ([out, term], list(exp), status)
    return None


def cold_scenarios(chk):
    n = 600 if chk.tier == "quick" else 4000
    hist = {}
    nontrivial = set()
    for _ in range(n):
        case = _cold_gen(chk.rng)
        op, sched_kind, specs = case["op"], case["scheduler"], case["sources"]
        chk.cov["evaluations"] += 1
        key = f"{op}/{sched_kind}/" + "+".join(s["kind"] for s in specs)
        hist[key] = hist.get(key, 0) + 1
        bad = _cold_check(case)
        if bad:
            chk.violation(f"C10|cold|{op}|{sched_kind}|{'+'.join(s['kind'] for s in specs)}",
                          {"family": "cold_scenarios", "case": case, "got": bad[0], "expected": bad[1],
                           "status": bad[2],
                           "oracle": "concatenation of the consumed sources' elements with the operator's "
                                     "continuation rule; marker tuples = calls of the lazy iterable / mapper / "
                                     "factory / condition / handler at that point of the output"},
                          size=sum(len(s["xs"]) for s in specs) + len(specs))
        elif len(_expected(case)[0]) >= 2:
            nontrivial.add(repr(case))
    return nontrivial, hist


_run_machines = run


def run(chk):           # machines + correspondence + oracle, then the cold/synchronous scenarios
    chk_finish = chk.finish
    holder = {}

    def deferred_finish(*a, **kw):
        holder["args"] = (a, kw)
        return 0
    chk.finish = deferred_finish
    _run_machines(chk)
    chk.finish = chk_finish
    nt, hist = cold_scenarios(chk)
    chk.cov["distinct_nontrivial"] += len(nt)
    by_op = {}
    for k, v in hist.items():
        by_op[k.split("/")[0]] = by_op.get(k.split("/")[0], 0) + v
    chk.cov["input_distribution"]["cold_sync_scenarios"] = {"per_operator": by_op, "cases": sum(hist.values()),
                                                            "distinct_shapes": len(hist)}
    chk.cov["rule"] += ("; plus oracle-only scenarios (cold_scenarios): concat / concat_with_iterable(lazy generator) / "
                        "start_with / catch / catch_with_iterable(lazy generator) / on_error_resume_next (plain, "
                        "factory and Future arguments) / repeat / retry / while_do / do_while / for_in / "
                        "catch(handler) over 0-3 sources mixing library cold sources, sources terminating directly "
                        "inside subscribe(), hot subjects and resolved Futures, on the default trampoline and on "
                        "ImmediateScheduler; calls of the lazy iterable, for_in's mapper, the factories (with the "
                        "argument they receive), the condition and the handler (with its arguments) are written "
                        "into the compared output as markers, so laziness and order are judged")
    a, kw = holder["args"]
    return chk.finish(*a, **kw)
