"""C10 -- see DESIGN.md section 7/C10.  Machines: Ops/Combinators.v on the runner
Ops/Multi.v; tie: K2 multi-source port-level replay (harness/k2m.py); oracle:
harness/comb_oracle.py (direct reading of the property statement)."""
import comb_oracle
import comb_table
import lib

NAMES = {"C10": ["concat", "catch", "catch_handler", "on_error_resume_next", "repeat", "retry", "while_do", "do_while"],
         "C11": ["merge", "flat_map", "flat_map_indexed", "merge_all", "concat_map", "merge_mc"],
         "C12": ["switch_map", "switch_map_indexed", "flat_map_latest", "switch_latest"],
         "C13": ["zip", "combine_latest", "with_latest_from", "fork_join", "amb"]}["C10"]
ORACLE = getattr(comb_oracle, "oracle_" + "C10".lower())


def run(chk):
    chk.build_and_prove()
    comb_table.run_ops(chk, "C10", NAMES, ORACLE)
    chk.cov["rule"] = ("per operator: seeded instances (source counts 1-3, callback tables indexed by invocation, "
                       "20% raising) x seeded interleavings of hand-driven hot sources (0-4 elements each, "
                       "completion/error/none, 15% non-conforming tails, 15% with a dispose instant, same-instant "
                       "events); non-trivial = distinct (machine, delivered input sequence) with >= 2 emissions and "
                       "the oracle satisfied")
    chk.cov["operators_modelled"] = NAMES
    return chk.finish(trusted_extra=["multi-source K2 driver harness/k2m.py (hot sources, boundary log, canonical "
                                     "per-instant ordering of subscribe/unsubscribe events)",
                                     "runner assumption (Ops/Multi.v): the disposable an operator returns holds every "
                                     "subscription it opened -- checked here by comparing unsubscribe instants"])


def replay(chk, path):
    print(open(path).read())
    return 1


# ---- oracle-only scenarios: cold synchronous sources and non-trampolining schedulers ------------
def _expected(op, seqs, count=None):
    """reference semantics over per-source (elements, terminal) with terminal in 'C','E',None"""
    out = []
    if op in ("concat", "start_with"):
        for xs, t in seqs:
            out += xs
            if t == "E":
                return out, "E"
            if t is None:
                return out, None
        return out, "C"
    if op == "catch":
        for i, (xs, t) in enumerate(seqs):
            out += xs
            if t == "C":
                return out, "C"
            if t is None:
                return out, None
        return out, "E"
    if op == "oern":
        for xs, t in seqs:
            out += xs
            if t is None:
                return out, None
        return out, "C"
    if op == "repeat":
        xs, t = seqs[0]
        for _ in range(count):
            out += xs
            if t != "C":
                return out, t
        return out, "C"
    if op == "retry":
        xs, t = seqs[0]
        for i in range(count):
            out += xs
            if t != "E":
                return out, t
        return out, ("E" if count > 0 else "C")
    raise AssertionError(op)


def cold_scenarios(chk):
    import reactivex as rx
    from reactivex import operators as ops
    from reactivex.scheduler import ImmediateScheduler
    from reactivex.subject import Subject
    import k2
    n = 120 if chk.tier == "quick" else 1500
    hist = {}
    nontrivial = set()
    for _ in range(n):
        op = chk.rng.choice(["concat", "start_with", "catch", "oern", "repeat", "retry"])
        sched_kind = chk.rng.choice(["trampoline", "immediate"])
        sched = ImmediateScheduler() if sched_kind == "immediate" else None
        nsrc = 1 if op in ("repeat", "retry") else chk.rng.choice([2, 3])
        specs = []
        for i in range(nsrc):
            kind = "cold" if op in ("repeat", "retry") else chk.rng.choice(["cold", "hot"])
            xs = [chk.rng.randrange(10) for _ in range(chk.rng.choice([0, 1, 2, 3]))]
            t = chk.rng.choice(["C", "C", "E"] + ([None] if kind == "hot" else []))
            specs.append((kind, xs, t))
        if op == "start_with":
            specs[0] = ("cold", specs[0][1], "C")
            specs = specs[:2]
        count = chk.rng.choice([0, 1, 2, 3]) if op in ("repeat", "retry") else None
        subjects = []
        obs_list = []
        for kind, xs, t in specs:
            if kind == "cold":
                parts = [rx.from_iterable(list(xs))]
                if t == "E":
                    parts.append(rx.throw(k2.UserError(15)))
                o = rx.concat(*parts) if len(parts) > 1 else parts[0]
                obs_list.append(o)
                subjects.append(None)
            else:
                s = Subject()
                subjects.append(s)
                obs_list.append(s)
        if op == "concat":
            o = rx.concat(*obs_list)
        elif op == "start_with":
            o = obs_list[1].pipe(ops.start_with(*specs[0][1]))
        elif op == "catch":
            o = rx.catch(*obs_list)
        elif op == "oern":
            o = rx.on_error_resume_next(*obs_list)
        elif op == "repeat":
            o = obs_list[0].pipe(ops.repeat(count))
        else:
            o = obs_list[0].pipe(ops.retry(count))
        out, term = [], []
        status, _ = lib.with_timeout(10, lambda: o.subscribe(out.append, lambda e: term.append("E"),
                                                              lambda: term.append("C"), scheduler=sched))
        for (kind, xs, t), s in zip(specs, subjects):
            if s is None:
                continue
            for x in xs:
                s.on_next(x)
            if t == "C":
                s.on_completed()
            elif t == "E":
                s.on_error(k2.UserError(15))
        chk.cov["evaluations"] += 1
        key = f"{op}/{sched_kind}/" + "+".join(k for k, _, _ in specs)
        hist[key] = hist.get(key, 0) + 1
        seqs = [(xs, t) for _, xs, t in specs]
        exp = _expected(op, seqs, count)
        got = (out, term[0] if term else None)
        if status != "ok" or got != exp or len(term) > 1:
            chk.violation(f"C10|cold|{op}|{sched_kind}|{'+'.join(k for k, _, _ in specs)}",
                          {"operator": op, "scheduler": sched_kind, "count": count,
                           "sources (kind, elements, terminal)": specs, "got": got, "expected": exp,
                           "status": status,
                           "oracle": "concatenation of the consumed sources' elements with the operator's "
                                     "continuation rule"}, size=sum(len(x) for _, x, _ in specs) + nsrc)
        elif len(out) >= 2:
            nontrivial.add(repr((op, sched_kind, specs, count)))
    return nontrivial, hist


_run_machines = run


def run(chk):           # machines + correspondence + oracle, then the cold/synchronous scenarios
    import lib as _lib
    chk_finish = chk.finish
    holder = {}

    def deferred_finish(*a, **kw):
        holder["args"] = (a, kw)
        return 0
    chk.finish = deferred_finish
    _run_machines(chk)
    chk.finish = chk_finish
    nt, hist = cold_scenarios(chk)
    chk.cov["distinct_nontrivial"] += len(nt)
    chk.cov["input_distribution"]["cold_sync_scenarios"] = hist
    chk.cov["rule"] += ("; plus oracle-only scenarios: concat/start_with/catch/on_error_resume_next/repeat/retry over "
                        "mixes of cold synchronous sources (terminating inside subscribe) and hot subjects, on the "
                        "default trampoline and on ImmediateScheduler")
    a, kw = holder["args"]
    return chk.finish(*a, **kw)
