"""C20 -- see harness/subj.py (driver, oracle, generators shared by C20/C21/C23) and
coq/theories/Props/C20.v.  K1 correspondence: the real class is driven with generated call
trees (exhaustive small scopes + seeded random, re-entrant ones and falsy values included);
Coq evaluates the Gallina model on the same trees (vm_compute) and compares the complete
logs; an independent oracle states the property on the implementation's records.
Error payloads include a FALSY exception object (code 13, `__len__` returns 0); subscribers use four
equivalent full forms (observer object / positional callbacks / keyword callbacks / reactivex Observer);
an oracle-only family subscribes with PARTIAL callback forms (on_next only, ...: the library's default
on_error raises) and compares with the same run made with observer objects."""
import subj


def run(chk):
    return subj.check_sync(chk, "C20")


def replay(chk, path):
    return subj.replay_sync(chk, "C20", path)
