"""C38 -- marble diagrams mean what the documented syntax says.

Theorems (Props/C38.v): for every well-formed diagram written with spaces anywhere,
parse = the diagram's meaning (frame = index of the first character, group members at
the opening parenthesis, rejection after a terminal when asked); for ALL strings:
nothing after a terminal under raise_stopped, timestamps never decrease; a
virtual-time scheduler delivers the parsed messages unchanged (cold) / those due
strictly after the subscription (hot).

Tie (K1): generated diagrams (structured + a malformed stream) x raise_stopped x int/float
timespans and shifts x lookups, through the real reactivex.observable.marbles.parse,
reactivex.from_marbles on a TestScheduler, and testing.marbles cold()/hot(); the model
(Ops/Marbles.v + the int()/float() reading of Ops/MarbleNumbers.v, PrimFloat for float
arithmetic) must reproduce times bit-exactly, values, and the ValueError kind.
Oracle: an independent direct Python reading of the documented syntax (no regex):
positions counted by hand on the space-free text.

Oracle-only families (no Coq counterpart):
* timedelta: parse(s, timedelta(seconds=ts), timedelta(seconds=shift)) must equal parse(s, ts, shift) (either or
  both arguments as timedelta; also multi-day timespans and negative shifts); from_marbles / cold with a timedelta
  timespan deliver like the float one;
* public reactivex.cold / reactivex.from_marbles called directly on a TestScheduler (scheduler given to the factory
  or to subscribe()), ONE observable subscribed at two instants (overlapping or not): each subscription receives the
  parsed messages shifted by its own subscription time;
* public reactivex.hot called directly on a TestScheduler with duetime as float / int / timedelta / datetime / default,
  several observers subscribing before / in the middle of / after the diagram, one disposing mid-diagram, one
  disposing itself from inside its k-th on_next: every observer receives exactly the parsed messages due while it was
  subscribed (a message due AT its subscription or disposal instant may or may not arrive; a late subscriber may or
  may not be told the terminal)."""
import datetime as dt
import json
import math
import random

import lib

IMPORTS = "Base.Prelude Ops.Marbles Ops.MarbleNumbers"
PRELUDE = """
From Coq Require Import List String ZArith PrimFloat.
Import ListNotations.
Open Scope string_scope.
Definition model (kc : nat * pcase) : perr + list (pytime * notif pyval) :=
  match fst kc with
  | O => parse_case (snd kc)
  | S O => cold_case (snd kc)
  | _ => hot_case (snd kc)
  end.
Definition out_eqb (a b : perr + list (pytime * notif pyval)) : bool := supported a && res_same a b.
"""

ERR = RuntimeError("marble-error")
# lookup targets include FALSY values (0, 0.0, "", None, [], {}): a lookup hit must win even then (C08)
TARGETS = [object(), object(), "mapped", 99, 2.5, 0, 0.0, "", None, [], {}]


def lk_json(lookup):
    return [[k, next(i for i, t in enumerate(TARGETS) if t is v)] for k, v in lookup.items()]


def lk_py(j):
    return {k: TARGETS[i] for k, i in j}


def td(x):
    return dt.timedelta(seconds=x)


# --------------------------------------------------------------------------
# Gallina printers
# --------------------------------------------------------------------------

def gstr(s):
    assert all(32 <= ord(ch) < 127 for ch in s), repr(s)
    return '"' + s.replace('"', '""') + '"'


def gfloat(x):
    if math.isnan(x):
        return "nan"
    if math.isinf(x):
        return "infinity" if x > 0 else "neg_infinity"
    h = x.hex()
    return f"(PrimFloat.opp {h[1:]})%float" if h.startswith("-") else f"({h})%float"


def gtime(t):
    if isinstance(t, bool):
        raise AssertionError(t)
    if isinstance(t, int):
        return f"(TI {lib.gz(t)})"
    return f"(TF {gfloat(float(t))})"


class Objs:
    def __init__(self):
        self.ids = {}

    def gval(self, v):
        if isinstance(v, bool):
            raise AssertionError("bool value")
        if isinstance(v, int):
            return f"(PInt {lib.gz(v)})"
        if isinstance(v, float):
            return f"(PFloat {gfloat(v)})"
        if isinstance(v, str):
            return f"(PStr (s2l {gstr(v)}))"
        return f"(PObj {self.ids.setdefault(id(v), len(self.ids))})"


def gresult(res, objs):
    """res: ('err', kind) | ('ok', [(time, kind, value)])"""
    if res[0] == "err":
        return {"comma": "(inl ErrComma)", "stopped": "(inl ErrStopped)"}.get(res[1], "(inl ErrComma) (* ? *)")
    items = []
    for (t, k, v) in res[1]:
        n = {"N": lambda: f"(NNext {objs.gval(v)})", "E": lambda: "NError", "C": lambda: "NCompleted"}[k]()
        items.append(f"({gtime(t)}, {n})")
    return "(inr [" + "; ".join(items) + "])"


def gcase(kind, rs, ts, shift, lookup, s, objs):
    lk = "[" + "; ".join(f"({objs.gval(k)}, {objs.gval(v)})" for k, v in lookup.items()) + "]"
    return f"({kind}%nat, mkpcase {lib.gbool(rs)} {gtime(ts)} {gtime(shift)} {lk} {gstr(s)})"


# --------------------------------------------------------------------------
# running the implementation
# --------------------------------------------------------------------------

def err_kind(e):
    m = str(e)
    if "Comma" in m:
        return "comma"
    if "cannot be declared after" in m:
        return "stopped"
    return "other:" + m[:60]


def notif_tuple(t, n, problems):
    if n.kind == "N":
        return (t, "N", n.value)
    if n.kind == "E":
        if n.exception is not ERR:
            problems.append(f"on_error carries {n.exception!r}, not the error passed to parse")
        return (t, "E", None)
    return (t, "C", None)


def run_parse(s, ts, shift, lookup, rs):
    from reactivex.observable.marbles import parse
    problems = []
    try:
        ms = parse(s, timespan=ts, time_shift=shift, lookup=lookup, error=ERR, raise_stopped=rs)
    except ValueError as e:
        return ("err", err_kind(e)), problems
    return ("ok", [notif_tuple(t, n, problems) for t, n in ms]), problems


def run_cold(s, ts, lookup, via):
    """cold delivery on a TestScheduler: via 'from_marbles' (scheduler given) or 'testing.cold'"""
    import reactivex
    from reactivex.testing import TestScheduler
    from reactivex.testing.marbles import marbles_testing
    problems = []
    try:
        if via == "from_marbles":
            S = TestScheduler()
            obs = reactivex.from_marbles(s, timespan=ts, lookup=lookup, error=ERR, scheduler=S)
            rec = S.start(lambda: obs, created=100.0, subscribed=200.0, disposed=100000.0).messages
        else:
            with marbles_testing(timespan=ts) as (start, cold, hot, exp):
                rec = start(cold(s, lookup, ERR))
    except ValueError as e:
        return ("err", err_kind(e)), problems
    return ("ok", [notif_tuple(r.time, r.value, problems) for r in rec]), problems


def run_hot(s, ts, lookup):
    from reactivex.testing.marbles import marbles_testing
    problems = []
    try:
        with marbles_testing(timespan=ts) as (start, cold, hot, exp):
            rec = start(hot(s, lookup, ERR))
    except ValueError as e:
        return ("err", err_kind(e)), problems
    return ("ok", [notif_tuple(r.time, r.value, problems) for r in rec]), problems


# --------------------------------------------------------------------------
# generators
# --------------------------------------------------------------------------

VALUES = ["a", "b", "ab", "xyz", "1", "12", "007", "1.5", ".5", "5.", "1e2", "2E-3", "inf", "nan", "Infinity",
          "1_0", "0x1", "a.b", "a1", "+7", "1e", "e5", "1__0", "0.1", "123456789012345", "0.3", "9007199254740991", "1e22", "1.797693134862315",
          "^", "*", "a_b", "?", "a'b", 'q"r', "[x]", "{y}", "~"]
GROUP_ONLY = ["-5", "a-b", "", "|", "#", "a|b", "-1.5", "-inf", "(", "-"]


def gen_ast(rng, allow_after_terminal):
    items, last = [], None
    n = rng.randrange(0, 7)
    terminated = False
    for _ in range(n):
        kinds = ["ticks", "elem", "group", "end", "err"]
        w = [4, 4, 2, 0.6, 0.5]
        k = rng.choices(kinds, w)[0]
        if k == last and k in ("ticks", "elem"):
            k = "group" if rng.random() < 0.3 else ("ticks" if k == "elem" else "elem")
        if terminated and not allow_after_terminal and k != "ticks":
            k = "ticks" if last != "ticks" else None
        if k is None:
            continue
        if k == "ticks":
            items.append(("ticks", rng.randrange(1, 5)))
        elif k == "elem":
            items.append(("elem", rng.choice(VALUES)))
        elif k == "group":
            m = rng.randrange(1, 4)
            es = [rng.choice(VALUES + GROUP_ONLY if not (terminated and not allow_after_terminal) else [""])
                  for _ in range(m)]
            if any(e in ("|", "#") for e in es) and not allow_after_terminal:
                # keep at most one terminal, at the end
                es = [e for e in es if e not in ("|", "#")] + [rng.choice(["|", "#"])]
                terminated = True
            elif any(e in ("|", "#") for e in es):
                terminated = True
            if terminated and not allow_after_terminal and es == [""]:
                continue    # an empty group after a terminal: the statement is silent, keep it for 'after' cases
            items.append(("group", es))
        elif k == "end":
            items.append(("end",))
            terminated = True
        else:
            items.append(("err",))
            terminated = True
        last = k
    return items


def render_item(it):
    if it[0] == "ticks":
        return "-" * it[1]
    if it[0] == "elem":
        return it[1]
    if it[0] == "end":
        return "|"
    if it[0] == "err":
        return "#"
    return "(" + ",".join(it[1]) + ")"


def with_spaces(rng, s):
    if rng.random() < 0.4:
        return s
    out = []
    for ch in s:
        while rng.random() < 0.15:
            out.append(" ")
        out.append(ch)
    while rng.random() < 0.2:
        out.append(" ")
    return "".join(out)


def to_value(e, lookup):
    """documented: 'numbers will be cast to int or float', then the lookup"""
    try:
        v = int(e)
    except ValueError:
        try:
            v = float(e)
        except ValueError:
            v = e
    return lookup.get(v, v)


def reading_of_ast(items, ts, shift, lookup):
    """direct reading of a diagram: (messages, marble_after_terminal?, only_empty_group_after_terminal?)"""
    pos, msgs = 0, []
    terminated = after = empty_after = False

    def emit(e):
        nonlocal terminated, after
        if terminated:
            after = True
        t = pos * ts + shift
        if e == "|":
            msgs.append((t, "C", None))
            terminated = True
        elif e == "#":
            msgs.append((t, "E", None))
            terminated = True
        else:
            msgs.append((t, "N", to_value(e, lookup)))

    for it in items:
        if it[0] == "group":
            if terminated and all(e == "" for e in it[1]):
                empty_after = True
            for e in it[1]:
                if e != "":
                    emit(e)
        elif it[0] != "ticks":
            emit(render_item(it))
        pos += len(render_item(it))
    return msgs, after, empty_after


def scan_documented(s):
    """independent recogniser of the documented syntax on an arbitrary string: the item list, or None
    (unbalanced / nested parentheses, comma outside a group)"""
    t = s.replace(" ", "")
    items, i = [], 0
    while i < len(t):
        ch = t[i]
        if ch == "-":
            j = i
            while j < len(t) and t[j] == "-":
                j += 1
            items.append(("ticks", j - i))
            i = j
        elif ch == "|":
            items.append(("end",))
            i += 1
        elif ch == "#":
            items.append(("err",))
            i += 1
        elif ch == "(":
            j = t.find(")", i)
            if j < 0 or "(" in t[i + 1:j] or "\n" in t[i + 1:j]:
                return None
            items.append(("group", t[i + 1:j].split(",")))
            i = j + 1
        elif ch in "),":
            return None
        else:
            j = i
            while j < len(t) and t[j] not in "-|#(),":
                j += 1
            items.append(("elem", t[i:j]))
            i = j
    return items


def same_msgs(a, b):
    if len(a) != len(b):
        return False
    for (t1, k1, v1), (t2, k2, v2) in zip(a, b):
        if k1 != k2 or type(t1) is not type(t2) or not (t1 == t2):
            return False
        if k1 == "N":
            if isinstance(v1, float) and isinstance(v2, float):
                if not (v1 == v2 or (v1 != v1 and v2 != v2)):
                    return False
            elif type(v1) is not type(v2) or v1 is not v2 and v1 != v2:
                return False
    return True


def jmsgs(ms):
    return [[t, k, (repr(v) if k == "N" else None)] for t, k, v in ms]


# --------------------------------------------------------------------------
# oracle-only families; each takes a JSON-able dict (the replay dict) and returns None or what is wrong
# --------------------------------------------------------------------------

def fmsgs(ms):
    return [(float(t), k, v) for t, k, v in ms]


def fam_timedelta_parse(d):
    """parse with timedelta arguments == parse with the same number of seconds"""
    lookup = lk_py(d["lookup"])
    ts, shift, how = d["timespan"], d["time_shift"], d["how"]
    base, _ = run_parse(d["string"], float(ts), float(shift), lookup, d["raise_stopped"])
    a = td(ts) if how in ("both", "timespan") else ts
    b = td(shift) if how in ("both", "time_shift") else shift
    got, problems = run_parse(d["string"], a, b, lookup, d["raise_stopped"])
    if problems:
        return problems[0]
    if base[0] == "err" or got[0] == "err":
        return None if base == got else f"with timedelta arguments: {got}, with seconds: {base}"
    if not same_msgs(fmsgs(got[1]), fmsgs(base[1])):
        return (f"parse(timespan={a!r}, time_shift={b!r}) = {jmsgs(got[1])}, with the same seconds as numbers "
                f"{jmsgs(base[1])}")
    return None


def recorder(S, rec, problems):
    from reactivex.observer import Observer

    def on_error(e):
        if e is not ERR:
            problems.append(f"on_error carries {e!r}, not the error passed in")
        rec.append((float(S.clock), "E", None))
    return Observer(lambda v: rec.append((float(S.clock), "N", v)), on_error, lambda: rec.append((float(S.clock), "C", None)))


def fam_cold(d):
    """public reactivex.cold / from_marbles on a TestScheduler; one observable, two subscriptions"""
    import reactivex
    from reactivex.testing import TestScheduler
    lookup = lk_py(d["lookup"])
    ts = d["timespan"]
    tsv = td(ts) if d["timespan_as"] == "timedelta" else ts
    S = TestScheduler()
    kw = {"scheduler": S} if d["sched_via"] == "factory" else {}
    pres, _ = run_parse(d["string"], float(ts), 0.0, lookup, True)
    try:
        obs = getattr(reactivex, d["api"])(d["string"], tsv, lookup=lookup, error=ERR, **kw)
    except ValueError as e:
        return None if pres == ("err", err_kind(e)) else f"{d['api']} raised {e!r}, parse says {pres}"
    if pres[0] == "err":
        return f"{d['api']} accepted a diagram that parse(raise_stopped=True) rejects: {pres}"
    recs, problems = [[] for _ in d["subscribe_at"]], []
    for i, t in enumerate(d["subscribe_at"]):
        S.schedule_absolute(float(t), lambda *_, i=i: obs.subscribe(
            recorder(S, recs[i], problems), scheduler=None if d["sched_via"] == "factory" else S))
    S.start()
    if problems:
        return problems[0]
    for i, t in enumerate(d["subscribe_at"]):
        exp = [(float(t) + tm, k, v) for tm, k, v in pres[1]]
        if not same_msgs(recs[i], exp):
            return (f"subscription {i + 1} (at {t}) of one cold observable received {jmsgs(recs[i])}, parsed messages "
                    f"shifted by its subscription time: {jmsgs(exp)}")
    return None


def window_check(got, msgs, sub, disp, who):
    """got must be the parsed messages due while subscribed: sub < t < disp mandatory, t == sub / t == disp optional
    (simultaneous events: order not specified), nothing else, in parsed order"""
    i = 0
    for m in msgs:
        t = m[0]
        inside = sub <= t and (disp is None or t <= disp)
        if not inside:
            continue
        must = sub < t and (disp is None or t < disp)
        if i < len(got) and same_msgs([got[i]], [m]):
            i += 1
        elif must:
            return (f"{who} (subscribed at {sub}, disposed at {disp}) did not receive {jmsgs([m])[0]} -- it received "
                    f"{jmsgs(got)}")
    if i < len(got):
        return (f"{who} (subscribed at {sub}, disposed at {disp}) received {jmsgs(got[i:i + 1])[0]}, which is not a parsed "
                f"message due while it was subscribed (all it received: {jmsgs(got)})")
    return None


def fam_hot(d):
    """public reactivex.hot on a TestScheduler, created at clock 0, several observers"""
    import reactivex
    from reactivex.testing import TestScheduler
    lookup = lk_py(d["lookup"])
    ts, due = d["timespan"], d["duetime"]
    tsv = td(ts) if d["timespan_as"] == "timedelta" else ts
    S = TestScheduler()
    kw = {}
    if d["duetime_as"] == "timedelta":
        kw["duetime"] = td(due)
    elif d["duetime_as"] == "datetime":
        kw["duetime"] = S.now + td(due)
    elif d["duetime_as"] != "default":
        kw["duetime"] = due
    else:
        due = 0.0
    pres, _ = run_parse(d["string"], float(ts), float(due), lookup, True)
    try:
        obs = reactivex.hot(d["string"], tsv, scheduler=S, lookup=lookup, error=ERR, **kw)
    except ValueError as e:
        return None if pres == ("err", err_kind(e)) else f"hot raised {e!r}, parse says {pres}"
    if pres[0] == "err":
        return f"hot accepted a diagram that parse(raise_stopped=True) rejects: {pres}"
    msgs = fmsgs(pres[1])
    n = len(d["observers"])
    recs, problems, handles, self_disposed = [[] for _ in range(n)], [], [None] * n, [None] * n

    def subscribe(i, o):
        from reactivex.observer import Observer
        inner = recorder(S, recs[i], problems)
        k = o.get("dispose_in_on_next")
        seen = [0]

        def on_next(v):
            inner.on_next(v)
            seen[0] += 1
            if k is not None and seen[0] == k:
                self_disposed[i] = float(S.clock)
                handles[i].dispose()
        handles[i] = obs.subscribe(Observer(on_next, inner.on_error, inner.on_completed))

    for i, o in enumerate(d["observers"]):
        S.schedule_absolute(float(o["subscribe_at"]), lambda *_, i=i, o=o: subscribe(i, o))
        if o.get("dispose_at") is not None:
            S.schedule_absolute(float(o["dispose_at"]), lambda *_, i=i: handles[i] is not None and handles[i].dispose())
    S.start()
    if problems:
        return problems[0]
    term = next((m for m in msgs if m[1] in "EC"), None)
    for i, o in enumerate(d["observers"]):
        sub = float(o["subscribe_at"])
        disp = o.get("dispose_at")
        disp = float(disp) if disp is not None else None
        if self_disposed[i] is not None and (disp is None or self_disposed[i] < disp):
            disp = self_disposed[i]
        got = recs[i]
        if term is not None and sub > term[0] and len(got) == 1 and same_msgs([(term[0], got[0][1], got[0][2])], [term]):
            continue            # a late subscriber told the terminal at once: neither demanded nor forbidden
        v = window_check(got, msgs, sub, disp, f"observer {i + 1} of {n} of one hot observable")
        if v:
            return v
    return None


def fam_default_error(d):
    """parse / from_marbles without `error`: '#' stands for Exception('error') (documented default)"""
    from reactivex.observable.marbles import parse
    try:
        ms = parse(d["string"], timespan=d["timespan"], time_shift=d["time_shift"], lookup=lk_py(d["lookup"]))
    except ValueError:
        return None
    for t, n in ms:
        if n.kind == "E" and not (type(n.exception) is Exception and n.exception.args == ("error",)):
            return f"'#' without an error argument carries {n.exception!r}, documented default Exception('error')"
    return None


FAMILIES = {"default-error": fam_default_error, "timedelta-parse": fam_timedelta_parse, "cold-direct": fam_cold, "hot-direct": fam_hot}


def gen_hot_observers(rng, times):
    """subscription / disposal instants around the parsed message times (all multiples of 0.25)"""
    T = sorted(set(times)) or [1.0, 2.0]
    def near(t):
        return max(0.0, t + rng.choice([-0.25, 0.25, 0.25, 0.0]))
    obs = [{"subscribe_at": rng.choice([0.0, near(T[0])])}]                       # (almost) from the start, never disposes
    a = near(rng.choice(T))
    obs.append({"subscribe_at": a})                                                # joins mid-diagram
    b = near(rng.choice(T))
    lo, hi = min(a, b), max(a, b)
    obs.append({"subscribe_at": lo, "dispose_at": hi + rng.choice([0.0, 0.25, 0.5])})   # leaves mid-diagram
    obs.append({"subscribe_at": T[-1] + rng.choice([0.25, 3.0]), "dispose_at": rng.choice([None, T[-1] + 5.0])})  # late
    if rng.random() < 0.6:
        obs.insert(rng.randrange(len(obs) + 1), {"subscribe_at": rng.choice([0.0, near(rng.choice(T))]),
                                                 "dispose_in_on_next": rng.choice([1, 1, 2, 3])})
    return obs


# --------------------------------------------------------------------------

def run(chk):
    proved = chk.build_and_prove()
    big = (not proved) or bool(chk.broken) or chk.tier == "thorough"
    rng = chk.rng
    xr = random.Random(f"C38-extra-{chk.seed}")      # the oracle-only families draw from their own stream
    n_struct = 6000 if big else 900
    n_malf = 6000 if big else 900
    n_deliv = 1500 if big else 300
    objs = Objs()
    gal, meta = [], []
    hist = {"structured": 0, "malformed": 0, "delivery": 0, "raise_stopped": 0, "float_timespan": 0,
            "with_lookup": 0, "ValueError_comma": 0, "ValueError_stopped": 0, "with_spaces": 0,
            "groups": 0, "outside_documented_syntax": 0}
    nontrivial = set()

    def rand_lookup():
        if rng.random() < 0.5:
            return {}
        keys = rng.sample(["a", "ab", "b", 1, 12, 1.5, 0.5, 7, "xyz", "a-b", -5, 100.0, "^"], rng.randrange(1, 4))
        # keys distinct under == (1 / 1.0 would be the same dict key)
        return {k: rng.choice(TARGETS) for k in keys}

    def rand_times():
        ts = rng.choice([1, 2, 10, 1.0, 0.1, 0.5, 3.0, 0.3])
        shift = rng.choice([0, 200, 5, 0.0, 0.0, 0.25, 200.0, 1e-3])
        return ts, shift

    def extra(family, d, size):
        d = dict(d, family=family)
        v = FAMILIES[family](d)
        chk.cov["evaluations"] += 1
        hist[family] = hist.get(family, 0) + 1
        if v:
            tag = next((t for k, t in (("did not receive", "a message due while subscribed is missing"),
                                       ("which is not a parsed", "unexpected message"),
                                       ("on_error carries", "error-object"),
                                       ("documented default Exception", "default error object"),
                                       ("with the same seconds as numbers", "timedelta differs from seconds"),
                                       ("shifted by its subscription time", "subscription differs from parsed"))
                        if k in v), v[:40])
            chk.violation(f"{family}|{tag}", dict(d, what=v), size=size)
        return v

    def check_parse(s, items, ts, shift, lookup, rs, origin):
        (res, problems) = run_parse(s, ts, shift, lookup, rs)
        chk.cov["evaluations"] += 1
        if isinstance(ts, float) or isinstance(shift, float):
            hist["float_timespan"] += 1
        hist["raise_stopped"] += int(rs)
        hist["with_lookup"] += int(bool(lookup))
        if res[0] == "err":
            hist["ValueError_" + res[1].split(":")[0]] = hist.get("ValueError_" + res[1].split(":")[0], 0) + 1
        gal.append((gcase(0, rs, ts, shift, lookup, s, objs), gresult(res, objs)))
        meta.append({"api": "parse", "string": s, "timespan": ts, "time_shift": shift, "raise_stopped": rs,
                     "lookup_keys": [repr(k) for k in lookup], "implementation": res if res[0] == "err" else jmsgs(res[1])})
        size = len(s.replace(" ", ""))
        base = {"string": s, "timespan": ts, "time_shift": shift, "raise_stopped": rs,
                "lookup": {repr(k): repr(v) for k, v in lookup.items()}, "api": "parse",
                "implementation": res if res[0] == "err" else jmsgs(res[1])}
        for p in problems:
            chk.violation(f"error-object|{origin}", dict(base, expected=p), size=size)
        # ---- timedelta arguments (oracle only, metamorphic) -------------------------------
        if xr.random() < 0.5:
            ts2, shift2 = xr.choice([ts, ts, 172800.5, 90000]), xr.choice([shift, shift, -5, -0.25, 129600.0])
            extra("timedelta-parse", {"string": s, "timespan": ts2, "time_shift": shift2, "raise_stopped": rs,
                                      "lookup": lk_json(lookup), "how": xr.choice(["both", "both", "timespan", "time_shift"])},
                  size)
        if "#" in s:
            extra("default-error", {"string": s, "timespan": ts, "time_shift": shift, "lookup": lk_json(lookup)}, size)
        # ---- oracle -----------------------------------------------------------------
        doc = items if items is not None else scan_documented(s)
        if doc is None:
            hist["outside_documented_syntax"] += 1
            t = s.replace(" ", "")
            # comma outside any parenthesis at all: must be rejected
            if "," in t and "(" not in t and ")" not in t and res != ("err", "comma"):
                first_term = min([i for i in (t.find("|"), t.find("#")) if i >= 0] or [len(t)])
                if not (rs and first_term < t.find(",") and res == ("err", "stopped")):
                    chk.violation(f"comma-accepted|{origin}",
                                  dict(base, expected="ValueError: comma is only allowed in a group"), size=size)
            return
        exp, after, empty_after = reading_of_ast(doc, ts, shift, lookup)
        if any(it[0] == "group" for it in doc):
            hist["groups"] += 1
        if rs and after:
            if res != ("err", "stopped"):
                chk.violation(f"not-rejected-after-terminal|{origin}",
                              dict(base, expected="ValueError (a marble follows | or #, raise_stopped=True)"),
                              size=size)
        elif rs and empty_after:
            pass        # only an empty group follows the terminal: the statement does not say
        else:
            if res[0] != "ok" or not same_msgs(res[1], exp):
                chk.violation(f"parse-differs-from-direct-reading|{origin}",
                              dict(base, expected=jmsgs(exp),
                                   oracle="frame = index of the first character (spaces ignored); group members at "
                                          "the opening parenthesis; int()/float()/str then lookup"), size=size)
            elif len(exp) >= 2:
                nontrivial.add((s.replace(" ", ""), rs, ts, shift))
    # ---- structured diagrams ---------------------------------------------------------
    for _ in range(n_struct):
        after = rng.random() < 0.25
        items = gen_ast(rng, after)
        s0 = "".join(render_item(it) for it in items)
        s = with_spaces(rng, s0)
        hist["with_spaces"] += int(s != s0)
        hist["structured"] += 1
        ts, shift = rand_times()
        # adjacent values / ticks merge in the text: the items as an independent scan sees them
        check_parse(s, scan_documented(s0) if scan_documented(s0) is not None else None, ts, shift,
                    rand_lookup(), rng.random() < 0.5, "structured")
    # ---- malformed stream ------------------------------------------------------------
    alphabet = "--||#((),,) ab1.2"
    for _ in range(n_malf):
        s = "".join(rng.choice(alphabet) for _ in range(rng.randrange(0, 11)))
        hist["malformed"] += 1
        ts, shift = rand_times()
        check_parse(s, None, ts, shift, rand_lookup(), rng.random() < 0.5, "malformed")
    # ---- delivery on a virtual-time scheduler ------------------------------------------
    for i in range(n_deliv):
        if rng.random() < 0.8:
            items = gen_ast(rng, rng.random() < 0.1)
            s = with_spaces(rng, "".join(render_item(it) for it in items))
        else:
            s = "".join(rng.choice(alphabet) for _ in range(rng.randrange(0, 9)))
        ts = rng.choice([1, 2, 5, 1.0, 0.5, 10, 0, 0.0])     # 0: every marble at the shift itself
        lookup = rand_lookup()
        hist["delivery"] += 1
        doc = scan_documented(s)
        for api, kind, runner in (("from_marbles", 1, lambda: run_cold(s, ts, lookup, "from_marbles")),
                                  ("testing.cold", 1, lambda: run_cold(s, ts, lookup, "testing")),
                                  ("testing.hot", 2, lambda: run_hot(s, ts, lookup))):
            if api == "testing.hot" and not ts:
                continue        # every marble AT the subscription instant of a hot observable: not delivered, by design
            res, problems = runner()
            chk.cov["evaluations"] += 1
            gal.append((gcase(kind, True, ts, 200.0, lookup, s, objs), gresult(res, objs)))
            meta.append({"api": api, "string": s, "timespan": ts, "implementation": res if res[0] == "err" else jmsgs(res[1])})
            base = {"string": s, "timespan": ts, "api": api, "lookup": {repr(k): repr(v) for k, v in lookup.items()},
                    "implementation": res if res[0] == "err" else jmsgs(res[1])}
            for p in problems:
                chk.violation(f"error-object|{api}", dict(base, expected=p), size=len(s))
            # oracle: exactly the parsed notifications at subscription + parsed time
            (pres, _) = run_parse(s, ts, 200.0, lookup, True)
            if pres[0] == "err":
                if res != pres:
                    chk.violation(f"delivery-error-differs|{api}", dict(base, expected=pres), size=len(s))
                continue
            expd = pres[1] if kind == 1 else [m for m in pres[1] if m[0] > 200.0]
            if res[0] != "ok" or not same_msgs([(float(t), k, v) for t, k, v in res[1]],
                                               [(float(t), k, v) for t, k, v in expd]):
                chk.violation(f"delivery-differs-from-parsed|{api}",
                              dict(base, expected=jmsgs(expd),
                                   oracle="cold: every parsed message at subscription(200) + parsed time; hot: the parsed "
                                          "messages due strictly after the subscription"), size=len(s))
            elif len(expd) >= 2:
                nontrivial.add((s.replace(" ", ""), api, ts))
        # ---- oracle-only delivery families -----------------------------------------------
        lj = lk_json(lookup)
        t1 = xr.choice([0.0, 1.0, 200.0])
        v = extra("cold-direct", {"string": s, "timespan": ts, "timespan_as": xr.choice(["number", "timedelta"]),
                                  "lookup": lj, "api": xr.choice(["cold", "from_marbles"]),
                                  "sched_via": xr.choice(["factory", "subscribe"]),
                                  "subscribe_at": [t1, t1 + xr.choice([0.5, 2.0, 7.0, 500.0])]}, len(s))
        due = xr.choice([0, 50, 150.0, 199.5, 0.5])
        das = xr.choice(["number", "timedelta", "datetime", "default"])
        (pres, _) = run_parse(s, float(ts), 0.0 if das == "default" else float(due), lookup, True)
        observers = gen_hot_observers(xr, [t for t, _, _ in pres[1]] if pres[0] == "ok" else [])
        hd = {"string": s, "timespan": ts, "timespan_as": xr.choice(["number", "timedelta"]), "duetime": due,
              "duetime_as": das, "lookup": lj, "observers": observers}
        v = extra("hot-direct", hd, len(s) + len(observers) + (0 if doc is not None else 10))   # prefer documented syntax
        hist["hot_duetime_" + das] = hist.get("hot_duetime_" + das, 0) + 1
        if not v and pres[0] == "ok" and len(pres[1]) >= 2:
            hist["hot_reentrant_dispose"] = hist.get("hot_reentrant_dispose", 0) + any("dispose_in_on_next" in o for o in observers)
            nontrivial.add((s.replace(" ", ""), "hot-direct", ts, due, das))

    bad, logs = lib.correspondence("C38", "marbles", IMPORTS, "(nat * pcase) * (perr + list (pytime * notif pyval))",
                                   "model", "out_eqb", gal, prelude=PRELUDE, shard=500)
    chk.cov["traces_validated_against_impl"] = len(gal)
    chk.cov["disagreements_checked"] = len(gal)
    if bad:
        idx = [i for i in bad if i >= 0][:5]
        detail = {"n_disagreements": len(bad), "first_cases": [meta[i] for i in idx],
                  "first_cases_gallina": [gal[i] for i in idx[:2]], "logs": logs[:1]}
        if idx:
            detail["model_says"] = lib.coq_show("C38", IMPORTS, f"model {gal[idx[0]][0]}", PRELUDE)[-2000:]
        chk.tie_broken("correspondence: Ops/Marbles.v + Ops/MarbleNumbers.v vs reactivex.observable.marbles.parse / "
                       "from_marbles / testing.marbles cold+hot", detail)
    chk.cov["distinct_nontrivial"] = len(nontrivial)
    chk.cov["rule"] = ("structured: random diagrams from an AST (ticks 1-4, single/multi-character values incl. "
                       "int/float/inf/nan/underscore spellings, groups of 1-3 members incl. '', '|', '#', '-5', 'a-b'; "
                       "terminals; 25% with marbles after a terminal), spaces inserted at random; malformed: random "
                       "strings of length 0-10 over \"-|#(), ab1.2\" (unbalanced parentheses, commas outside groups); "
                       "x raise_stopped x timespan in {1,2,10,1.0,0.1,0.5,3.0,0.3} x time_shift in {0,200,5,0.0,0.25,"
                       "200.0,1e-3} x random lookups (str/int/float keys); delivery: from_marbles(scheduler=TestScheduler), "
                       "testing.marbles cold() and hot().  Oracle only: (a) half of the parse cases again with timespan "
                       "and/or time_shift as timedelta (also 172800.5 s / 90000 s timespans, negative and 1.5-day shifts) "
                       "== the same seconds as numbers; (b) every delivery case through public reactivex.cold / from_marbles "
                       "on a TestScheduler (number or timedelta timespan, scheduler via factory or subscribe()), one "
                       "observable subscribed at two instants; (c) every delivery case through public reactivex.hot on a "
                       "TestScheduler, duetime in {0,50,150,199.5,0.5} as number/timedelta/datetime/default, 4-5 observers "
                       "(from the start, joining mid-diagram, leaving mid-diagram, after the end, disposing itself inside "
                       "its k-th on_next), each judged on the window it was subscribed in; (d) every parse case containing '#' "
                       "again without the error argument (documented default Exception('error')).  non-trivial = distinct (space-free string, parameters) inside "
                       "the documented syntax on which the implementation equals the direct reading and at least two "
                       "notifications are produced")
    chk.cov["input_distribution"] = hist
    chk.add_samples([meta[i] for i in range(0, len(meta), max(1, len(meta) // 6))][:6])
    return chk.finish(
        trusted_extra=["Ops/Marbles.v, Ops/MarbleNumbers.v: hand-written models of parse (regex tokenizer as a lexer), of "
                       "Python int()/float() on ASCII text (floats exact for < 2^53 significands and |exp10| <= 22) and "
                       "of the virtual-time scheduler's (due time, insertion order) -- tied by this run's correspondence",
                       "PrimFloat (kernel binary64) for float timestamps in the correspondence"],
        assumptions=["ASCII strings without whitespace other than ' '; timedelta timespans / shifts / duetimes only "
                     "metamorphically (same result as the number of seconds), with values that are whole microseconds",
                     "hot() with several observers: a message due exactly at an observer's subscription or disposal "
                     "instant may or may not reach it; a subscriber arriving after the terminal may or may not be told",
                     "strings with unbalanced parentheses are outside the documented syntax: the model follows the code "
                     "(the parenthesis is dropped without advancing time, Example C38_unbalanced_parenthesis_quirk), the "
                     "oracle demands nothing there",
                     "hot(): an observer subscribing at the instant of a marble does not see it (documented in "
                     "testing/marbles.py)"])


def replay(chk, path):
    d = json.load(open(path))
    if d.get("family") in FAMILIES:
        lib.import_repo()
        v = FAMILIES[d["family"]]({k: x for k, x in d.items() if k != "what"})
        print(json.dumps({"case": {k: x for k, x in d.items() if k != "what"}, "oracle": v or "holds"}, indent=1))
        if v:
            print(f"VIOLATION property=C38 replay={path}")
            return 1
        return 0
    if "string" not in d:
        print(json.dumps(d, indent=1)[:4000])
        return 1
    print("string", repr(d["string"]), "api", d.get("api"), "timespan", d.get("timespan"))
    if d.get("api") == "parse":
        res, problems = run_parse(d["string"], d["timespan"], d["time_shift"], {}, d["raise_stopped"])
        print("implementation now (without lookup):", res if res[0] == "err" else jmsgs(res[1]))
    print("implementation then:", d.get("implementation"))
    print("expected:", d.get("expected"))
    return 1
