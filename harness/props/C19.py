"""C19 -- grouping routes each element to exactly one live group (DESIGN.md section 7/C19).
Machines: Ops/Groups.v on the runner Ops/MultiWin.v (hands observables downstream, ref-counted
release); tie: K2 port-level replay with a window-subscribing logging subscriber (harness/k2w.py);
oracle: harness/win_table.py (expected content of every window/buffer recomputed from the rule)."""
import win_table

NAMES = ["group_by", "group_by_until", "partition"]


def self_duration_scenarios(chk):
    """oracle-only: group_by_until whose duration is derived from the group ITSELF (g.skip(m), or a sentinel
    element), so that a group's own element closes it.  Every element -- the closing one included -- must reach
    exactly the group of its key, in arrival order; the next element of that key opens a new group."""
    import reactivex as rx
    from reactivex import operators as ops
    from reactivex.subject import Subject
    n = 80 if chk.tier == "quick" else 1000
    nontrivial = set()
    for _ in range(n):
        mode = chk.rng.choice(["skip", "sentinel"])
        m = chk.rng.choice([0, 1, 2])
        nk = chk.rng.choice([1, 2, 3])
        xs = [(chk.rng.randrange(nk), chk.rng.choice([0, None, 1, 2, "end", "end"])) for _ in
              range(chk.rng.choice([2, 4, 6, 9]))]
        if mode == "skip":
            dur = lambda g: g.pipe(ops.skip(m))
            closes = lambda count, v: count == m + 1
        else:
            dur = lambda g: g.pipe(ops.filter(lambda kv: kv[1] == "end"))
            closes = lambda count, v: v == "end"
        groups = []            # [key, [elements], terminal]
        src = Subject()
        outer_term = []

        def on_group(g):
            rec = [g.key, [], None]
            groups.append(rec)
            g.subscribe(lambda kv: rec[1].append(kv), lambda e: rec.__setitem__(2, "E"),
                        lambda: rec.__setitem__(2, "C"))
        src.pipe(ops.group_by_until(lambda kv: kv[0], None, dur)).subscribe(
            on_group, lambda e: outer_term.append("E"), lambda: outer_term.append("C"))
        for kv in xs:
            src.on_next(kv)
        src.on_completed()
        chk.cov["evaluations"] += 1
        # reference
        exp, open_ = [], {}
        for kv in xs:
            k = kv[0]
            if k not in open_:
                rec = [k, [], None]
                exp.append(rec)
                open_[k] = rec
            rec = open_[k]
            rec[1].append(kv)
            if closes(len(rec[1]), kv[1]):
                rec[2] = "C"
                del open_[k]
        for rec in open_.values():
            rec[2] = "C"
        if groups != exp or outer_term != ["C"]:
            chk.violation(f"C19|self-duration|{mode}|m={m}|{xs}"[:120],
                          {"operator": f"group_by_until(key, None, duration derived from the group: {mode}, m={m})",
                           "source (key, value)": xs, "groups got [key, elements, terminal]": groups,
                           "expected": exp, "outer terminal": outer_term,
                           "oracle": "every element reaches exactly the group of its key, in arrival order"},
                          size=len(xs))
        elif any(len(r[1]) >= 2 for r in exp) and len(exp) >= 2:
            nontrivial.add(repr((mode, m, xs)))
    return nontrivial


def run(chk):
    chk.build_and_prove()
    win_table.run_ops(chk, "C19", NAMES, ncase=(90 if chk.tier == "quick" else 1500))
    nt = self_duration_scenarios(chk)
    chk.cov["distinct_nontrivial"] = chk.cov.get("distinct_nontrivial", 0) + len(nt)
    chk.cov["self_duration_scenarios_nontrivial"] = len(nt)
    chk.cov["rule"] = ("per operator: seeded key tables (few keys / many keys / falsy keys None 0 False '' () 0.0; 5% "
                       "raising), element mappers, duration mappers (12% raising) x seeded timelines (falsy elements, "
                       "duration observables firing at arbitrary times incl. the same instant as elements, errors while "
                       "several groups are open, 12% non-conforming tails, 20% outer dispose) x seeded group-subscription "
                       "policies (immediately / after a delay / never / dispose after n elements / after d ms); partition: "
                       "seeded predicate tables x subscribe/leave/re-subscribe schedules of the two outputs; non-trivial = "
                       "distinct (policy, machine, delivered input sequence) with >= 2 group/output notifications and the "
                       "oracle satisfied")
    chk.cov["operators_modelled"] = NAMES
    return chk.finish(trusted_extra=[
        "window-aware K2 driver harness/k2w.py (hot sources, proxy scheduler, boundary log, window subscription "
        "policies turned into boundary inputs ISubWin/IUnsubWin; canonical per-instant ordering of "
        "subscribe/unsubscribe/timer events)",
        "runner assumption (Ops/MultiWin.v): the disposable under the operator's RefCountDisposable holds every "
        "subscription and timer it opened -- checked here by comparing unsubscribe/cancel instants"])


def replay(chk, path):
    v, text = win_table.replay_case(path)
    print(text)
    print(f"[{chk.pid}] replay: {'STILL VIOLATED' if v else 'no longer violated on the current tree'}")
    return 1 if v else 0
