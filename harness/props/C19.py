"""C19 -- grouping routes each element to exactly one live group (DESIGN.md section 7/C19).
Machines: Ops/Groups.v on the runner Ops/MultiWin.v (hands observables downstream, ref-counted
release); tie: K2 port-level replay with a window-subscribing logging subscriber (harness/k2w.py);
oracle: harness/win_table.py (expected content of every window/buffer recomputed from the rule)."""
import c19_feedback
import win_table

NAMES = ["group_by", "group_by_until", "partition", "partition_indexed"]


def run_self_duration(case):
    """group_by_until whose duration is derived from the group ITSELF -> (groups [key, elements, terminal], outer)"""
    from reactivex import operators as ops
    from reactivex.subject import Subject
    mode, m, xs = case["mode"], case["m"], [tuple(x) for x in case["xs"]]
    if mode == "skip":
        dur = lambda g: g.pipe(ops.skip(m))
    else:
        dur = lambda g: g.pipe(ops.filter(lambda kv: kv[1] == "end"))
    groups = []            # [key, [elements], terminal]
    src = Subject()
    outer_term = []

    def on_group(g):
        rec = [g.key, [], None]
        groups.append(rec)
        g.subscribe(lambda kv: rec[1].append(kv), lambda e: rec.__setitem__(2, "E"),
                    lambda: rec.__setitem__(2, "C"))
    src.pipe(ops.group_by_until(lambda kv: kv[0], None, dur)).subscribe(
        on_group, lambda e: outer_term.append("E"), lambda: outer_term.append("C"))
    try:
        for kv in xs:
            src.on_next(kv)
        src.on_completed()
    except Exception as e:      # noqa: BLE001  nothing may escape into the emitter
        outer_term.append("escaped into the emitter: " + type(e).__name__)
    return groups, outer_term


def ref_self_duration(case):
    mode, m, xs = case["mode"], case["m"], [tuple(x) for x in case["xs"]]
    closes = (lambda count, v: count == m + 1) if mode == "skip" else (lambda count, v: v == "end")
    exp, open_ = [], {}
    for kv in xs:
        k = kv[0]
        if k not in open_:
            rec = [k, [], None]
            exp.append(rec)
            open_[k] = rec
        rec = open_[k]
        rec[1].append(kv)
        if closes(len(rec[1]), kv[1]):
            rec[2] = "C"
            del open_[k]
    for rec in open_.values():
        rec[2] = "C"
    return exp, ["C"]


def self_duration_scenarios(chk):
    """oracle-only: group_by_until whose duration is derived from the group ITSELF (g.skip(m), or a sentinel
    element), so that a group's own element closes it.  Every element -- the closing one included -- must reach
    exactly the group of its key, in arrival order; the next element of that key opens a new group."""
    n = 80 if chk.tier == "quick" else 1000
    nontrivial = set()
    for _ in range(n):
        mode = chk.rng.choice(["skip", "sentinel"])
        m = chk.rng.choice([0, 1, 2])
        nk = chk.rng.choice([1, 2, 3])
        xs = [(chk.rng.randrange(nk), chk.rng.choice([0, None, 1, 2, "end", "end"])) for _ in
              range(chk.rng.choice([2, 4, 6, 9]))]
        case = {"mode": mode, "m": m, "xs": [list(x) for x in xs]}
        groups, outer_term = run_self_duration(case)
        chk.cov["evaluations"] += 1
        exp, exp_outer = ref_self_duration(case)
        if groups != exp or outer_term != exp_outer:
            chk.violation(f"C19|self-duration|{mode}|m={m}|{xs}"[:120],
                          {"operator": f"group_by_until(key, None, duration derived from the group: {mode}, m={m})",
                           "self_duration_case": case,
                           "source (key, value)": xs, "groups got [key, elements, terminal]": groups,
                           "expected": exp, "outer terminal": outer_term,
                           "oracle": "every element reaches exactly the group of its key, in arrival order"},
                          size=len(xs))
        elif any(len(r[1]) >= 2 for r in exp) and len(exp) >= 2:
            nontrivial.add(repr((mode, m, xs)))
    return nontrivial


# ---- subject_mapper returning ReplaySubject (the documented use) / a subject with its own truthiness ----------

FALSY_SIG = "C19|custom-subject-truthiness|a live group's subject that is falsy is taken for a missing one"


def run_replay_subject(case):
    """group_by(key, None, factory) / group_by_until(key, None, hand-held durations, factory); factory =
    lambda: ReplaySubject() ('replay') or a Subject subclass whose truth value is "has observers" ('len', as
    a user-defined subject with __len__ would be).  The subscriber subscribes to group g immediately / before
    the `when`-th script step after the hand / after the whole script ('end') / never.
    -> {g: [key, [events seen]]}, factory calls, outer"""
    from reactivex import operators as ops
    from reactivex.subject import Subject, ReplaySubject

    class LenSubject(Subject):
        def __len__(self):
            return len(self.observers)
    src = Subject()
    durs = []
    made = []
    handed = []           # group observables in hand order
    seen = {}
    outer = []
    pending = []          # (due step, g)
    pos = [0]

    def factory():
        s = ReplaySubject() if case.get("subject", "replay") == "replay" else LenSubject()
        made.append(s)
        return s

    def dur(_g):
        d = Subject()
        durs.append(d)
        return d

    def subscribe_group(g):
        rec = seen.setdefault(g, [handed[g].key, []])
        handed[g].subscribe(lambda v: rec[1].append(["N", list(v)]), lambda e: rec[1].append(["E"]),
                            lambda: rec[1].append(["C"]))

    def on_group(go):
        g = len(handed)
        handed.append(go)
        when = case["subs"][g] if g < len(case["subs"]) else 0
        if when == 0:
            subscribe_group(g)
        elif when == "end":
            pending.append((10**9, g))
        elif when is not None:
            pending.append((pos[0] + when, g))
    key = lambda kv: kv[0]
    op = ops.group_by_until(key, None, dur, factory) if case["until"] else ops.group_by(key, None, factory)
    src.pipe(op).subscribe(on_group, lambda e: outer.append("E"), lambda: outer.append("C"))
    for j, step in enumerate(case["script"]):
        pos[0] = j
        for (due, g) in [p for p in pending if p[0] <= j]:
            pending.remove((due, g))
            subscribe_group(g)
        if step[0] == "N":
            src.on_next((step[1], step[2]))
        elif step[0] == "expire":
            if step[1] < len(durs):
                durs[step[1]].on_next(0)
        elif step[1] == "C":
            src.on_completed()
        else:
            src.on_error(RuntimeError("boom"))
    for (due, g) in pending:
        subscribe_group(g)
    return {g: rec for g, rec in seen.items()}, len(made), outer


def ref_replay_subject(case):
    """reference from the statement: a group is made the first time its key is seen (or again after its group
    expired); its content is every element of its key that arrived while it was live, in arrival order, then its
    end (expiry: completion; the source's terminal otherwise).  A ReplaySubject group shows that whole content to
    a subscriber whenever it subscribes; a plain subject shows what comes after the subscription (its terminal
    alone if it ended before)."""
    groups, open_, outer = [], {}, []         # groups[g] = [key, [(script step, event)], step of the hand]
    for j, step in enumerate(case["script"]):
        if outer:
            break
        if step[0] == "N":
            k = step[1]
            if k not in open_:
                open_[k] = len(groups)
                groups.append([k, [], j])
            groups[open_[k]][1].append((j, ["N", [step[1], step[2]]]))
        elif step[0] == "expire":
            g = step[1]
            if case["until"] and g < len(groups) and open_.get(groups[g][0]) == g:
                groups[g][1].append((j, ["C"]))
                del open_[groups[g][0]]
        else:
            for g in open_.values():
                groups[g][1].append((j, [step[1]]))
            open_.clear()
            outer.append(step[1])
    want = {}
    for g, (k, evs, hand) in enumerate(groups):
        when = case["subs"][g] if g < len(case["subs"]) else 0
        if when is None:
            continue
        if case.get("subject", "replay") == "replay" or when == 0:
            want[g] = [k, [e for _, e in evs]]
            continue
        at = 10**9 if when == "end" else hand + when       # subscribed before script step `at` is played
        term = [(j, e) for (j, e) in evs if e[0] != "N"]
        if term and term[0][0] < at:
            want[g] = [k, [term[0][1]]]
        else:
            want[g] = [k, [e for (j, e) in evs if j >= at]]
    return want, len(groups), outer


def gen_replay_subject(rng, subject="replay"):
    nk = rng.choice([1, 2, 3])
    script = []
    for _ in range(rng.choice([3, 5, 8, 10])):
        r = rng.random()
        if r < 0.75:
            script.append(["N", rng.choice([0, None, "", 1, 2][:nk + 1]), rng.choice([0, None, 1, 2, 3])])
        else:
            script.append(["expire", rng.randrange(4)])
    r = rng.random()
    if r < 0.6:
        script.append(["term", "C"])
    elif r < 0.8:
        script.append(["term", "E"])
    subs = [rng.choice([0, 1, 2, 3, 5, "end", "end", None]) for _ in range(8)]
    return {"until": rng.random() < 0.6, "script": script, "subs": subs, "subject": subject}


def check_replay_subject(case):
    exp = ref_replay_subject(case)
    try:
        got = run_replay_subject(case)
    except Exception as e:        # an exception escaping into the code that drives the source / a duration
        return False, ({}, f"exception escaped: {e!r}", []), exp
    g_seen = {str(g): rec for g, rec in got[0].items()}
    e_seen = {str(g): rec for g, rec in exp[0].items()}
    ok = g_seen == e_seen and got[1] == exp[1] and got[2] == exp[2]
    return ok, got, exp


def replay_subject_scenarios(chk):
    n = 150 if chk.tier == "quick" else 3000
    nontrivial = set()
    late = 0
    for c in range(n + n // 3):
        kind = "replay" if c < n else "len"
        case = gen_replay_subject(chk.rng, kind)
        ok, got, exp = check_replay_subject(case)
        chk.cov["evaluations"] += 1
        if not ok and kind == "len":
            chk.violation(FALSY_SIG,
                          {"replay_subject_case": case,
                           "got ({group: [key, events seen]}, factory calls, outer terminal)": repr(got),
                           "expected": repr(exp),
                           "what": "subject_mapper returning a Subject subclass whose truth value is 'has observers' "
                                   "(a user-defined __len__): while nobody is subscribed to a live group, the next "
                                   "element of its key makes ANOTHER group (`if not writer`), and expiry skips it "
                                   "(`if writers[key]`) -- a new group must be made only the first time a key is seen "
                                   "or after its group expired"},
                          size=len(case["script"]))
        elif not ok:
            chk.violation(f"C19|replay-subject-groups|until={case['until']}|{case['script']}|{case['subs'][:3]}"[:160],
                          {"replay_subject_case": case,
                           "got ({group: [key, events seen]}, factory calls, outer terminal)": repr(got),
                           "expected": repr(exp),
                           "what": "subject_mapper=lambda: ReplaySubject(): one NEW subject per group; a group "
                                   "subscriber -- however late -- sees every element of its key that arrived "
                                   "while the group was live, in arrival order, then the group's end"},
                          size=len(case["script"]))
        else:
            n_late = sum(1 for g, rec in exp[0].items() if case["subs"][g] not in (0, None) and len(rec[1]) >= 2)
            late += n_late if kind == "replay" else 0
            if (n_late or kind == "len") and exp[1] >= 2:
                nontrivial.add(repr(case))
            chk.cov["custom_truthiness_subject_cases"] = chk.cov.get("custom_truthiness_subject_cases", 0) + (kind == "len")
    chk.cov["replay_subject_late_group_subscriptions"] = late
    return nontrivial


def sync_duration_coverage(chk):
    """COVERAGE ONLY (never a violation): group_by_until whose duration observable fires INSIDE its own subscribe
    call (empty() / of()).  expire() then runs before writer.on_next(element): the group is handed, completed, and
    the element that created it reaches nobody.  The statement is read for LIVE groups: an element whose group
    expired before it was delivered is not judged.  Recorded: how many such elements were lost."""
    import reactivex as rx
    from reactivex import operators as ops
    from reactivex.subject import Subject
    n = 30 if chk.tier == "quick" else 300
    lost = handed = 0
    for _ in range(n):
        kinds = [chk.rng.choice(["empty", "of", "hot"]) for _ in range(6)]
        calls = [0]

        def dur(_g):
            k = kinds[calls[0] % len(kinds)]
            calls[0] += 1
            return rx.empty() if k == "empty" else (rx.of(0) if k == "of" else Subject())
        got = []

        def on_group(g, got=got):
            rec = []
            got.append(rec)
            g.subscribe(rec.append, lambda e: None, lambda: None)
        src = Subject()
        src.pipe(ops.group_by_until(lambda x: x % 2, None, dur)).subscribe(on_group, lambda e: None, lambda: None)
        xs = [chk.rng.randrange(6) for _ in range(chk.rng.choice([2, 4, 6]))]
        for x in xs:
            src.on_next(x)
        src.on_completed()
        chk.cov["evaluations"] += 1
        handed += len(got)
        lost += len(xs) - sum(len(r) for r in got)
    chk.cov["sync_duration_cases_not_judged"] = n
    chk.cov["sync_duration_groups_handed"] = handed
    chk.cov["sync_duration_elements_reaching_no_group"] = lost


def run_shared_group(case):
    """every group is subscribed TWICE (recorders a and b) when it is handed over; the outer subscription is disposed
    after i_out elements, all a-recorders after i_a elements; the b-recorders stay.  -> {key: (a log, b log)}"""
    from reactivex import operators as ops
    from reactivex.disposable import CompositeDisposable
    from reactivex.subject import Subject
    xs, i_out, i_a, term, until = case["xs"], case["i_out"], case["i_a"], case["term"], case["until"]
    src = Subject()
    logs, a_subs = {}, CompositeDisposable()

    def rec(log):
        return (lambda v: log.append(("N", v)), lambda e: log.append(("E",)), lambda: log.append(("C",)))

    def on_group(g):
        la, lb = [], []
        logs[g.key] = (la, lb)
        a_subs.add(g.subscribe(*rec(la)))
        g.subscribe(*rec(lb))
    op = (ops.group_by_until(lambda v: v % 3, None, lambda g: __import__("reactivex").never()) if until
          else ops.group_by(lambda v: v % 3))
    outer = src.pipe(op).subscribe(on_group, lambda e: None, lambda: None)
    try:
        for i, v in enumerate(xs):
            if i == i_out:
                outer.dispose()
            if i == i_a:
                a_subs.dispose()
            src.on_next(v)
        if len(xs) <= i_out:
            outer.dispose()
        if len(xs) <= i_a:
            a_subs.dispose()
        if term == "C":
            src.on_completed()
        else:
            src.on_error(RuntimeError("boom"))
    except Exception as e:      # noqa: BLE001  nothing may escape into the emitter
        logs["escaped into the emitter"] = ([type(e).__name__], [])
    return {k: (list(a), list(b)) for k, (a, b) in logs.items()}


def ref_shared_group(case):
    xs, i_out, i_a, term = case["xs"], case["i_out"], case["i_a"], case["term"]
    exp = {}
    for i, v in enumerate(xs):
        k = v % 3
        if k not in exp:
            if i >= i_out:
                continue                       # the outer subscriber is gone: a new group is handed to nobody
            exp[k] = ([], [])
        if i < i_a:
            exp[k][0].append(("N", v))
        exp[k][1].append(("N", v))
    for k in exp:
        exp[k][1].append((term,))
    return exp


def shared_group_scenarios(chk):
    """oracle-only: several subscribers per group, the outer subscription disposed early, one subscriber of every
    group leaving: the remaining subscribers still get every later element of their key and the source's terminal
    (each group subscription holds its OWN reference on the source subscription)."""
    n = 120 if chk.tier == "quick" else 1500
    nontrivial = set()
    for i in range(n):
        m = chk.rng.randrange(2, 9)
        case = {"xs": [chk.rng.randrange(0, 9) for _ in range(m)], "i_out": chk.rng.randrange(0, m + 2),
                "i_a": chk.rng.randrange(0, m + 2), "term": chk.rng.choice(["C", "C", "E"]), "until": bool(i % 2)}
        got, exp = run_shared_group(case), ref_shared_group(case)
        chk.cov["evaluations"] += 1
        if got != exp:
            chk.violation(f"C19|shared-group|{'group_by_until' if case['until'] else 'group_by'}",
                          {"shared_group_case": case, "got": repr(got), "expected": repr(exp),
                           "oracle": "every subscriber of a group receives the elements of its key from its "
                                     "subscription until it leaves or the source ends, whatever the other "
                                     "subscribers and the outer subscriber do"}, size=m)
        elif any(len(b) >= 3 for _, b in exp.values()) and case["i_out"] < m and case["i_a"] < m:
            nontrivial.add(repr(case))
    return nontrivial


def run(chk):
    chk.build_and_prove()
    win_table.run_ops(chk, "C19", NAMES, ncase=(90 if chk.tier == "quick" else 1500))
    nt = self_duration_scenarios(chk)
    chk.cov["distinct_nontrivial"] = chk.cov.get("distinct_nontrivial", 0) + len(nt)
    chk.cov["self_duration_scenarios_nontrivial"] = len(nt)
    sync_duration_coverage(chk)
    nt = replay_subject_scenarios(chk)
    chk.cov["distinct_nontrivial"] += len(nt)
    chk.cov["replay_subject_scenarios_nontrivial"] = len(nt)
    nt = shared_group_scenarios(chk)
    chk.cov["distinct_nontrivial"] += len(nt)
    chk.cov["shared_group_scenarios_nontrivial"] = len(nt)
    nt = c19_feedback.feedback_scenarios(chk)
    chk.cov["distinct_nontrivial"] += len(nt)
    chk.cov["feedback_scenarios_nontrivial"] = len(nt)
    chk.cov["rule"] = ("per operator: seeded key tables (few keys / many keys / falsy keys None 0 False '' () 0.0; 5% "
                       "raising), element mappers, duration mappers (12% raising) x seeded timelines (falsy elements, "
                       "duration observables firing at arbitrary times incl. the same instant as elements, errors while "
                       "several groups are open, 12% non-conforming tails, 20% outer dispose) x seeded group-subscription "
                       "policies (immediately / after a delay / never / dispose after n elements / after d ms); partition: "
                       "seeded predicate tables x subscribe/leave/re-subscribe schedules of the two outputs; non-trivial = "
                       "distinct (policy, machine, delivered input sequence) with >= 2 group/output notifications and the "
                       "oracle satisfied; subject_mapper in 45% of the group cases (plain Subject factory / factory of a "
                       "Subject subclass / factory raising at seeded invocations -- machine x_group_by_until_sm); "
                       "partition_indexed with predicate_indexed(x, i) = table[(id(x)+i) mod K] and non-bool verdicts "
                       "(model Ops/GroupsIndexed.v); in 35% of ALL cases the measured subscription is the SECOND one of "
                       "the same observable object(s) (an abandoned warm-up subscription first); oracle-only: "
                       "self-expiring groups (duration derived from the group); subject_mapper=lambda: ReplaySubject() "
                       "with group subscribers joining late / after the end (each sees the whole content of its group); "
                       "subject_mapper returning a subject with its own truth value (falsy while it has no observers); "
                       "groups with two subscribers each, the outer subscription disposed early and one subscriber per "
                       "group leaving (family shared_group); re-entrant FEEDBACK (harness/c19_feedback.py: the source "
                       "is a hand-made hot probe, the handlers of the group / output subscribers and the outer "
                       "subscriber's on_next push same-key / other-key elements and terminals into it re-entrantly per "
                       "a seeded reaction table, durations are hot probes fired by the script; depth-first reference: "
                       "an expired group is not live inside its own on_completed, so a same-key element made there "
                       "opens a new group); "
                       "coverage only, not judged: durations firing inside their own subscribe call")
    chk.cov["operators_modelled"] = NAMES
    return chk.finish(trusted_extra=[
        "window-aware K2 driver harness/k2w.py (hot sources, proxy scheduler, boundary log, window subscription "
        "policies turned into boundary inputs ISubWin/IUnsubWin; canonical per-instant ordering of "
        "subscribe/unsubscribe/timer events; warm-up = an earlier abandoned subscription whose traffic is not logged)",
        "runner assumption (Ops/MultiWin.v): the disposable under the operator's RefCountDisposable holds every "
        "subscription and timer it opened -- checked here by comparing unsubscribe/cancel instants",
        "x_group_by_until_sm indexes the subject factory by the duration-mapper call count (a raising factory ends "
        "everything, so the two counts agree while input is still delivered) -- the harness counts both "
        "independently and the correspondence would show a divergence"],
        assumptions=[
        "partition_indexed: for a subscriber that joined the shared connection late the oracle accepts the verdict at "
        "the subscriber's own index OR at the element's position in the connected sequence (the statement does not "
        "say which index is meant); the model and the correspondence use the subscriber's own index, as the code does",
        "group_by_until durations that fire inside their own subscribe call are counted, not judged (the statement "
        "is read for live groups)",
        "feedback family: while a group is being announced (inside the outer subscriber's on_next) the driver makes "
        "no terminal, and elements reaching a group during its own announcement are compared as a multiset (the "
        "statement does not say whether they come before or after the element that opened the group); the probe is "
        "a conforming source: nothing is made after a terminal has been started"])


def replay(chk, path):
    import json
    d = json.load(open(path))
    if "feedback_case" in d:
        diff, got, exp = c19_feedback.check_feedback(d["feedback_case"])
        print(json.dumps({"case": d["feedback_case"], "difference": diff, "got": repr(got),
                          "expected": repr(exp[:3])}, default=str))
        if diff:
            print(f"VIOLATION property=C19 replay={path}")
            return 1
        return 0
    for key, fn in (("shared_group_case", lambda c: (lambda g, e: (g == e, g, e))(run_shared_group(c),
                                                                                  ref_shared_group(c))),
                    ("replay_subject_case", lambda c: check_replay_subject(c)),
                    ("self_duration_case", lambda c: (lambda g, e: (g == e, g, e))(run_self_duration(c),
                                                                                   ref_self_duration(c)))):
        if key in d:
            ok, got, exp = fn(d[key])
            print(json.dumps({"case": d[key], "got": repr(got), "expected": repr(exp)}, default=str))
            if not ok:
                print(f"VIOLATION property=C19 replay={path}")
                return 1
            return 0
    v, text = win_table.replay_case(path)
    print(text)
    print(f"[{chk.pid}] replay: {'STILL VIOLATED' if v else 'no longer violated on the current tree'}")
    if v:
        print(f"VIOLATION property={chk.pid} replay={path}")
    return 1 if v else 0
