"""C19 -- grouping routes each element to exactly one live group (DESIGN.md section 7/C19).
Machines: Ops/Groups.v on the runner Ops/MultiWin.v (hands observables downstream, ref-counted
release); tie: K2 port-level replay with a window-subscribing logging subscriber (harness/k2w.py);
oracle: harness/win_table.py (expected content of every window/buffer recomputed from the rule)."""
import win_table

NAMES = ["group_by", "group_by_until", "partition"]


def run(chk):
    chk.build_and_prove()
    win_table.run_ops(chk, "C19", NAMES, ncase=(90 if chk.tier == "quick" else 1500))
    chk.cov["rule"] = ("per operator: seeded key tables (few keys / many keys / falsy keys None 0 False '' () 0.0; 5% "
                       "raising), element mappers, duration mappers (12% raising) x seeded timelines (falsy elements, "
                       "duration observables firing at arbitrary times incl. the same instant as elements, errors while "
                       "several groups are open, 12% non-conforming tails, 20% outer dispose) x seeded group-subscription "
                       "policies (immediately / after a delay / never / dispose after n elements / after d ms); partition: "
                       "seeded predicate tables x subscribe/leave/re-subscribe schedules of the two outputs; non-trivial = "
                       "distinct (policy, machine, delivered input sequence) with >= 2 group/output notifications and the "
                       "oracle satisfied")
    chk.cov["operators_modelled"] = NAMES
    return chk.finish(trusted_extra=[
        "window-aware K2 driver harness/k2w.py (hot sources, proxy scheduler, boundary log, window subscription "
        "policies turned into boundary inputs ISubWin/IUnsubWin; canonical per-instant ordering of "
        "subscribe/unsubscribe/timer events)",
        "runner assumption (Ops/MultiWin.v): the disposable under the operator's RefCountDisposable holds every "
        "subscription and timer it opened -- checked here by comparing unsubscribe/cancel instants"])


def replay(chk, path):
    v, text = win_table.replay_case(path)
    print(text)
    print(f"[{chk.pid}] replay: {'STILL VIOLATED' if v else 'no longer violated on the current tree'}")
    return 1 if v else 0
