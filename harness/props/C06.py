"""C06 -- aggregating operators match their reference semantics.

Theorems (Props/C06.v) on the machines of Ops/Aggregates.v (derived operators
composed exactly as the code pipes them, via the composition theorem); tie: K2
(hot source, non-conforming tails, raising callbacks); oracle: the equivalent
Python computation on the implementation's output."""
import json
from fractions import Fraction

import k2
import lib
from k2 import Pool, HASHABLE_POOL, UserError
from lib import gz, glist, gbool, gopt
from props import C05

IMPORTS = "Base.Prelude Base.CaseLib Ops.Machine Ops.Elementwise Ops.Aggregates"


class NumPool:
    """integers stand for themselves"""
    K = 12

    def __init__(self):
        self.values = [0, 1, -1, 2, 5, -3, 7, 10, 3, 4, -7, 6]
        self.cls = list(range(self.K))

    def id(self, v):
        return int(v)

    def val(self, i):
        return self.values[i % self.K]


def avg_enc(v):
    """the float the implementation produced, as the small exact fraction whose
    float division gives exactly that float (checked); else the raw float ratio"""
    fr = Fraction(v).limit_denominator(64)
    if float(fr.numerator) / float(fr.denominator) != v:
        fr = Fraction(v)
    return f"({gz(fr.numerator)}, {gz(fr.denominator)})"


def num_inputs(rng, pool, maxlen=7, **kw):
    n = rng.choice([0, 1, 1, 2, 2, 3, 3, 4, 5, maxlen])
    ins = [("N", rng.choice(pool.values)) for _ in range(n)]
    t = rng.random()
    if t < 0.6:
        ins.append(("C",))
    elif t < 0.85:
        ins.append(("E", UserError(rng.choice([11, 12]))))
    if rng.random() < 0.2:
        ins.append(rng.choice([("N", 1), ("C",), ("E", UserError(13))]))
    return ins


def ops_table(values=None):
    import reactivex as rx
    from reactivex import operators as ops
    pool = Pool(values if values is not None else HASHABLE_POOL)
    npool = NumPool()
    K = pool.K
    idenc = lambda v: gz(pool.id(v))
    Z = dict(ty="Z", eqb="Z.eqb", enc=idenc, poolvals=True)
    ZN = dict(ty="Z", eqb="Z.eqb", enc=lambda v: gz(v), pool=npool)
    BOOL = dict(ty="bool", eqb="Bool.eqb", enc=gbool)
    T = {}
    cls_tbl = "(tbl [" + "; ".join(f"({i}, Ok {c})" for i, c in enumerate(pool.cls)) + "] (Ok 0))"
    eq_cmp = (f"(fun a b => match {cls_tbl} a, {cls_tbl} b with Ok x, Ok y => Ok (x =? y) "
              f"| _, _ => Raise 0 end)")

    def acc_fn(rng):
        r = rng.choice([None, None, rng.randrange(K)])

        def f(a, x):
            v = (pool.id(a) * 3 + pool.id(x) + 1) % K
            if r is not None and v == r:
                raise UserError(41)
            return pool.val(v)
        body = f"((a * 3 + x + 1) mod {K})"
        g = (f"(fun a x => if {body} =? {r} then Raise 41 else Ok {body})" if r is not None
             else f"(fun a x => Ok {body})")
        return f, g, r

    def g_reduce(rng):
        f, g, r = acc_fn(rng)
        if rng.random() < 0.5:
            seed = pool.val(rng.randrange(K))
            return dict(py=ops.reduce(f, seed), coq=f"op_reduce_seed {g} {gz(pool.id(seed))}",
                        spec=("reduce_seed", f, seed), **Z)
        return dict(py=ops.reduce(f), coq=f"op_reduce {g}", spec=("reduce", f), **Z)
    T["reduce"] = g_reduce

    def g_scan(rng):
        f, g, r = acc_fn(rng)
        if rng.random() < 0.5:
            seed = pool.val(rng.randrange(K))
            return dict(py=ops.scan(f, seed), coq=f"op_scan_seed {g} {gz(pool.id(seed))}",
                        spec=("scan_seed", f, seed), **Z)
        return dict(py=ops.scan(f), coq=f"op_scan {g}", spec=("scan", f), **Z)
    T["scan"] = g_scan

    def g_count(rng):
        if rng.random() < 0.5:
            return dict(py=ops.count(), coq="op_count", ty="Z", eqb="Z.eqb", enc=gz, spec=("count", None))
        p = k2.rand_pred(rng, pool)
        return dict(py=ops.count(p), coq=f"op_count_pred {p.gallina()}", ty="Z", eqb="Z.eqb", enc=gz,
                    spec=("count", p))
    T["count"] = g_count

    def with_default(rng, name, pyf, pyf_default, coqname):
        p = k2.rand_pred(rng, pool) if rng.random() < 0.4 else None
        hasd = rng.random() < 0.5
        d = pool.val(rng.randrange(K))
        if hasd:
            py = pyf_default(p, d)
            cd = f"(Some {gz(pool.id(d))})"
        else:
            py = pyf(p)
            cd = "None"
        coq = f"{coqname}_pred {p.gallina()} {cd}" if p else f"{coqname} {cd}"
        return dict(py=py, coq=coq, spec=(name, p, hasd, d), **Z)

    T["first"] = lambda rng: with_default(rng, "first", lambda p: ops.first(p),
                                          lambda p, d: ops.first_or_default(p, d), "op_first")
    T["last"] = lambda rng: with_default(rng, "last", lambda p: ops.last(p),
                                         lambda p, d: ops.last_or_default(d, p), "op_last")
    T["single"] = lambda rng: with_default(rng, "single", lambda p: ops.single(p),
                                           lambda p, d: ops.single_or_default(p, d), "op_single")

    def g_some(rng):
        if rng.random() < 0.4:
            return dict(py=ops.some(), coq="op_some", spec=("some", None), **BOOL)
        p = k2.rand_pred(rng, pool)
        return dict(py=ops.some(p), coq=f"op_some_pred {p.gallina()}", spec=("some", p), **BOOL)
    T["some"] = g_some

    def g_all(rng):
        p = k2.rand_pred(rng, pool)
        return dict(py=ops.all(p), coq=f"op_all {p.gallina()}", spec=("all", p), **BOOL)
    T["all"] = g_all

    def g_contains(rng):
        v = pool.val(rng.randrange(K))
        return dict(py=ops.contains(v), coq=f"op_contains {eq_cmp} {gz(pool.id(v))}", spec=("contains", v), **BOOL)
    T["contains"] = g_contains

    T["is_empty"] = lambda rng: dict(py=ops.is_empty(), coq="op_is_empty", spec=("is_empty",), **BOOL)

    T["to_list"] = lambda rng: dict(py=ops.to_list(), coq="op_to_list", ty="(list Z)", eqb="(list_eqb Z.eqb)",
                                    enc=lambda v: glist([pool.id(x) for x in v]), spec=("to_list",))

    def set_enc(s):
        return glist(sorted({pool.cls[pool.id(x)] for x in s}))
    T["to_set"] = lambda rng: dict(
        py=ops.to_set(),
        coq=f"op_to_set (fun a b => match {cls_tbl} a, {cls_tbl} b with Ok x, Ok y => x =? y | _, _ => false end)",
        ty="(list Z)", eqb=f"(fun m i => list_eqb Z.eqb (zsort (map (fun a => match {cls_tbl} a with Ok c => c | _ => 0 end) m)) i)",
        enc=set_enc, spec=("to_set",))

    def g_to_dict(rng):
        kf = k2.rand_map(rng, pool)
        ef = k2.rand_map(rng, pool) if rng.random() < 0.5 else None

        def enc(d):
            return "[" + "; ".join(f"({pool.cls[pool.id(k)]}, {pool.id(v)})"
                                   for k, v in sorted(d.items(), key=lambda kv: pool.cls[pool.id(kv[0])])) + "]"
        keq = f"(fun a b => match {cls_tbl} a, {cls_tbl} b with Ok x, Ok y => x =? y | _, _ => false end)"
        cef = ef.gallina() if ef else "(fun x => Ok x)"
        return dict(py=ops.to_dict(kf, ef), coq=f"op_to_dict {keq} {kf.gallina()} {cef}",
                    ty="(list (Z * Z))",
                    eqb=f"(fun m i => list_eqb (pair_eqb Z.eqb Z.eqb) (zsort_pairs (map (fun kv => "
                        f"(match {cls_tbl} (fst kv) with Ok c => c | _ => 0 end, snd kv)) m)) i)",
                    enc=enc, spec=("to_dict", kf, ef))
    T["to_dict"] = g_to_dict

    # numeric
    sub_cmp = "(fun x y => Ok (if x >? y then 1 else if x =? y then 0 else -1))"
    T["sum"] = lambda rng: dict(py=ops.sum(), coq="op_sum", spec=("sum",), **ZN)
    T["min"] = lambda rng: dict(py=ops.min(), coq=f"op_min {sub_cmp}", spec=("min",), **ZN)
    T["max"] = lambda rng: dict(py=ops.max(), coq=f"op_max {sub_cmp}", spec=("max",), **ZN)

    def g_minmax_by(rng):
        which = rng.choice(["min_by", "max_by"])
        m = rng.choice([2, 3, 5])
        raise_on = rng.choice([None, None, 5, 7])

        def key(x):
            if raise_on is not None and x == raise_on:
                raise UserError(51)
            return x % m
        kg = (f"(fun x => if x =? {raise_on} then Raise 51 else Ok (x mod {m}))" if raise_on is not None
              else f"(fun x => Ok (x mod {m}))")
        return dict(py=getattr(ops, which)(key), coq=f"op_{which} {kg} {sub_cmp}", ty="(list Z)",
                    eqb="(list_eqb Z.eqb)", enc=lambda v: glist(v), pool=npool, spec=(which, key), snapshot=True)
    T["min_max_by"] = g_minmax_by

    def g_average(rng):
        return dict(py=ops.average(), coq="op_average_pair (fun x => Ok x)", ty="(Z * Z)",
                    eqb="(fun m i => (fst m * snd i =? fst i * snd m) && negb (snd m =? 0))",
                    enc=avg_enc,
                    pool=npool, spec=("average",))
    T["average"] = g_average

    def g_seq_equal(rng):
        second = [pool.val(rng.randrange(4)) for _ in range(rng.choice([0, 1, 2, 3]))]
        return dict(py=ops.sequence_equal(second),
                    coq=f"op_sequence_equal_iter {eq_cmp} {glist([pool.id(v) for v in second])}",
                    spec=("sequence_equal", second), small_values=True, **BOOL)
    T["sequence_equal"] = g_seq_equal
    return pool, T


def expected(spec, xs, term, pool):
    """reference Python computation -> (outputs [(tag, value)], end) or None (tags: None = not checked)"""
    name = spec[0]
    n = len(xs)
    tin = n + 1

    def src_end():
        return (tin, "C") if term == "C" else (None if term is None else (tin, ("E", term)))

    def at_completion(value_fn, empty_error=None):
        if term == "C":
            try:
                return [(tin, value_fn())], (tin, "C")
            except LookupError:
                return [], (tin, ("E", empty_error))
        return [], src_end()

    def filt(p):
        """elements passing p with their tags; or ('raise', tag, code)"""
        out = []
        for k, x in enumerate(xs):
            try:
                if p is None or p(x):
                    out.append((k + 1, x))
            except UserError as e:
                return ("raise", k + 1, e.code)
        return out

    if name in ("reduce_seed", "reduce", "scan_seed", "scan"):
        f = spec[1]
        acc, has, outs = (spec[2], False, []) if name.endswith("seed") else (None, False, [])
        seeded = name.endswith("seed")
        for k, x in enumerate(xs):
            try:
                if seeded or has:
                    acc = f(acc, x)
                else:
                    acc = x
                has = True
            except UserError as e:
                return (outs if name.startswith("scan") else []), (k + 1, ("E", e.code))
            outs.append((k + 1, acc))
        if name.startswith("scan"):
            return outs, src_end()
        if term == "C":
            if seeded or has:
                return [(tin, acc)], (tin, "C")
            return [], (tin, ("E", -2))
        return [], src_end()
    if name == "count":
        f = filt(spec[1])
        if isinstance(f, tuple):
            return [], (f[1], ("E", f[2]))
        return at_completion(lambda: len(f))
    if name in ("first", "last", "single"):
        _, p, hasd, d = spec
        f = filt(p)
        if isinstance(f, tuple):
            cut = f[1]
            f2 = [e for e in filt_prefix(xs, p, cut)]
            if name == "first" and f2:
                return [f2[0]], (f2[0][0], "C")
            if name == "single" and len(f2) >= 2:
                return [], (f2[1][0], ("E", -3))
            return [], (cut, ("E", f[2]))
        if name == "first":
            if f:
                return [f[0]], (f[0][0], "C")
        elif name == "single":
            if len(f) >= 2:
                return [], (f[1][0], ("E", -3))
        if term == "C":
            if f:
                return [(tin, f[-1][1] if name != "first" else f[0][1])], (tin, "C")
            return ([(tin, d)], (tin, "C")) if hasd else ([], (tin, ("E", -2)))
        return [], src_end()
    if name in ("some", "all", "contains"):
        if name == "some":
            p = spec[1]
        elif name == "all":
            q = spec[1]
            p = lambda x: not q(x)
        else:
            v = spec[1]
            p = lambda x: x == v
        for k, x in enumerate(xs):
            try:
                hit = True if p is None else p(x)
            except UserError as e:
                return [], (k + 1, ("E", e.code))
            if hit:
                return [(k + 1, name != "all")], (k + 1, "C")
        if term == "C":
            return [(tin, name == "all")], (tin, "C")
        return [], src_end()
    if name == "is_empty":
        if xs:
            return [(1, False)], (1, "C")
        return ([(tin, True)], (tin, "C")) if term == "C" else ([], src_end())
    if name == "to_list":
        return at_completion(lambda: list(xs))
    if name == "to_set":
        return at_completion(lambda: set(xs))
    if name == "to_dict":
        _, kf, ef = spec
        d = {}
        for k, x in enumerate(xs):
            try:
                key = kf(x)
                d[key] = ef(x) if ef else x
            except UserError as e:
                return [], (k + 1, ("E", e.code))
        return at_completion(lambda: d)
    if name == "sum":
        return at_completion(lambda: sum(xs))
    if name in ("min", "max"):
        def v():
            if not xs:
                raise LookupError()
            return min(xs) if name == "min" else max(xs)
        return at_completion(v, -2)
    if name in ("min_by", "max_by"):
        key = spec[1]
        keys = []
        for k, x in enumerate(xs):
            try:
                keys.append(key(x))
            except UserError as e:
                return [], (k + 1, ("E", e.code))
        def v():
            if not xs:
                return []
            best = min(keys) if name == "min_by" else max(keys)
            return [x for x, kk in zip(xs, keys) if kk == best]
        return at_completion(v)
    if name == "average":
        def v():
            if not xs:
                raise LookupError()
            return sum(xs) / float(len(xs))
        return at_completion(v, -2)
    if name == "sequence_equal":
        second = spec[1]
        for k, x in enumerate(xs):
            if k >= len(second) or not (second[k] == x):
                return [(k + 1, False)], (k + 1, "C")
        if term == "C":
            return [(tin, len(xs) == len(second))], (tin, "C")
        return [], src_end()
    return None


def filt_prefix(xs, p, cut):
    out = []
    for k, x in enumerate(xs[:cut - 1]):
        if p is None or p(x):
            out.append((k + 1, x))
    return out


def run(chk):
    chk.build_and_prove()
    pool, T = ops_table()
    def gen(rng, p, maxlen=7):
        if isinstance(p, NumPool):
            return num_inputs(rng, p, maxlen)
        return k2.gen_inputs(rng, p, maxlen)
    C05.run_table(chk, "C06", pool, T, expected, IMPORTS, gen_inputs=gen)
    return chk.finish(trusted_extra=["hot-source K2 driver (harness/k2.py); callback tables mirrored in Gallina",
                                     "average: the model yields the exact pair (sum, count); the harness compares it "
                                     "with the implementation's float as an exact fraction (ints below 2^53)"])


def replay(chk, path):
    print(open(path).read())
    return 1
