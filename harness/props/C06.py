"""C06 -- aggregating operators match their reference semantics.

Theorems (Props/C06.v) on the machines of Ops/Aggregates.v (derived operators
composed exactly as the code pipes them, via the composition theorem); tie: K2
(hot source, non-conforming tails, raising callbacks); oracle: the equivalent
Python computation on the implementation's output."""
import functools
import json
import random
from fractions import Fraction

import c06_numeric
import k2
import lib
from k2 import Pool, HASHABLE_POOL, UserError
from lib import gz, glist, gbool, gopt
from props import C05

IMPORTS = "Base.Prelude Base.CaseLib Ops.Machine Ops.Elementwise Ops.Aggregates"


class NumPool:
    """integers stand for themselves"""
    K = 12

    def __init__(self):
        self.values = [0, 1, -1, 2, 5, -3, 7, 10, 3, 4, -7, 6]
        self.cls = list(range(self.K))

    def id(self, v):
        return int(v)

    def val(self, i):
        return self.values[i % self.K]


def avg_enc(v):
    """the float the implementation produced, as the small exact fraction whose
    float division gives exactly that float (checked); else the raw float ratio"""
    fr = Fraction(v).limit_denominator(64)
    if float(fr.numerator) / float(fr.denominator) != v:
        fr = Fraction(v)
    return f"({gz(fr.numerator)}, {gz(fr.denominator)})"


def num_inputs(rng, pool, maxlen=7, **kw):
    n = rng.choice([0, 1, 1, 2, 2, 3, 3, 4, 5, maxlen])
    ins = [("N", rng.choice(pool.values)) for _ in range(n)]
    t = rng.random()
    if t < 0.6:
        ins.append(("C",))
    elif t < 0.85:
        ins.append(("E", UserError(rng.choice([11, 12]))))
    if rng.random() < 0.2:
        ins.append(rng.choice([("N", 1), ("C",), ("E", UserError(13))]))
    return ins


def ops_table(values=None):
    import reactivex as rx
    from reactivex import operators as ops
    pool = Pool(values if values is not None else HASHABLE_POOL)
    npool = NumPool()
    K = pool.K
    idenc = lambda v: gz(pool.id(v))
    Z = dict(ty="Z", eqb="Z.eqb", enc=idenc, poolvals=True)
    ZN = dict(ty="Z", eqb="Z.eqb", enc=lambda v: gz(v), pool=npool)
    BOOL = dict(ty="bool", eqb="Bool.eqb", enc=gbool)
    T = {}
    cls_tbl = "(tbl [" + "; ".join(f"({i}, Ok {c})" for i, c in enumerate(pool.cls)) + "] (Ok 0))"
    eq_cmp = (f"(fun a b => match {cls_tbl} a, {cls_tbl} b with Ok x, Ok y => Ok (x =? y) "
              f"| _, _ => Raise 0 end)")

    def acc_fn(rng):
        r = rng.choice([None, None, rng.randrange(K)])

        def f(a, x):
            v = (pool.id(a) * 3 + pool.id(x) + 1) % K
            if r is not None and v == r:
                raise UserError(41)
            return pool.val(v)
        body = f"((a * 3 + x + 1) mod {K})"
        g = (f"(fun a x => if {body} =? {r} then Raise 41 else Ok {body})" if r is not None
             else f"(fun a x => Ok {body})")
        return f, g, r

    def g_reduce(rng):
        f, g, r = acc_fn(rng)
        if rng.random() < 0.5:
            seed = pool.val(rng.randrange(K))
            return dict(py=ops.reduce(f, seed), coq=f"op_reduce_seed {g} {gz(pool.id(seed))}",
                        spec=("reduce_seed", f, seed), **Z)
        return dict(py=ops.reduce(f), coq=f"op_reduce {g}", spec=("reduce", f), **Z)
    T["reduce"] = g_reduce

    def g_scan(rng):
        f, g, r = acc_fn(rng)
        if rng.random() < 0.5:
            seed = pool.val(rng.randrange(K))
            return dict(py=ops.scan(f, seed), coq=f"op_scan_seed {g} {gz(pool.id(seed))}",
                        spec=("scan_seed", f, seed), **Z)
        return dict(py=ops.scan(f), coq=f"op_scan {g}", spec=("scan", f), **Z)
    T["scan"] = g_scan

    def g_count(rng):
        if rng.random() < 0.5:
            return dict(py=ops.count(), coq="op_count", ty="Z", eqb="Z.eqb", enc=gz, spec=("count", None))
        p = k2.rand_pred(rng, pool)
        return dict(py=ops.count(p), coq=f"op_count_pred {p.gallina()}", ty="Z", eqb="Z.eqb", enc=gz,
                    spec=("count", p))
    T["count"] = g_count

    def with_default(rng, name, pyf, pyf_default, coqname):
        p = k2.rand_pred(rng, pool) if rng.random() < 0.4 else None
        hasd = rng.random() < 0.5
        d = pool.val(rng.randrange(K))
        if hasd:
            py = pyf_default(p, d)
            cd = f"(Some {gz(pool.id(d))})"
        else:
            py = pyf(p)
            cd = "None"
        coq = f"{coqname}_pred {p.gallina()} {cd}" if p else f"{coqname} {cd}"
        return dict(py=py, coq=coq, spec=(name, p, hasd, d), **Z)

    T["first"] = lambda rng: with_default(rng, "first", lambda p: ops.first(p),
                                          lambda p, d: ops.first_or_default(p, d), "op_first")
    T["last"] = lambda rng: with_default(rng, "last", lambda p: ops.last(p),
                                         lambda p, d: ops.last_or_default(d, p), "op_last")
    T["single"] = lambda rng: with_default(rng, "single", lambda p: ops.single(p),
                                           lambda p, d: ops.single_or_default(p, d), "op_single")

    def g_some(rng):
        if rng.random() < 0.4:
            return dict(py=ops.some(), coq="op_some", spec=("some", None), **BOOL)
        p = k2.rand_pred(rng, pool)
        return dict(py=ops.some(p), coq=f"op_some_pred {p.gallina()}", spec=("some", p), **BOOL)
    T["some"] = g_some

    def g_all(rng):
        p = k2.rand_pred(rng, pool)
        return dict(py=ops.all(p), coq=f"op_all {p.gallina()}", spec=("all", p), **BOOL)
    T["all"] = g_all

    def eq_cmp_family(rng):
        """equality comparer parameter (contains, sequence_equal), symmetric in its arguments:
        None (default_comparer, ==), 'same id modulo m', or an arbitrary relation given by a predicate table
        on (id a + id b) mod K that may raise.
        -> (python callable | None, Gallina text, ref(a, b) -> ('ok', bool) | ('raise', code), kind)"""
        kind = rng.choice(["default", "default", "modm", "table"])
        if kind == "default":
            return None, eq_cmp, (lambda a, b: ("ok", a == b)), kind
        if kind == "modm":
            m = rng.choice([2, 3])
            ref = lambda a, b: ("ok", pool.id(a) % m == pool.id(b) % m)
            g = f"(fun a b => Ok ((a mod {m}) =? (b mod {m})))"
        else:
            p = k2.rand_pred(rng, pool)
            ref = lambda a, b: p.at((pool.id(a) + pool.id(b)) % K)
            g = f"(fun a b => {p.gallina()} ((a + b) mod {K}))"

        def cmp(a, b):
            k2.CALLS.append(k2.CURRENT_TAG[0])
            r = ref(a, b)
            if r[0] == "raise":
                raise UserError(r[1])
            return r[1]
        return cmp, g, ref, kind

    def g_contains(rng):
        v = pool.val(rng.randrange(K))
        cmp, g, ref, kind = eq_cmp_family(rng)
        py = ops.contains(v) if cmp is None else ops.contains(v, cmp)
        return dict(py=py, coq=f"op_contains {g} {gz(pool.id(v))}", spec=("contains", v, ref, kind), **BOOL)
    T["contains"] = g_contains

    T["is_empty"] = lambda rng: dict(py=ops.is_empty(), coq="op_is_empty", spec=("is_empty",), **BOOL)

    T["to_list"] = lambda rng: dict(py=ops.to_list(), coq="op_to_list", ty="(list Z)", eqb="(list_eqb Z.eqb)",
                                    enc=lambda v: glist([pool.id(x) for x in v]), spec=("to_list",))

    def set_enc(s):
        return glist(sorted({pool.cls[pool.id(x)] for x in s}))
    T["to_set"] = lambda rng: dict(
        py=ops.to_set(),
        coq=f"op_to_set (fun a b => match {cls_tbl} a, {cls_tbl} b with Ok x, Ok y => x =? y | _, _ => false end)",
        ty="(list Z)", eqb=f"(fun m i => list_eqb Z.eqb (zsort (map (fun a => match {cls_tbl} a with Ok c => c | _ => 0 end) m)) i)",
        enc=set_enc, spec=("to_set",))

    def g_to_dict(rng):
        kf = k2.rand_map(rng, pool)
        ef = k2.rand_map(rng, pool) if rng.random() < 0.5 else None

        def enc(d):
            return "[" + "; ".join(f"({pool.cls[pool.id(k)]}, {pool.id(v)})"
                                   for k, v in sorted(d.items(), key=lambda kv: pool.cls[pool.id(kv[0])])) + "]"
        keq = f"(fun a b => match {cls_tbl} a, {cls_tbl} b with Ok x, Ok y => x =? y | _, _ => false end)"
        cef = ef.gallina() if ef else "(fun x => Ok x)"
        return dict(py=ops.to_dict(kf, ef), coq=f"op_to_dict {keq} {kf.gallina()} {cef}",
                    ty="(list (Z * Z))",
                    eqb=f"(fun m i => list_eqb (pair_eqb Z.eqb Z.eqb) (zsort_pairs (map (fun kv => "
                        f"(match {cls_tbl} (fst kv) with Ok c => c | _ => 0 end, snd kv)) m)) i)",
                    enc=enc, spec=("to_dict", kf, ef))
    T["to_dict"] = g_to_dict

    # numeric
    base_cmp = "(if x >? y then 1 else if x =? y then 0 else -1)"
    sub_cmp = f"(fun x y => Ok {base_cmp})"

    def sub_cmp_family(rng):
        """three-way comparer parameter of min / max / min_by / max_by over integers: None (default), the
        reversed order, the order of the residues modulo m (a preorder: distinct values compare equal), a
        comparer returning magnitudes other than +-1, or the default order raising on some pairs.
        -> (python callable | None, Gallina text, ref(a, b) -> ('ok', int) | ('raise', code), kind)"""
        kind = rng.choice(["default", "default", "reversed", "mod", "scaled", "raising"])
        sign = lambda a, b: (a > b) - (a < b)
        if kind == "default":
            return None, sub_cmp, (lambda a, b: ("ok", sign(a, b))), kind
        if kind == "reversed":
            ref = lambda a, b: ("ok", sign(b, a))
            g = "(fun x y => Ok (if y >? x then 1 else if y =? x then 0 else -1))"
        elif kind == "mod":
            m = rng.choice([2, 3, 5])
            ref = lambda a, b: ("ok", sign(a % m, b % m))
            g = (f"(fun x0 y0 => Ok (let x := x0 mod {m} in let y := y0 mod {m} in {base_cmp}))")
        elif kind == "scaled":
            ref = lambda a, b: ("ok", (a - b) * 3)
            g = "(fun x y => Ok ((x - y) * 3))"
        else:
            r = rng.randrange(7)
            ref = lambda a, b: ("raise", 52) if (a + b) % 7 == r else ("ok", sign(a, b))
            g = f"(fun x y => if (x + y) mod 7 =? {r} then Raise 52 else Ok {base_cmp})"

        def cmp(a, b):
            k2.CALLS.append(k2.CURRENT_TAG[0])
            x = ref(a, b)
            if x[0] == "raise":
                raise UserError(x[1])
            return x[1]
        return cmp, g, ref, kind

    def int_key(rng):
        """key mapper from pool values (None, '', () ... included) to small integers, sometimes raising"""
        entries = {i: ("ok", rng.randrange(-6, 12)) for i in range(K)}
        if rng.random() < 0.3:
            for i in rng.sample(range(K), 2):
                entries[i] = ("raise", 53)
        return k2.Table(pool, entries, ("ok", 0), gz)

    def g_sum(rng):
        if rng.random() < 0.5:
            return dict(py=ops.sum(), coq="op_sum", spec=("sum",), **ZN)
        key = int_key(rng)                        # _sum.py: map(key_mapper) ; sum()
        return dict(py=ops.sum(key), coq=f"op_sum_key {key.gallina()}", ty="Z", eqb="Z.eqb", enc=gz,
                    spec=("sum_key", key))
    T["sum"] = g_sum

    def g_minmax(rng, which):
        cmp, g, ref, kind = sub_cmp_family(rng)
        op = getattr(ops, which)
        return dict(py=(op() if cmp is None else op(cmp)), coq=f"op_{which} {g}", spec=(which, ref, kind), **ZN)
    T["min"] = lambda rng: g_minmax(rng, "min")
    T["max"] = lambda rng: g_minmax(rng, "max")

    def g_minmax_by(rng):
        which = rng.choice(["min_by", "max_by"])
        m = rng.choice([2, 3, 5])
        raise_on = rng.choice([None, None, 5, 7])

        def key(x):
            if raise_on is not None and x == raise_on:
                raise UserError(51)
            return x % m
        kg = (f"(fun x => if x =? {raise_on} then Raise 51 else Ok (x mod {m}))" if raise_on is not None
              else f"(fun x => Ok (x mod {m}))")
        cmp, g, ref, kind = sub_cmp_family(rng)
        op = getattr(ops, which)
        return dict(py=(op(key) if cmp is None else op(key, cmp)), coq=f"op_{which} {kg} {g}", ty="(list Z)",
                    eqb="(list_eqb Z.eqb)", enc=lambda v: glist(v), pool=npool, spec=(which, key, ref, kind),
                    snapshot=True)
    T["min_max_by"] = g_minmax_by

    AVG = dict(ty="(Z * Z)", eqb="(fun m i => (fst m * snd i =? fst i * snd m) && negb (snd m =? 0))", enc=avg_enc)

    def g_average(rng):
        if rng.random() < 0.5:
            return dict(py=ops.average(), coq="op_average_pair (fun x => Ok x)", pool=npool, spec=("average",), **AVG)
        key = int_key(rng)                        # _average.py: key_mapper instead of float()
        return dict(py=ops.average(key), coq=f"op_average_pair {key.gallina()}", spec=("average_key", key), **AVG)
    T["average"] = g_average

    def g_seq_equal(rng):
        second_ids = [rng.randrange(4) for _ in range(rng.choice([0, 1, 2, 3, 4]))]
        second = [pool.val(i) for i in second_ids]
        cmp, g, ref, kind = eq_cmp_family(rng)

        def gen_inputs(rng, maxlen=7):
            """the source: the second sequence, often changed in one place / longer / shorter"""
            ids = list(second_ids)
            r = rng.random()
            if ids and r < 0.25:
                ids[rng.randrange(len(ids))] = rng.randrange(K)
            elif r < 0.4:
                ids.append(rng.randrange(K))
            elif ids and r < 0.55:
                ids.pop()
            elif r > 0.9:
                ids = [rng.randrange(K) for _ in range(rng.choice([1, 2, 3]))]
            ins = [("N", pool.val(i)) for i in ids]
            t = rng.random()
            if t < 0.65:
                ins.append(("C",))
            elif t < 0.85:
                ins.append(("E", UserError(rng.choice([11, 12]))))
            if rng.random() < 0.2:
                ins.append(rng.choice([("N", pool.val(rng.randrange(K))), ("C",), ("E", UserError(13))]))
            return ins
        py = ops.sequence_equal(second) if cmp is None else ops.sequence_equal(second, cmp)
        return dict(py=py, coq=f"op_sequence_equal_iter {g} {glist(second_ids)}",
                    spec=("sequence_equal", second, ref, kind), small_values=True, gen_inputs=gen_inputs, **BOOL)
    T["sequence_equal"] = g_seq_equal
    return pool, T


def expected(spec, xs, term, pool):
    """reference Python computation -> (outputs [(tag, value)], end) or None (tags: None = not checked)"""
    name = spec[0]
    n = len(xs)
    tin = n + 1

    def src_end():
        return (tin, "C") if term == "C" else (None if term is None else (tin, ("E", term)))

    def at_completion(value_fn, empty_error=None):
        if term == "C":
            try:
                return [(tin, value_fn())], (tin, "C")
            except LookupError:
                return [], (tin, ("E", empty_error))
        return [], src_end()

    def filt(p):
        """elements passing p with their tags; or ('raise', tag, code)"""
        out = []
        for k, x in enumerate(xs):
            try:
                if p is None or p(x):
                    out.append((k + 1, x))
            except UserError as e:
                return ("raise", k + 1, e.code)
        return out

    if name in ("reduce_seed", "reduce", "scan_seed", "scan"):
        f = spec[1]
        acc, has, outs = (spec[2], False, []) if name.endswith("seed") else (None, False, [])
        seeded = name.endswith("seed")
        for k, x in enumerate(xs):
            try:
                if seeded or has:
                    acc = f(acc, x)
                else:
                    acc = x
                has = True
            except UserError as e:
                return (outs if name.startswith("scan") else []), (k + 1, ("E", e.code))
            outs.append((k + 1, acc))
        if name.startswith("scan"):
            return outs, src_end()
        if term == "C":
            if seeded or has:
                return [(tin, acc)], (tin, "C")
            return [], (tin, ("E", -2))
        return [], src_end()
    if name == "count":
        f = filt(spec[1])
        if isinstance(f, tuple):
            return [], (f[1], ("E", f[2]))
        return at_completion(lambda: len(f))
    if name in ("first", "last", "single"):
        _, p, hasd, d = spec
        f = filt(p)
        if isinstance(f, tuple):
            cut = f[1]
            f2 = [e for e in filt_prefix(xs, p, cut)]
            if name == "first" and f2:
                return [f2[0]], (f2[0][0], "C")
            if name == "single" and len(f2) >= 2:
                return [], (f2[1][0], ("E", -3))
            return [], (cut, ("E", f[2]))
        if name == "first":
            if f:
                return [f[0]], (f[0][0], "C")
        elif name == "single":
            if len(f) >= 2:
                return [], (f[1][0], ("E", -3))
        if term == "C":
            if f:
                return [(tin, f[-1][1] if name != "first" else f[0][1])], (tin, "C")
            return ([(tin, d)], (tin, "C")) if hasd else ([], (tin, ("E", -2)))
        return [], src_end()
    if name in ("some", "all", "contains"):
        if name == "some":
            p = spec[1]
        elif name == "all":
            q = spec[1]
            p = lambda x: not q(x)
        else:
            v, ref = spec[1], spec[2]

            def p(x):
                r = ref(x, v)            # the comparers of the family are symmetric
                if r[0] == "raise":
                    raise RefRaise(r[1])
                return r[1]
        for k, x in enumerate(xs):
            try:
                hit = True if p is None else p(x)
            except (UserError, RefRaise) as e:
                return [], (k + 1, ("E", e.code))
            if hit:
                return [(k + 1, name != "all")], (k + 1, "C")
        if term == "C":
            return [(tin, name == "all")], (tin, "C")
        return [], src_end()
    if name == "is_empty":
        if xs:
            return [(1, False)], (1, "C")
        return ([(tin, True)], (tin, "C")) if term == "C" else ([], src_end())
    if name == "to_list":
        return at_completion(lambda: list(xs))
    if name == "to_set":
        return at_completion(lambda: set(xs))
    if name == "to_dict":
        _, kf, ef = spec
        d = {}
        for k, x in enumerate(xs):
            try:
                key = kf(x)
                d[key] = ef(x) if ef else x
            except UserError as e:
                return [], (k + 1, ("E", e.code))
        return at_completion(lambda: d)
    if name == "sum":
        return at_completion(lambda: sum(xs))
    if name in ("sum_key", "average_key"):
        keys = []
        for k, x in enumerate(xs):
            try:
                keys.append(spec[1](x))
            except UserError as e:
                return [], (k + 1, ("E", e.code))

        def v():
            if name == "sum_key":
                return sum(keys)
            if not keys:
                raise LookupError()
            return sum(keys) / float(len(keys))
        return at_completion(v, -2)
    if name in ("min", "max", "min_by", "max_by"):
        # reference: Python's own min / max under functools.cmp_to_key(comparer) (first extremal element);
        # min_by / max_by: every element whose key compares equal to the extremal key, in arrival order.
        # Judged only when the comparer raises on no pair of keys of this input (otherwise: model only)
        by = name.endswith("_by")
        ref = spec[2] if by else spec[1]
        keys = []
        for k, x in enumerate(xs):
            if by:
                try:
                    keys.append(spec[1](x))
                except UserError as e:
                    return [], (k + 1, ("E", e.code))
            else:
                keys.append(x)
        if any(ref(a, b)[0] == "raise" for a in keys for b in keys):
            return None
        ck = functools.cmp_to_key(lambda a, b: ref(a, b)[1])

        def v():
            if not xs:
                if by:
                    return []
                raise LookupError()
            best = (min if name.startswith("min") else max)(keys, key=ck)
            if not by:
                return best
            return [x for x, kk in zip(xs, keys) if ref(kk, best)[1] == 0]
        return at_completion(v, -2)
    if name == "average":
        def v():
            if not xs:
                raise LookupError()
            return sum(xs) / float(len(xs))
        return at_completion(v, -2)
    if name == "sequence_equal":
        second, ref = spec[1], spec[2]
        for k, x in enumerate(xs):
            if k >= len(second):
                return [(k + 1, False)], (k + 1, "C")
            r = ref(second[k], x)
            if r[0] == "raise":
                return [], (k + 1, ("E", r[1]))
            if not r[1]:
                return [(k + 1, False)], (k + 1, "C")
        if term == "C":
            return [(tin, len(xs) == len(second))], (tin, "C")
        return [], src_end()
    return None


class RefRaise(Exception):
    """the reference comparer says: raises (carries the code; does not touch the harness' raise bookkeeping)"""

    def __init__(self, code):
        super().__init__(code)
        self.code = code


def filt_prefix(xs, p, cut):
    out = []
    for k, x in enumerate(xs[:cut - 1]):
        if p is None or p(x):
            out.append((k + 1, x))
    return out


def gen_inputs_for(rng, p, maxlen=7):
    if isinstance(p, NumPool):
        return num_inputs(rng, p, maxlen)
    return k2.gen_inputs(rng, p, maxlen)


# --------------------------------------------------------------------------
# sequence_equal with an OBSERVABLE second argument: two hand-driven hot sources
# (k2m), machine Ops/SeqEqual.v, oracle written from the property text
# --------------------------------------------------------------------------

IMPORTS_SE = "Base.Prelude Base.CaseLib Ops.Machine Ops.Multi Ops.MultiCase Ops.SeqEqual"
SE_MODES = ["random", "first_then_second", "second_then_first", "alternate", "alternate_from_second", "bursts"]


def se_case(case_seed):
    """everything about one case from its seed -> dict(cmp, coq, ref, kind, events, dispose_at, warmup, mode)"""
    rng = random.Random(case_seed)
    pool = Pool(HASHABLE_POOL)
    K = pool.K
    kind = rng.choice(["default", "default", "modm", "table"])
    cls_tbl = "(tbl [" + "; ".join(f"({i}, Ok {c})" for i, c in enumerate(pool.cls)) + "] (Ok 0))"
    if kind == "default":
        cmp = None
        ref = lambda a, b: ("ok", a == b)
        g = (f"(fun a b => match {cls_tbl} a, {cls_tbl} b with Ok x, Ok y => Ok (x =? y) | _, _ => Raise 0 end)")
    elif kind == "modm":
        m = rng.choice([2, 3])
        ref = lambda a, b: ("ok", pool.id(a) % m == pool.id(b) % m)
        g = f"(fun a b => Ok ((a mod {m}) =? (b mod {m})))"
    else:
        p = k2.rand_pred(rng, pool, p_raise=0.25)
        ref = lambda a, b: p.at((pool.id(a) + pool.id(b)) % K)
        g = f"(fun a b => {p.gallina()} ((a + b) mod {K}))"
    if kind != "default":
        def cmp(a, b):
            r = ref(a, b)
            if r[0] == "raise":
                raise UserError(r[1])
            return r[1]
    # the two sequences: the second is the first, often changed in one place / longer / shorter
    small = rng.random() < 0.6
    draw = (lambda: rng.randrange(6)) if small else (lambda: rng.randrange(K))
    left = []
    sticky = rng.random() < 0.4
    for _ in range(rng.choice([0, 1, 1, 2, 2, 3, 3, 4, 5])):
        left.append(left[-1] if (left and sticky and rng.random() < 0.5) else draw())
    right = list(left)
    r = rng.random()
    if right and r < 0.22:
        right[rng.randrange(len(right))] = draw()
    elif r < 0.36:
        right.append(draw())
    elif right and r < 0.5:
        right.pop()
    elif r > 0.92:
        right = [draw() for _ in range(rng.choice([0, 1, 2, 3]))]
    streams = []
    for k, ids in enumerate((left, right)):
        st = [(k, ("N", pool.val(i))) for i in ids]
        t = rng.random()
        if t < 0.7:
            st.append((k, ("C",)))
        elif t < 0.82:
            st.append((k, ("E", UserError(11 + k))))
        if rng.random() < 0.12:      # non-conforming tail: must change nothing
            st.append((k, rng.choice([("N", pool.val(draw())), ("C",), ("E", UserError(13))])))
        streams.append(st)
    mode = rng.choice(SE_MODES)
    order = []
    rest = [list(st) for st in streams]
    if mode in ("first_then_second", "second_then_first"):
        for k in ([0, 1] if mode == "first_then_second" else [1, 0]):
            order.extend(rest[k])
    elif mode.startswith("alternate"):
        k = 0 if mode == "alternate" else 1
        while rest[0] or rest[1]:
            if rest[k]:
                order.append(rest[k].pop(0))
            k = 1 - k
    else:
        while rest[0] or rest[1]:
            k = rng.choice([j for j in (0, 1) if rest[j]])
            for _ in range(rng.randint(2, 3) if mode == "bursts" else 1):
                if rest[k]:
                    order.append(rest[k].pop(0))
    events = [(10 * (i + 1), k, ev) for i, (k, ev) in enumerate(order)]
    dispose_at = None
    if events and rng.random() < 0.1:
        dispose_at = rng.choice(events)[0]
    warm = None
    if rng.random() < 0.3:
        warm = [(0, rng.randrange(2), ("N", pool.val(draw()))) for _ in range(rng.choice([1, 2, 3]))]
        if rng.random() < 0.5:
            warm.append((0, rng.randrange(2), rng.choice([("C",), ("E", UserError(14))])))
    return dict(pool=pool, cmp=cmp, coq=f"x_sequence_equal {g}", ref=ref, kind=kind, events=events,
                dispose_at=dispose_at, warmup=warm, mode=mode)


def se_run(case):
    import k2m
    from reactivex import operators as ops

    def build(env, ss):
        if case["cmp"] is None:
            return ss[0].pipe(ops.sequence_equal(ss[1]))
        return ss[0].pipe(ops.sequence_equal(ss[1], case["cmp"]))
    return k2m.run_multi(build, 2, case["events"], dispose_at=case["dispose_at"], warmup=case["warmup"])


def se_decide(ref, L, R, done):
    """what the two sequences seen so far decide: False | True | ('E', code) | None (nothing yet)"""
    for i in range(min(len(L), len(R))):
        r = ref(L[i], R[i])
        if r[0] == "raise":
            return ("E", r[1])
        if not r[1]:
            return False
    if done[0] and len(R) > len(L):
        return False
    if done[1] and len(L) > len(R):
        return False
    if done[0] and done[1]:
        return True
    return None


def se_oracle(case, res):
    """-> (None | description, expected, observed).  Reference: after every delivered notification the
    answer is re-computed from scratch from the two well-formed prefixes seen so far; the output must be
    exactly [answer, completion] (or the error) at the FIRST position where an answer exists:
      False  as soon as both i-th elements are present and differ, or one side is complete and the other longer;
      True   when both sides are complete, equally long and pairwise equal;
      error  a source's error (or the comparer's exception on the first pair it is asked about) passes through;
    nothing before that position, nothing after it, nothing after dispose()."""
    L, R = [], []
    done, ended = [False, False], [False, False]
    expected = None
    for pos, (now, i) in enumerate(res["inputs"]):
        tag = pos + 1
        if i[0] == "dispose":
            break
        if i[0] != "src":
            continue
        k, ev = i[1], i[2]
        if ended[k]:
            continue                      # after a source's terminal: not part of a well-formed sequence
        if ev[0] == "N":
            (L if k == 0 else R).append(ev[1])
        elif ev[0] == "E":
            expected = [(tag, "E", k2.err_id(ev[1]))]
            break
        else:
            done[k] = ended[k] = True
        d = se_decide(case["ref"], L, R, done)
        if d is not None:
            expected = [(tag, "E", d[1])] if isinstance(d, tuple) else [(tag, "N", d), (tag, "C", None)]
            break
    observed = []
    for (tag, kind, a, b) in res["log"]:
        if kind == "emit":
            observed.append((tag, a, k2.err_id(b) if a == "E" else b))
    if res["escapes"]:
        return (f"exception escaped into the emitter: {[repr(e) for _, e in res['escapes']]}", expected, observed)
    exp = expected or []
    if len(exp) != len(observed) or any(e != o or type(e[2]) is not type(o[2]) for e, o in zip(exp, observed)):
        return ("output differs from the reference", exp, observed)
    return (None, exp, observed)


def seq_equal_obs(chk):
    import k2m
    n = 240 if chk.tier == "quick" else 4000
    cases, nontrivial = [], set()
    hist = {"modes": {}, "comparer": {}, "answer": {"True": 0, "False": 0, "error": 0, "none": 0},
            "second_source_ahead_at_some_point": 0, "decided_before_any_completion": 0, "with_dispose": 0,
            "resubscribed": 0}
    for ci in range(n):
        seed = chk.rng.getrandbits(48)
        case = se_case(seed)
        res = se_run(case)
        chk.cov["evaluations"] += 1
        if res["build_error"] is not None:
            raise RuntimeError(f"sequence_equal(observable): build error {res['build_error']!r}")
        pool = case["pool"]
        gi = k2m.g_inputs(res["inputs"], enc_in=lambda v: gz(pool.id(v)))
        gt = k2m.g_trace(res, gbool)
        hist["modes"][case["mode"]] = hist["modes"].get(case["mode"], 0) + 1
        hist["comparer"][case["kind"]] = hist["comparer"].get(case["kind"], 0) + 1
        if case["dispose_at"] is not None:
            hist["with_dispose"] += 1
        if case["warmup"] is not None:
            hist["resubscribed"] += 1
        cnt = [0, 0]
        ahead = False
        for (_, i) in res["inputs"]:
            if i[0] == "src" and i[2][0] == "N":
                cnt[i[1]] += 1
                ahead = ahead or cnt[1] > cnt[0]
        hist["second_source_ahead_at_some_point"] += ahead
        bad, exp, obs = se_oracle(case, res)
        a = "none" if not exp else ("error" if exp[0][1] == "E" else str(exp[0][2]))
        hist["answer"][a] += 1
        if exp and exp[0][1] == "N":
            before = [i for (_, i) in res["inputs"][:exp[0][0] - 1] if i[0] == "src" and i[2][0] == "C"]
            last = res["inputs"][exp[0][0] - 1][1]
            if not before and last[2][0] == "N":
                hist["decided_before_any_completion"] += 1
        if bad:
            chk.violation(f"sequence_equal(observable)|{bad[:40]}|{gi}|{case['kind']}",
                          {"family": "seq_equal_obs", "case_seed": seed, "machine": case["coq"],
                           "inputs (now, event; ids into pool)": gi, "pool": [repr(v) for v in pool.values],
                           "what": bad, "expected (tag, kind, payload)": repr(exp), "implementation": repr(obs),
                           "oracle": se_oracle.__doc__}, size=len(res["inputs"]))
        elif exp and len(res["inputs"]) >= 3:
            nontrivial.add(gi + case["coq"])
        cases.append((f"({case['coq']}, {gi})", gt))
    prelude = "Definition model (c : machine Z bool * list (Z * inp Z)) := run_canon (fst c) (snd c).\n"
    bad, logs = lib.correspondence("C06", "seqeq", IMPORTS_SE,
                                   "(machine Z bool * list (Z * inp Z)) * list (nat * obs bool)",
                                   "model", "(trace_eqb Bool.eqb)", cases, prelude=prelude)
    chk.cov["traces_validated_against_impl"] += len(cases)
    chk.cov["disagreements_checked"] += len(cases)
    if bad:
        firsts = [cases[i] for i in bad if i >= 0][:3]
        d = {"n": len(bad), "first (machine+inputs, implementation trace)": firsts, "logs": logs[:1]}
        if firsts:
            d["model_says"] = lib.coq_show("C06", IMPORTS_SE, f"model {firsts[0][0]}", prelude)
        chk.tie_broken("correspondence K2 two sources: x_sequence_equal (Ops/SeqEqual.v) vs implementation", d)
    chk.add_samples([{"case": cases[0][0], "trace": cases[0][1]}], limit=7)
    return nontrivial, hist


def run(chk):
    chk.build_and_prove()
    pool, T = ops_table()
    C05.run_table(chk, "C06", pool, T, expected, IMPORTS, gen_inputs=gen_inputs_for)
    nt, hist = seq_equal_obs(chk)
    chk.cov["distinct_nontrivial_single_source_table"] = chk.cov["distinct_nontrivial"]
    chk.cov["distinct_nontrivial_sequence_equal_observable"] = len(nt)
    chk.cov["distinct_nontrivial"] += len(nt)
    chk.cov["sequence_equal_observable"] = hist
    nt2, hist2 = c06_numeric.run_family(chk)
    chk.cov["distinct_nontrivial_numeric_family"] = len(nt2)
    chk.cov["distinct_nontrivial"] += len(nt2)
    chk.cov["numeric_family"] = hist2
    chk.cov["rule"] += ("; comparer parameters are drawn from small families mirrored in Gallina: min / max / min_by / "
                        "max_by -- default, reversed order, order of residues modulo m, magnitudes other than +-1, "
                        "raising on some pairs (reference: Python min/max under functools.cmp_to_key, judged when the "
                        "comparer raises on no pair of keys of the input); contains / sequence_equal -- default, same id "
                        "modulo m, arbitrary symmetric relation that may raise; sum(key_mapper) / average(key_mapper) "
                        "with integer-valued key tables over the pool values.  PLUS sequence_equal(observable): seeded "
                        "pairs of sequences (the second = the first changed in one place / longer / shorter / "
                        "unrelated) delivered by two hand-driven hot sources in 6 interleaving modes, terminals "
                        "C/E/none per source, 12% non-conforming tails, 10% dispose, 30% after an abandoned earlier "
                        "subscription; two-source machine Ops/SeqEqual.v compared on the whole boundary trace "
                        "(emissions + subscribe/unsubscribe instants), oracle = answer recomputed from scratch after "
                        "every notification (see sequence_equal_observable); non-trivial there = distinct (comparer, "
                        "delivered inputs) of >= 3 notifications with a decided answer and the oracle satisfied")
    chk.cov["rule"] += c06_numeric.RULE
    return chk.finish(trusted_extra=["hot-source K2 driver (harness/k2.py); callback tables mirrored in Gallina",
                                     "average: the model yields the exact pair (sum, count); the harness compares it "
                                     "with the implementation's float as an exact fraction (ints below 2^53)",
                                     "two-source driver harness/k2m.py (run_multi) for sequence_equal(observable)",
                                     "numeric family (harness/c06_numeric.py): oracle only, no Coq model -- the "
                                     "reference is Python's own min / max / sum / float arithmetic"],
                      assumptions=["comparers handed to the operators are symmetric in their arguments (the code calls "
                                   "comparer(queued, arriving), i.e. with the two sides in either order); the property "
                                   "text does not fix an argument order",
                                   "the float path of average is outside the Coq model (the table compares exact "
                                   "fractions of integers); it is run by the oracle-only numeric family, which accepts "
                                   "every usual way of writing the mean (fold of float(x) / float(n), sum / len, fmean)",
                                   "numeric family: min_by / max_by are not judged when a comparison of two keys is "
                                   "NaN (inf - inf), sequence_equal not on NaN under the default comparer, "
                                   "average(key_mapper) not on Decimal keys (Decimal / float raises TypeError; the "
                                   "text is silent) -- counted in numeric_family.not_judged"])


def replay(chk, path):
    d = json.load(open(path))
    if d.get("family") == "numeric":
        lib.import_repo()
        return c06_numeric.replay(path, d)
    if d.get("family") == "seq_equal_obs":
        case = se_case(d["case_seed"])
        res = se_run(case)
        bad, exp, obs = se_oracle(case, res)
        import k2m
        print(f"[C06] replay sequence_equal(observable)  machine: {case['coq']}")
        print("  inputs        :", k2m.g_inputs(res["inputs"], enc_in=lambda v: gz(case["pool"].id(v))))
        print("  implementation:", obs)
        print("  expected      :", exp)
        if bad:
            print(f"VIOLATION property=C06 replay={path}")
            return 1
        print("[C06] the recorded case no longer fails on the current tree")
        return 0
    pool, T = ops_table()
    return C05.replay_table(chk, path, "C06", pool, T, expected, gen_inputs_for)
