"""C41 -- future, callback and blocking bridges keep their contracts.

Outcome models: Ops/Bridges.v.  Real futures are driven deterministically: a spying
concurrent.futures.Future (done callbacks run synchronously) and a spying asyncio future on
a private loop that the harness steps after every action; hot sources for to_future; cold
sources for run() / await (a sequence without a terminal notification is run under a
watchdog: 'blocks'); to_async / start on the proxy scheduler of harness/k2m.py (the harness
decides when the scheduled call runs) and on ImmediateScheduler; from_callback with an API
that invokes the handler inside the call and/or later.  Everything observable (notifications
with the position of the action during which they arrive, cancel()/unsubscribe positions,
final future state, returned/raised value) is compared with the model inside Coq.

Oracles: direct readings of the property statement (never consult the model)."""
import asyncio
import concurrent.futures as cf
import json
import warnings

import k2
import k2m
import lib
from k2 import UserError
from lib import gz, glist

IMPORTS = "Base.Prelude Base.CaseLib Ops.Machine Ops.Bridges"
CANCELLED = -20
FAMILIES = ["from_future", "to_future", "run", "to_async", "from_callback"]


def err_id(e):
    if isinstance(e, (asyncio.CancelledError, cf.CancelledError)):
        return CANCELLED
    return k2.err_id(e)


_LOOP = [None]


def loop():
    if _LOOP[0] is None:
        _LOOP[0] = asyncio.new_event_loop()
    return _LOOP[0]


def spin():
    lp = loop()
    for _ in range(3):
        lp.run_until_complete(asyncio.sleep(0))


class SpyCF(cf.Future):
    """cancel() calls made through the public method (i.e. by the library) are logged with the position of
    the current action; the harness cancels through harness_cancel()"""

    def __init__(self):
        super().__init__()
        self.calls, self.tag = [], [0]

    def cancel(self):
        self.calls.append(self.tag[0])
        return super().cancel()

    def harness_cancel(self):
        return cf.Future.cancel(self)


class SpyAio(asyncio.Future):
    def __init__(self):
        super().__init__(loop=loop())
        self.calls, self.tag = [], [0]

    def cancel(self, msg=None):
        self.calls.append(self.tag[0])
        return super().cancel(msg)

    def harness_cancel(self):
        return asyncio.Future.cancel(self)


def fut_state(f):
    if not f.done():
        return ("pending",)
    if f.cancelled():
        return ("cancelled",)
    e = f.exception()
    if e is not None:
        return ("exn", err_id(e))
    return ("result", f.result())


def g_fstate(s):
    return {"pending": "FPending", "cancelled": "FCancelled"}.get(s[0]) or \
        (f"(FResult {gz(s[1])})" if s[0] == "result" else f"(FExn {gz(s[1])})")


def g_notes(ns, enc=gz):
    def ev(a, b):
        return f"Next {enc(b)}" if a == "N" else (f"Err {gz(b)}" if a == "E" else "Done")
    return "[" + "; ".join(f"({t}%nat, {ev(a, b)})" for (t, a, b) in ns) + "]"


def g_nats(l):
    return "[" + "; ".join(f"{x}%nat" for x in l) + "]"


def logger(out, tag, val=lambda v: v):
    return (lambda v: out.append((tag[0], "N", val(v))), lambda e: out.append((tag[0], "E", err_id(e))),
            lambda: out.append((tag[0], "C", None)))


def settle(f, s):
    if s[0] == "result":
        f.set_result(s[1])
    elif s[0] == "exn":
        f.set_exception(UserError(s[1]))
    elif s[0] == "cancelled":
        f.harness_cancel()


# ---- from_future ------------------------------------------------------------------------------

def gen_from_future(rng):
    init = rng.choice([["pending"]] * 5 + [["result", rng.randrange(10)], ["exn", 11], ["cancelled"]])
    acts = []
    for _ in range(rng.choice([0, 1, 1, 2, 2, 3, 4])):
        acts.append(rng.choice([["result", rng.randrange(10)], ["exn", rng.choice([11, 12])], ["cancelled"],
                                ["dispose"], ["dispose"]]))
    return {"family": "from_future", "kind": rng.choice(["cf", "aio", "start_async"]), "init": init, "acts": acts}


def run_from_future(c):
    import reactivex as rx
    f = SpyAio() if c["kind"] == "aio" else SpyCF()
    settle(f, c["init"])
    spin()
    out = []
    obs = rx.start_async(lambda: f) if c["kind"] == "start_async" else rx.from_future(f)
    d = obs.subscribe(*logger(out, f.tag))
    spin()
    for k, a in enumerate(c["acts"], 1):
        f.tag[0] = k
        if a[0] == "dispose":
            d.dispose()
        elif not f.done():
            settle(f, a)
        spin()
    return {"notes": out, "cancels": f.calls, "fin": fut_state(f)}


def g_from_future(c, r):
    def act(a):
        return {"result": f"ASetResult {gz(a[1]) if len(a) > 1 else ''}", "exn": f"ASetExn {gz(a[1]) if len(a) > 1 else ''}",
                "cancelled": "ACancel", "dispose": "ADispose"}[a[0]]
    acts = "[" + "; ".join(act(a) for a in c["acts"]) + "]"
    return (f"BFromFuture {g_fstate(c['init'])} {acts}",
            f"OFromFuture {g_notes(r['notes'])} {g_nats(r['cancels'])} {g_fstate(r['fin'])}")


def oracle_from_future(c, r):
    ns = [(a, b) for (_, a, b) in r["notes"]]
    state = list(c["init"])
    first = None                         # what happens first: the future settles, or the subscriber unsubscribes
    if state[0] != "pending":
        first = state
    else:
        for a in c["acts"]:
            first = a
            break
    if first is None:
        return None if ns == [] else f"notifications {ns} although nothing happened"
    if first[0] == "dispose":
        if ns:
            return f"unsubscribed first but received {ns}"
        if r["fin"][0] != "cancelled":
            return f"unsubscribed first but the future is {r['fin']} (not cancelled)"
        return None
    want = {"result": [("N", first[1] if len(first) > 1 else None), ("C", None)], "exn": [("E", first[1] if len(first) > 1 else None)],
            "cancelled": [("E", CANCELLED)]}[first[0]]
    if ns != want:
        return f"future outcome {first} delivered as {ns}, specified {want}"
    return None


# ---- to_future (hot source) ----------------------------------------------------------------------

def gen_events(rng):
    evs = [["N", rng.randrange(10)] for _ in range(rng.choice([0, 0, 1, 2, 3, 5]))]
    r = rng.random()
    if r < 0.5:
        evs.append(["C"])
    elif r < 0.75:
        evs.append(["E", rng.choice([11, 12])])
    if rng.random() < 0.2:
        evs += [rng.choice([["N", 9], ["C"], ["E", 13]]) for _ in range(rng.choice([1, 2]))]
    return evs


def gen_to_future(rng):
    acts = [["src", e] for e in gen_events(rng)]
    if rng.random() < 0.25:
        acts.insert(rng.randrange(len(acts) + 1), ["cancel"])
    return {"family": "to_future", "kind": rng.choice(["cf", "aio"]), "acts": acts}


def run_to_future(c):
    from reactivex import operators as ops
    clock = [0]
    src = k2.HotSource(clock)
    made = []

    def ctor():
        f = SpyAio() if c["kind"] == "aio" else SpyCF()
        made.append(f)
        return f
    fut = src.observable.pipe(ops.to_future(ctor))
    spin()
    for k, a in enumerate(c["acts"], 1):
        clock[0] = k
        if a[0] == "cancel":
            fut.harness_cancel()
        else:
            e = a[1]
            src.push(("N", e[1]) if e[0] == "N" else (("E", UserError(e[1])) if e[0] == "E" else ("C",)))
        spin()
    return {"unsubs": [t for (what, _, t) in src.log if what == "unsub"], "fin": fut_state(fut),
            "subs": len(src.observers), "cancels_by_library": made[0].calls}


def g_ev(e):
    return f"Next {gz(e[1])}" if e[0] == "N" else (f"Err {gz(e[1])}" if e[0] == "E" else "Done")


def g_to_future(c, r):
    acts = "[" + "; ".join("TCancelFuture" if a[0] == "cancel" else f"TSrc ({g_ev(a[1])})" for a in c["acts"]) + "]"
    return f"BToFuture {acts}", f"OToFuture {g_nats(r['unsubs'])} {g_fstate(r['fin'])}"


def expected_outcome(evs):
    """the property's reading: last element | the error | SequenceContainsNoElementsError | pending"""
    last = None
    for e in evs:
        if e[0] == "N":
            last = e
        elif e[0] == "E":
            return ("exn", e[1])
        else:
            return ("result", last[1]) if last is not None else ("exn", -2)
    return ("pending",)


def oracle_to_future(c, r):
    if any(a[0] == "cancel" for a in c["acts"]):
        return None                       # the property says nothing about a future cancelled by its owner
    want = expected_outcome([a[1] for a in c["acts"]])
    if r["fin"] != want:
        return f"future is {r['fin']}, specified {want}"
    return None


# ---- run() / await / to_future on a cold source ------------------------------------------------------

def gen_run(rng):
    return {"family": "run", "via": rng.choice(["run", "run", "await", "to_future_cold"]), "events": gen_events(rng)}


def cold(events):
    import reactivex as rx
    from reactivex.disposable import Disposable

    def subscribe(observer, scheduler=None):
        for e in events:
            if e[0] == "N":
                observer.on_next(e[1])
            elif e[0] == "E":
                observer.on_error(UserError(e[1]))
            else:
                observer.on_completed()
        return Disposable()
    return rx.create(subscribe)


def run_run(c):
    from reactivex import operators as ops
    obs = cold(c["events"])
    terminal = any(e[0] in "EC" for e in c["events"])

    def call():
        if c["via"] == "run":
            return obs.run()
        if c["via"] == "await":
            async def aw():
                return await obs
            return loop().run_until_complete(asyncio.wait_for(aw(), 0.05 if not terminal else 5))
        f = obs.pipe(ops.to_future(SpyCF))
        if not f.done():
            raise asyncio.TimeoutError()
        return f.result()
    try:
        st, v = lib.with_timeout(0.1 if not terminal else 10, call)
        return ("blocks",) if st == "timeout" else ("returns", v)
    except (asyncio.TimeoutError, TimeoutError):
        return ("blocks",)
    except Exception as e:
        return ("raises", err_id(e))


def g_run(c, r):
    out = {"blocks": "Blocks"}.get(r[0]) or (f"(Returns {gz(r[1])})" if r[0] == "returns" else f"(Raises {gz(r[1])})")
    return f"BRun [{'; '.join(g_ev(e) for e in c['events'])}]", f"ORun {out}"


def oracle_run(c, r):
    want = expected_outcome(c["events"])
    want = {"pending": ("blocks",), "result": ("returns",) + want[1:], "exn": ("raises",) + want[1:]}[want[0]]
    return None if tuple(r) == want else f"{c['via']}: {r}, specified {want}"


# ---- to_async / start ---------------------------------------------------------------------------------

def gen_to_async(rng):
    sched = rng.choice(["proxy", "proxy", "immediate"])
    acts = ["sub", "run"] if rng.random() < 0.5 else ["run", "sub"]
    if sched == "immediate":
        acts = ["run", "sub"]
    if rng.random() < 0.4:
        acts.insert(rng.randrange(1, len(acts) + 1), "unsub")
    if sched == "proxy" and rng.random() < 0.15:
        acts.remove("run")
    return {"family": "to_async", "sched": sched, "via": rng.choice(["to_async", "start"]),
            "r": rng.choice([["ok", rng.randrange(10)], ["ok", rng.randrange(10)], ["raise", 71]]), "acts": acts}


def run_to_async(c):
    import reactivex as rx
    from reactivex.scheduler import ImmediateScheduler
    env = k2m.Env()
    sched = k2m.make_scheduler(env) if c["sched"] == "proxy" else ImmediateScheduler()
    calls, tag, out, box = [], [0], [], {}

    def func(*args):
        calls.append(args)
        if c["r"][0] == "raise":
            raise UserError(c["r"][1])
        return c["r"][1] + sum(args)

    def make():
        box["obs"] = rx.start(func, sched) if c["via"] == "start" else rx.to_async(func, sched)(0, 0)
    if c["sched"] == "proxy":
        make()
    for k, a in enumerate(c["acts"]):
        tag[0] = k
        if a == "run":
            if c["sched"] == "proxy":
                sched.fire(0)
            else:
                make()
        elif a == "sub":
            box["d"] = box["obs"].subscribe(*logger(out, tag))
        elif "d" in box:
            box["d"].dispose()
    return {"notes": out, "calls": len(calls)}


def g_to_async(c, r):
    res = f"(Ok {gz(c['r'][1])})" if c["r"][0] == "ok" else f"(Raise {gz(c['r'][1])})"
    acts = "[" + "; ".join({"run": "ARun", "sub": "ASubscribe", "unsub": "AUnsubscribe"}[a] for a in c["acts"]) + "]"
    return f"BToAsync {res} {acts}", f"OToAsync {g_notes(r['notes'])}"


def oracle_to_async(c, r):
    ns = [(a, b) for (_, a, b) in r["notes"]]
    acts = c["acts"]
    if r["calls"] > 1:
        return f"the function was called {r['calls']} times"
    if "run" in acts and "sub" in acts:
        both = max(acts.index("run"), acts.index("sub"))
        if "unsub" not in acts or acts.index("unsub") > both:
            want = [("N", c["r"][1]), ("C", None)] if c["r"][0] == "ok" else [("E", c["r"][1])]
            if ns != want:
                return f"received {ns}, specified {want}"
    if len([1 for a, _ in ns if a == "N"]) > 1:
        return f"more than one result: {ns}"
    return None


# ---- from_callback --------------------------------------------------------------------------------------

MAPPERS = {None: "None", "sum": "(Some MSum)", "len": "(Some MLen)", "raise": "(Some (MRaise 72))",
           "raise_on_empty": "(Some (MRaiseOnEmpty 73))"}


def py_mapper(m):
    if m is None:
        return None
    if m == "sum":
        return lambda args: sum(args)
    if m == "len":
        return lambda args: len(args)
    if m == "raise":
        def f(args):
            raise UserError(72)
        return f

    def g(args):
        if not args:
            raise UserError(73)
        return args[0]
    return g


def gen_from_callback(rng):
    def args():
        return [rng.randrange(10) for _ in range(rng.choice([0, 1, 1, 2, 3]))]
    return {"family": "from_callback", "mapper": rng.choice([None, None, "sum", "len", "raise", "raise_on_empty"]),
            "sync": [args() for _ in range(rng.choice([0, 1, 1, 2]))],
            "later": [args() for _ in range(rng.choice([0, 0, 1, 2]))], "api_args": [rng.randrange(5) for _ in range(rng.choice([0, 1, 2]))]}


def run_from_callback(c):
    import reactivex as rx
    tag, out, box = [0], [], {}

    def api(*a):
        box["received"] = list(a[:-1])
        box["handler"] = a[-1]
        for inv in c["sync"]:
            try:
                a[-1](*inv)
            except Exception:             # the handler raised into the API that invoked it
                out.append((0, "E", k2.ESCAPED))
    obs = rx.from_callback(api, py_mapper(c["mapper"]))(*c["api_args"])

    def val(v):
        return ("list", list(v)) if isinstance(v, (list, tuple)) else (("none",) if v is None else ("one", v))
    obs.subscribe(*logger(out, tag, val))
    for k, inv in enumerate(c["later"], 1):
        tag[0] = k
        try:
            box["handler"](*inv)
        except Exception:                 # escaped into the API that invoked the callback
            out.append((k, "E", k2.ESCAPED))
    return {"notes": out, "received": box.get("received")}


def g_bval(v):
    return "VNone" if v[0] == "none" else (f"(VOne {gz(v[1])})" if v[0] == "one" else f"(VList {glist(v[1])})")


def g_from_callback(c, r):
    invs = [(0, a) for a in c["sync"]] + [(k, a) for k, a in enumerate(c["later"], 1)]
    gi = "[" + "; ".join(f"({k}%nat, {glist(a)})" for k, a in invs) + "]"
    return f"BFromCallback {MAPPERS[c['mapper']]} {gi}", f"OFromCallback {g_notes(r['notes'], g_bval)}"


def oracle_from_callback(c, r):
    invs = c["sync"] + c["later"]
    ns = [(a, b) for (_, a, b) in r["notes"]]
    if r["received"] != c["api_args"]:
        return f"the wrapped function received {r['received']}, called with {c['api_args']}"
    if not invs:
        return None if not ns else f"handler never invoked but received {ns}"
    args = invs[0]
    m = c["mapper"]
    if m in ("raise",) or (m == "raise_on_empty" and not args):
        return None                       # a raising mapper: no value can be specified
    if m is None:
        v = ("none",) if not args else (("one", args[0]) if len(args) == 1 else ("list", args))
    else:
        v = ("one", py_mapper(m)(tuple(args)))
    want = [("N", v), ("C", None)]
    return None if ns == want else f"received {ns}, specified exactly one value then completion {want}"


FAM = {"from_future": (gen_from_future, run_from_future, g_from_future, oracle_from_future),
       "to_future": (gen_to_future, run_to_future, g_to_future, oracle_to_future),
       "run": (gen_run, run_run, g_run, oracle_run),
       "to_async": (gen_to_async, run_to_async, g_to_async, oracle_to_async),
       "from_callback": (gen_from_callback, run_from_callback, g_from_callback, oracle_from_callback)}


def start_async_raising():
    """start_async(function raising) -> on_error"""
    import reactivex as rx
    out = []

    def boom():
        raise UserError(74)
    rx.start_async(boom).subscribe(*logger(out, [0]))
    return [(a, b) for (_, a, b) in out]


def run(chk):
    warnings.simplefilter("ignore", DeprecationWarning)
    chk.build_and_prove()
    ncase = {"quick": 120, "thorough": 1500}[chk.tier]
    if chk.broken:
        ncase = 1500
    cases, per, nontrivial = [], {}, set()
    hist = {"unsubscribed_first": 0, "future_cancelled": 0, "empty_sequence": 0, "erroring_sequence": 0,
            "blocks": 0, "mapper": 0, "zero_callback_arguments": 0, "asyncio_future": 0}
    for fam in FAMILIES:
        gen, runner, gal, orc = FAM[fam]
        n = ncase if fam != "run" else max(40, ncase // 3)
        for _ in range(n):
            c = gen(chk.rng)
            r = runner(c)
            chk.cov["evaluations"] += 1
            per[fam] = per.get(fam, 0) + 1
            gi, go = gal(c, r)
            v = orc(c, r)
            if v:
                chk.violation(f"C41|{fam}|{v[:60]}", {"case": c, "model_case": gi, "observed": go, "what": v},
                              size=len(json.dumps(c)))
            else:
                nontrivial.add(gi)
            cases.append((gi, go))
            hist["asyncio_future"] += c.get("kind") == "aio"
            if fam == "from_future":
                hist["unsubscribed_first"] += bool(c["acts"] and c["acts"][0][0] == "dispose" and c["init"][0] == "pending")
                hist["future_cancelled"] += r["fin"][0] == "cancelled"
            if fam in ("run", "to_future"):
                evs = c["events"] if fam == "run" else [a[1] for a in c["acts"] if a[0] == "src"]
                hist["empty_sequence"] += bool(evs and evs[0][0] == "C")
                hist["erroring_sequence"] += expected_outcome(evs)[0] == "exn"
                hist["blocks"] += expected_outcome(evs)[0] == "pending"
            if fam == "from_callback":
                hist["mapper"] += c["mapper"] is not None
                hist["zero_callback_arguments"] += bool((c["sync"] + c["later"]) and not (c["sync"] + c["later"])[0])
    got = start_async_raising()
    chk.cov["evaluations"] += 1
    if got != [("E", 74)]:
        chk.violation("C41|start_async|raising function not delivered as on_error", {"case": {"family": "start_async_raising"},
                                                                                     "what": f"received {got}"}, size=1)
    bad, logs = lib.correspondence("C41", "b", IMPORTS, "bcase * bout", "bridge_model", "bout_eqb", cases)
    chk.cov["traces_validated_against_impl"] += len(cases)
    chk.cov["disagreements_checked"] += len(cases)
    if bad:
        firsts = [cases[i] for i in bad if i >= 0][:3]
        d = {"n": len(bad), "first (case, observed)": firsts, "logs": logs[:1]}
        if firsts:
            d["model_says"] = lib.coq_show("C41", IMPORTS, f"bridge_model ({firsts[0][0]})")
        chk.tie_broken("correspondence: bridge outcome models vs implementation", d)
    chk.cov["distinct_nontrivial"] = len(nontrivial)
    chk.cov["rule"] = ("from_future: spying concurrent.futures / asyncio futures (and start_async), initially pending or "
                       "already done, 0-4 actions among set_result / set_exception / cancel / unsubscribe; to_future: hot "
                       "source with 0-5 elements, completion / error / none, 20% non-conforming tails, 25% with the owner "
                       "cancelling the future at a random position; run(), await and to_future on cold sources with the "
                       "same sequences (no terminal: watchdog); to_async / start: result or exception, proxy or immediate "
                       "scheduler, every order of run / subscribe / unsubscribe; from_callback: no mapper / sum / len / "
                       "raising / raising on empty, 0-2 handler invocations inside the call and 0-2 later, 0-3 arguments; "
                       "non-trivial = distinct model cases on which the oracle held")
    chk.cov["input_distribution"] = {"per_family": per, **hist}
    chk.add_samples([{"case": c[0], "observed": c[1]} for c in cases[:: max(1, len(cases) // 6)]][:6])
    return chk.finish(
        trusted_extra=["spying future subclasses, private asyncio loop stepped by the harness, hot/cold sources and "
                       "watchdog of harness/props/C41.py; proxy scheduler of harness/k2m.py for to_async/start"],
        assumptions=["asyncio done-callbacks run when the harness steps the loop (after every action): the model places "
                     "them at the position of that action",
                     "run() is exercised with sources that notify on the calling thread; blocking on the threading.Event "
                     "until another thread terminates the sequence, and start()/to_async on real TimeoutScheduler "
                     "threads, are not exhibited by the model (partial)"])


def replay(chk, path):
    warnings.simplefilter("ignore", DeprecationWarning)
    d = json.load(open(path))
    c = d["case"]
    if c["family"] == "start_async_raising":
        got = start_async_raising()
        print(json.dumps({"case": c, "received": got}, indent=1))
        if got != [("E", 74)]:
            print(f"VIOLATION property=C41 replay={path}")
            return 1
        return 0
    gen, runner, gal, orc = FAM[c["family"]]
    r = runner(c)
    v = orc(c, r)
    gi, go = gal(c, r)
    print(json.dumps({"case": c, "model_case": gi, "observed": go, "oracle": v or "holds"}, indent=1))
    if v:
        print(f"VIOLATION property=C41 replay={path}")
        return 1
    return 0
