"""C41 -- future, callback and blocking bridges keep their contracts.

Outcome models: Ops/Bridges.v.  Real futures are driven deterministically: a spying
concurrent.futures.Future (done callbacks run synchronously) and a spying asyncio future on
a private loop that the harness steps after every action; hot sources for to_future; cold
sources for run() / await (a sequence without a terminal notification is run under a
watchdog: 'blocks'); to_async / start on the proxy scheduler of harness/k2m.py (the harness
decides when the scheduled call runs) and on ImmediateScheduler; from_callback with an API
that invokes the handler inside the call and/or later.  Everything observable (notifications
with the position of the action during which they arrive, cancel()/unsubscribe positions,
final future state, returned/raised value) is compared with the model inside Coq.

Oracles: direct readings of the property statement (never consult the model)."""
import asyncio
import concurrent.futures as cf
import json
import sys
import threading
import time
import warnings

import c41_multi
import k2
import k2m
import lib
from k2 import UserError
from lib import gz, glist

IMPORTS = "Base.Prelude Base.CaseLib Ops.Machine Ops.Bridges"
CANCELLED = -20
FAMILIES = ["from_future", "to_future", "run", "to_async", "from_callback"]
# payloads: falsy values head the pool; None and "" travel to Coq under reserved ids (the models are parametric in
# the element, so any injective encoding is sound)
NONE_ID, EMPTY_ID, EXCVAL_ID = -100, -101, -102
FALSY = [None, 0, ""]
# a result VALUE that happens to be an exception instance (a job returning the exception it caught): still a value
EXC_VALUE = ValueError("an exception object delivered as a value")
EXC_MARK = "__an_exception_instance_as_value__"      # how EXC_VALUE is written in (JSON) cases
POOL = FALSY + list(range(1, 10)) + [EXC_MARK]


def real(v):
    """case value -> the object handed to the library"""
    return EXC_VALUE if isinstance(v, str) and v == EXC_MARK else v


def unreal(v):
    """object received from the library -> case value"""
    return EXC_MARK if v is EXC_VALUE else v
FALSY_ERR = 14                          # UserError whose truth value is False (len() == 0)
NOTES = {"to_future_default_deprecation_warnings": 0, "run_blocked_observed": 0, "run_thread_timeouts": 0,
         "run_sched_forwarded": 0}


def enc(v):
    if v is EXC_VALUE or (isinstance(v, str) and v == EXC_MARK):
        return EXCVAL_ID
    return NONE_ID if v is None else (EMPTY_ID if v == "" and isinstance(v, str) else v)


def gv(v):
    return gz(enc(v))


class FalsyError(UserError):
    """a legal exception object that is falsy: `if error:` is not a test for `an error occurred`"""

    def __len__(self):
        return 0


def mkerr(code):
    return FalsyError(code) if code == FALSY_ERR else UserError(code)


def is_falsy_last(evs):
    w = expected_outcome(evs)
    return w[0] == "result" and not w[1]


def err_id(e):
    if isinstance(e, (asyncio.CancelledError, cf.CancelledError)):
        return CANCELLED
    return k2.err_id(e)


_LOOP = [None]


def loop():
    if _LOOP[0] is None:
        _LOOP[0] = asyncio.new_event_loop()
    return _LOOP[0]


def spin():
    lp = loop()
    for _ in range(3):
        lp.run_until_complete(asyncio.sleep(0))


class SpyCF(cf.Future):
    """cancel() calls made through the public method (i.e. by the library) are logged with the position of
    the current action; the harness cancels through harness_cancel()"""

    def __init__(self):
        super().__init__()
        self.calls, self.tag = [], [0]

    def cancel(self):
        self.calls.append(self.tag[0])
        return super().cancel()

    def harness_cancel(self):
        return cf.Future.cancel(self)


class SpyAio(asyncio.Future):
    def __init__(self):
        super().__init__(loop=loop())
        self.calls, self.tag = [], [0]

    def cancel(self, msg=None):
        self.calls.append(self.tag[0])
        return super().cancel(msg)

    def harness_cancel(self):
        return asyncio.Future.cancel(self)


def fut_state(f):
    if not f.done():
        return ("pending",)
    if f.cancelled():
        return ("cancelled",)
    e = f.exception()
    if e is not None:
        return ("exn", err_id(e))
    return ("result", unreal(f.result()))


def g_fstate(s):
    return {"pending": "FPending", "cancelled": "FCancelled"}.get(s[0]) or \
        (f"(FResult {gv(s[1])})" if s[0] == "result" else f"(FExn {gz(s[1])})")


def g_notes(ns, enc=gv):
    def ev(a, b):
        return f"Next {enc(b)}" if a == "N" else (f"Err {gz(b)}" if a == "E" else "Done")
    return "[" + "; ".join(f"({t}%nat, {ev(a, b)})" for (t, a, b) in ns) + "]"


def g_nats(l):
    return "[" + "; ".join(f"{x}%nat" for x in l) + "]"


def logger(out, tag, val=unreal):
    return (lambda v: out.append((tag[0], "N", val(v))), lambda e: out.append((tag[0], "E", err_id(e))),
            lambda: out.append((tag[0], "C", None)))


def settle(f, s):
    if s[0] == "result":
        f.set_result(real(s[1]))
    elif s[0] == "exn":
        f.set_exception(mkerr(s[1]))
    elif s[0] == "cancelled":
        f.harness_cancel()


# ---- from_future ------------------------------------------------------------------------------

def gen_from_future(rng):
    init = rng.choice([["pending"]] * 5 + [["result", rng.choice(POOL)], ["exn", 11], ["cancelled"]])
    acts = []
    for _ in range(rng.choice([0, 1, 1, 2, 2, 3, 4])):
        acts.append(rng.choice([["result", rng.choice(POOL)], ["exn", rng.choice([11, 12])], ["cancelled"],
                                ["dispose"], ["dispose"]]))
    return {"family": "from_future", "kind": rng.choice(["cf", "aio", "start_async"]), "init": init, "acts": acts}


def run_from_future(c):
    import reactivex as rx
    f = SpyAio() if c["kind"] == "aio" else SpyCF()
    settle(f, c["init"])
    spin()
    out = []
    obs = rx.start_async(lambda: f) if c["kind"] == "start_async" else rx.from_future(f)
    d = obs.subscribe(*logger(out, f.tag))
    spin()
    for k, a in enumerate(c["acts"], 1):
        f.tag[0] = k
        if a[0] == "dispose":
            d.dispose()
        elif not f.done():
            settle(f, a)
        spin()
    return {"notes": out, "cancels": f.calls, "fin": fut_state(f)}


def g_from_future(c, r):
    def act(a):
        if a[0] == "result":
            return f"ASetResult {gv(a[1])}"
        if a[0] == "exn":
            return f"ASetExn {gz(a[1])}"
        return {"cancelled": "ACancel", "dispose": "ADispose"}[a[0]]
    acts = "[" + "; ".join(act(a) for a in c["acts"]) + "]"
    return (f"BFromFuture {g_fstate(c['init'])} {acts}",
            f"OFromFuture {g_notes(r['notes'])} {g_nats(r['cancels'])} {g_fstate(r['fin'])}")


def oracle_from_future(c, r):
    ns = [(a, b) for (_, a, b) in r["notes"]]
    state = list(c["init"])
    first = None                         # what happens first: the future settles, or the subscriber unsubscribes
    if state[0] != "pending":
        first = state
    else:
        for a in c["acts"]:
            first = a
            break
    if first is None:
        return None if ns == [] else f"notifications {ns} although nothing happened"
    if first[0] == "dispose":
        if ns:
            return f"unsubscribed first but received {ns}"
        if r["fin"][0] != "cancelled":
            return f"unsubscribed first but the future is {r['fin']} (not cancelled)"
        return None
    want = {"result": [("N", first[1] if len(first) > 1 else None), ("C", None)], "exn": [("E", first[1] if len(first) > 1 else None)],
            "cancelled": [("E", CANCELLED)]}[first[0]]
    if ns != want:
        return f"future outcome {first} delivered as {ns}, specified {want}"
    return None


# ---- to_future (hot source) ----------------------------------------------------------------------

def gen_events(rng):
    evs = [["N", rng.choice(POOL)] for _ in range(rng.choice([0, 0, 1, 2, 3, 5]))]
    r = rng.random()
    if r < 0.5:
        evs.append(["C"])
    elif r < 0.75:
        evs.append(["E", rng.choice([11, 12])])
    if rng.random() < 0.2:
        evs += [rng.choice([["N", 9], ["C"], ["E", 13]]) for _ in range(rng.choice([1, 2]))]
    return evs


def gen_to_future(rng):
    acts = [["src", e] for e in gen_events(rng)]
    if rng.random() < 0.25:
        acts.insert(rng.randrange(len(acts) + 1), ["cancel"])
    return {"family": "to_future", "kind": rng.choice(["cf", "aio", "aio", "default"]), "acts": acts}


def default_to_future(obs):
    """ops.to_future() with no future_ctor, called OUTSIDE a running loop: _tofuture.py falls back to a bare
    asyncio.Future().  DeprecationWarnings it triggers are counted (reported in the evidence), not hidden."""
    from reactivex import operators as ops
    with warnings.catch_warnings(record=True) as w:
        warnings.simplefilter("always")
        fut = obs.pipe(ops.to_future())
    NOTES["to_future_default_deprecation_warnings"] += sum(1 for x in w if issubclass(x.category, DeprecationWarning))
    return fut


def run_to_future(c):
    from reactivex import operators as ops
    clock = [0]
    src = k2.HotSource(clock)
    made = []

    def ctor():
        f = SpyAio() if c["kind"] == "aio" else SpyCF()
        made.append(f)
        return f
    if c["kind"] == "default":
        fut = default_to_future(src.observable)
        own = fut.get_loop()              # the loop the library's fallback bound the future to: stepped like ours

        def step():
            spin()
            for _ in range(3):
                own.run_until_complete(asyncio.sleep(0))
    else:
        fut = src.observable.pipe(ops.to_future(ctor))
        step = spin
    step()
    for k, a in enumerate(c["acts"], 1):
        clock[0] = k
        if a[0] == "cancel":
            fut.harness_cancel() if made else fut.cancel()
        else:
            e = a[1]
            src.push(("N", e[1]) if e[0] == "N" else (("E", mkerr(e[1])) if e[0] == "E" else ("C",)))
        step()
    return {"unsubs": [t for (what, _, t) in src.log if what == "unsub"], "fin": fut_state(fut),
            "subs": len(src.observers), "cancels_by_library": made[0].calls if made else []}


def g_ev(e):
    return f"Next {gv(e[1])}" if e[0] == "N" else (f"Err {gz(e[1])}" if e[0] == "E" else "Done")


def g_to_future(c, r):
    acts = "[" + "; ".join("TCancelFuture" if a[0] == "cancel" else f"TSrc ({g_ev(a[1])})" for a in c["acts"]) + "]"
    return f"BToFuture {acts}", f"OToFuture {g_nats(r['unsubs'])} {g_fstate(r['fin'])}"


def expected_outcome(evs):
    """the property's reading: last element | the error | SequenceContainsNoElementsError | pending"""
    last = None
    for e in evs:
        if e[0] == "N":
            last = e
        elif e[0] == "E":
            return ("exn", e[1])
        else:
            return ("result", last[1]) if last is not None else ("exn", -2)
    return ("pending",)


def oracle_to_future(c, r):
    if any(a[0] == "cancel" for a in c["acts"]):
        return None                       # the property says nothing about a future cancelled by its owner
    want = expected_outcome([a[1] for a in c["acts"]])
    if r["fin"] != want:
        return f"future is {r['fin']}, specified {want}"
    return None


# ---- run() / await / to_future on a cold source ------------------------------------------------------

VIAS = ["run", "run", "await", "to_future_cold", "to_future_default", "run_thread", "run_thread", "run_sched",
        "await_later"]
LATER = ("run_thread", "await_later")   # the source terminates AFTER subscribe returned


def gen_run(rng):
    c = {"family": "run", "via": rng.choice(VIAS), "events": gen_events(rng)}
    if c["via"] in LATER and expected_outcome(c["events"])[0] == "pending":
        c["events"].append(["C"])         # a source that never terminates is observed on the calling thread only
    return c


def push_all(observer, events):
    for e in events:
        if e[0] == "N":
            observer.on_next(e[1])
        elif e[0] == "E":
            observer.on_error(mkerr(e[1]))
        else:
            observer.on_completed()


def cold(events, seen=None):
    import reactivex as rx
    from reactivex.disposable import Disposable

    def subscribe(observer, scheduler=None):
        if seen is not None:
            seen.append(scheduler)
        push_all(observer, events)
        return Disposable()
    return rx.create(subscribe)


def blocked_in_wait(ident):
    """is the thread `ident` inside threading's wait() right now?  (pure observation of its stack)"""
    f = sys._current_frames().get(ident)
    while f is not None:
        if f.f_code.co_name == "wait" and f.f_code.co_filename.endswith("threading.py"):
            return True
        f = f.f_back
    return False


def threaded(events, threads):
    """subscribe returns at once; a plain thread delivers the whole sequence later: as soon as the subscribing
    thread is seen waiting (at the latest after 0.3 s), so the caller of run() really has to block"""
    import reactivex as rx
    from reactivex.disposable import Disposable

    def subscribe(observer, scheduler=None):
        me = threading.get_ident()

        def body():
            time.sleep(0.003)
            limit = time.monotonic() + 0.3
            while time.monotonic() < limit:
                if blocked_in_wait(me):
                    NOTES["run_blocked_observed"] += 1
                    break
                time.sleep(0.001)
            push_all(observer, events)
        t = threading.Thread(target=body, daemon=True)
        threads.append(t)
        t.start()
        return Disposable()
    return rx.create(subscribe)


def on_loop_later(events):
    """subscribe returns at once; the sequence is delivered by a timer of the running asyncio loop"""
    import reactivex as rx
    from reactivex.disposable import Disposable

    def subscribe(observer, scheduler=None):
        asyncio.get_running_loop().call_later(0.003, push_all, observer, events)
        return Disposable()
    return rx.create(subscribe)


def run_run(c):
    from reactivex import operators as ops
    from reactivex.scheduler import ImmediateScheduler
    via = c["via"]
    terminal = any(e[0] in "EC" for e in c["events"])
    threads, seen = [], []
    obs = threaded(c["events"], threads) if via == "run_thread" else (
        on_loop_later(c["events"]) if via == "await_later" else cold(c["events"], seen))
    mine = ImmediateScheduler()

    def call():
        if via in ("run", "run_thread"):
            return obs.run()
        if via == "run_sched":
            from reactivex.run import run as rx_run
            return rx_run(obs, mine)
        if via in ("await", "await_later"):
            async def aw():
                return await obs
            return loop().run_until_complete(asyncio.wait_for(aw(), 0.05 if not terminal else 20))
        f = default_to_future(obs) if via == "to_future_default" else obs.pipe(ops.to_future(SpyCF))
        if not f.done():
            raise asyncio.TimeoutError()
        return f.result()
    # generous watchdog: only a run() that never returns reaches it (after the first such case the rest of the
    # run uses a short one, a broken latch would otherwise cost 30 s per case)
    budget = 0.1 if not terminal else (30 if not NOTES["run_thread_timeouts"] else 1)
    try:
        st, v = lib.with_timeout(budget, call)
        if st == "timeout" and terminal:
            NOTES["run_thread_timeouts"] += 1
        res = ("blocks",) if st == "timeout" else ("returns", v)
    except (asyncio.TimeoutError, TimeoutError):
        res = ("blocks",)
    except Exception as e:
        res = ("raises", err_id(e))
    for t in threads:
        t.join(5)
    if via == "run_sched":                # the statement is silent about the scheduler parameter: counted only
        NOTES["run_sched_forwarded"] += seen == [mine]
    return res


def g_run(c, r):
    out = {"blocks": "Blocks"}.get(r[0]) or \
        (f"(Returns {gv(r[1])})" if r[0] == "returns" else f"(Raises {gz(r[1])})")
    return f"BRun [{'; '.join(g_ev(e) for e in c['events'])}]", f"ORun {out}"


def oracle_run(c, r):
    want = expected_outcome(c["events"])
    want = {"pending": ("blocks",), "result": ("returns",) + want[1:], "exn": ("raises",) + want[1:]}[want[0]]
    return None if tuple(r) == want else f"{c['via']}: {r}, specified {want}"


# ---- to_async / start ---------------------------------------------------------------------------------

def gen_to_async(rng):
    sched = rng.choice(["proxy", "proxy", "immediate"])
    acts = ["sub", "run"] if rng.random() < 0.5 else ["run", "sub"]
    if sched == "immediate":
        acts = ["run", "sub"]
    if rng.random() < 0.4:
        acts.insert(rng.randrange(1, len(acts) + 1), "unsub")
    if sched == "proxy" and rng.random() < 0.15:
        acts.remove("run")
    via = rng.choice(["to_async", "start"])
    args = [rng.randrange(1, 10) for _ in range(rng.choice([1, 2, 3]))] if via == "to_async" else []
    return {"family": "to_async", "sched": sched, "via": via, "args": args,
            "r": rng.choice([["ok", rng.choice(POOL)], ["ok", rng.choice(POOL)], ["raise", 71]]), "acts": acts}


def run_to_async(c):
    import reactivex as rx
    from reactivex.scheduler import ImmediateScheduler
    env = k2m.Env()
    sched = k2m.make_scheduler(env) if c["sched"] == "proxy" else ImmediateScheduler()
    calls, tag, out, box = [], [0], [], {}

    def func(*args):
        calls.append(list(args))
        if c["r"][0] == "raise":
            raise UserError(c["r"][1])
        return real(c["r"][1])

    c.setdefault("args", [0, 0] if c["via"] == "to_async" else [])

    def make():
        box["obs"] = rx.start(func, sched) if c["via"] == "start" else rx.to_async(func, sched)(*c["args"])
    if c["sched"] == "proxy":
        make()
    for k, a in enumerate(c["acts"]):
        tag[0] = k
        if a == "run":
            if c["sched"] == "proxy":
                sched.fire(0)
            else:
                make()
        elif a == "sub":
            box["d"] = box["obs"].subscribe(*logger(out, tag))
        elif "d" in box:
            box["d"].dispose()
    return {"notes": out, "calls": len(calls), "received": calls}


def g_to_async(c, r):
    res = f"(Ok {gv(c['r'][1])})" if c["r"][0] == "ok" else f"(Raise {gz(c['r'][1])})"
    acts = "[" + "; ".join({"run": "ARun", "sub": "ASubscribe", "unsub": "AUnsubscribe"}[a] for a in c["acts"]) + "]"
    return f"BToAsync {res} {acts}", f"OToAsync {g_notes(r['notes'])}"


def oracle_to_async(c, r):
    ns = [(a, b) for (_, a, b) in r["notes"]]
    acts = c["acts"]
    if r["calls"] > 1:
        return f"the function was called {r['calls']} times"
    if r["received"] and r["received"][0] != c["args"]:
        return f"the function received the arguments {r['received'][0]}, the asynchronous function was called with {c['args']}"
    if "run" in acts and "sub" in acts:
        both = max(acts.index("run"), acts.index("sub"))
        if "unsub" not in acts or acts.index("unsub") > both:
            want = [("N", c["r"][1]), ("C", None)] if c["r"][0] == "ok" else [("E", c["r"][1])]
            if ns != want:
                return f"received {ns}, specified {want}"
    if len([1 for a, _ in ns if a == "N"]) > 1:
        return f"more than one result: {ns}"
    return None


# ---- to_async / start on their DEFAULT scheduler (TimeoutScheduler threads): oracle only ----------------------

def gen_to_async_default(rng):
    via = rng.choice(["to_async", "start"])
    return {"family": "to_async_default", "via": via,
            "args": [rng.randrange(1, 10) for _ in range(rng.choice([1, 2, 3]))] if via == "to_async" else [],
            "r": rng.choice([["ok", rng.choice(POOL)], ["ok", rng.choice(POOL)], ["raise", 71]])}


def run_to_async_default(c):
    import reactivex as rx
    calls, out, done = [], [], threading.Event()

    def func(*args):
        calls.append(list(args))
        if c["r"][0] == "raise":
            raise UserError(c["r"][1])
        return real(c["r"][1])
    obs = rx.start(func) if c["via"] == "start" else rx.to_async(func)(*c["args"])
    obs.subscribe(lambda v: out.append((0, "N", unreal(v))), lambda e: (out.append((0, "E", err_id(e))), done.set()),
                  lambda: (out.append((0, "C", None)), done.set()))
    finished = done.wait(30)
    return {"notes": list(out), "calls": len(calls), "received": list(calls), "finished": finished}


def oracle_to_async_default(c, r):
    ns = [(a, b) for (_, a, b) in r["notes"]]
    want = [("N", c["r"][1]), ("C", None)] if c["r"][0] == "ok" else [("E", c["r"][1])]
    if not r["finished"]:
        return f"no termination within 30 s (received {ns}), specified {want}"
    if ns != want:
        return f"received {ns}, specified {want}"
    if r["received"] != [c["args"]]:
        return f"the function received {r['received']}, specified one call with {c['args']}"
    return None


# ---- from_callback --------------------------------------------------------------------------------------

MAPPERS = {None: "None", "sum": "(Some MSum)", "len": "(Some MLen)", "raise": "(Some (MRaise 72))",
           "raise_on_empty": "(Some (MRaiseOnEmpty 73))"}


def py_mapper(m):
    if m is None:
        return None
    if m == "sum":
        return lambda args: sum(args)
    if m == "len":
        return lambda args: len(args)
    if m == "raise":
        def f(args):
            raise UserError(72)
        return f

    def g(args):
        if not args:
            raise UserError(73)
        return args[0]
    return g


def gen_from_callback(rng):
    def args():
        return [rng.randrange(10) for _ in range(rng.choice([0, 1, 1, 2, 3]))]
    return {"family": "from_callback", "mapper": rng.choice([None, None, "sum", "len", "raise", "raise_on_empty"]),
            "sync": [args() for _ in range(rng.choice([0, 1, 1, 2]))],
            "later": [args() for _ in range(rng.choice([0, 0, 1, 2]))], "api_args": [rng.randrange(5) for _ in range(rng.choice([0, 1, 2]))]}


def run_from_callback(c):
    import reactivex as rx
    tag, out, box = [0], [], {}

    def api(*a):
        box["received"] = list(a[:-1])
        box["handler"] = a[-1]
        for inv in c["sync"]:
            try:
                a[-1](*inv)
            except Exception:             # the handler raised into the API that invoked it
                out.append((0, "E", k2.ESCAPED))
    obs = rx.from_callback(api, py_mapper(c["mapper"]))(*c["api_args"])

    def val(v):
        return ("list", list(v)) if isinstance(v, (list, tuple)) else (("none",) if v is None else ("one", v))
    obs.subscribe(*logger(out, tag, val))
    for k, inv in enumerate(c["later"], 1):
        tag[0] = k
        try:
            box["handler"](*inv)
        except Exception:                 # escaped into the API that invoked the callback
            out.append((k, "E", k2.ESCAPED))
    return {"notes": out, "received": box.get("received")}


def g_bval(v):
    return "VNone" if v[0] == "none" else (f"(VOne {gz(v[1])})" if v[0] == "one" else f"(VList {glist(v[1])})")


def g_from_callback(c, r):
    invs = [(0, a) for a in c["sync"]] + [(k, a) for k, a in enumerate(c["later"], 1)]
    gi = "[" + "; ".join(f"({k}%nat, {glist(a)})" for k, a in invs) + "]"
    return f"BFromCallback {MAPPERS[c['mapper']]} {gi}", f"OFromCallback {g_notes(r['notes'], g_bval)}"


def oracle_from_callback(c, r):
    invs = c["sync"] + c["later"]
    ns = [(a, b) for (_, a, b) in r["notes"]]
    if r["received"] != c["api_args"]:
        return f"the wrapped function received {r['received']}, called with {c['api_args']}"
    if not invs:
        return None if not ns else f"handler never invoked but received {ns}"
    args = invs[0]
    m = c["mapper"]
    if m in ("raise",) or (m == "raise_on_empty" and not args):
        return None                       # a raising mapper: no value can be specified
    if m is None:
        v = ("none",) if not args else (("one", args[0]) if len(args) == 1 else ("list", args))
    else:
        v = ("one", py_mapper(m)(tuple(args)))
    want = [("N", v), ("C", None)]
    return None if ns == want else f"received {ns}, specified exactly one value then completion {want}"


FAM = {"from_future": (gen_from_future, run_from_future, g_from_future, oracle_from_future),
       "to_future": (gen_to_future, run_to_future, g_to_future, oracle_to_future),
       "run": (gen_run, run_run, g_run, oracle_run),
       "to_async": (gen_to_async, run_to_async, g_to_async, oracle_to_async),
       "from_callback": (gen_from_callback, run_from_callback, g_from_callback, oracle_from_callback),
       # oracle only (real timer threads): no model case
       "to_async_default": (gen_to_async_default, run_to_async_default, None, oracle_to_async_default),
       # oracle only: ONE bridge object (to_async's converted function, from_callback's factory, start / from_future /
       # start_async with the same function) invoked several times, several subscribers per invocation: c41_multi.py
       "reinvoke": (c41_multi.gen, c41_multi.run_case, None, c41_multi.oracle)}


def forced_cases(fam):
    """falsy last elements / results (None, 0, "") in EVERY run, through every route; a falsy exception object
    (len() == 0) through run() and the asyncio routes -- not through concurrent.futures futures: CPython's
    Future itself tests `if self._exception:` (Lib/concurrent/futures/_base.py) and drops such an exception"""
    out = []

    def err(route):
        return FALSY_ERR if route in ("aio", "default", "await", "await_later", "to_future_default", "run",
                                      "run_sched", "run_thread") else 11
    if fam == "to_future":
        for kind in ("cf", "aio", "default"):
            for v in FALSY:
                out.append({"family": fam, "kind": kind, "acts": [["src", ["N", 5]], ["src", ["N", v]], ["src", ["C"]]]})
                out.append({"family": fam, "kind": kind, "acts": [["src", ["N", v]], ["src", ["C"]]]})
            out.append({"family": fam, "kind": kind, "acts": [["src", ["N", 1]], ["src", ["E", err(kind)]]]})
    elif fam == "run":
        for via in sorted(set(VIAS)):
            for v in FALSY:
                out.append({"family": fam, "via": via, "events": [["N", 5], ["N", v], ["C"]]})
                out.append({"family": fam, "via": via, "events": [["N", v], ["C"]]})
            out.append({"family": fam, "via": via, "events": [["N", 1], ["E", err(via)]]})
            out.append({"family": fam, "via": via, "events": [["E", err(via)]]})
            out.append({"family": fam, "via": via, "events": [["C"]]})
    elif fam == "from_future":
        for kind in ("cf", "aio", "start_async"):
            for v in FALSY:
                out.append({"family": fam, "kind": kind, "init": ["pending"], "acts": [["result", v]]})
                out.append({"family": fam, "kind": kind, "init": ["result", v], "acts": []})
            out.append({"family": fam, "kind": kind, "init": ["pending"], "acts": [["exn", err(kind)]]})
    elif fam == "to_async":
        for via in ("to_async", "start"):
            for v in FALSY:
                out.append({"family": fam, "sched": "proxy", "via": via, "args": [3, 4] if via == "to_async" else [],
                            "r": ["ok", v], "acts": ["run", "sub"]})
    elif fam == "to_async_default":
        for via in ("to_async", "start"):
            for r in (["ok", None], ["ok", 7], ["raise", 71]):
                out.append({"family": fam, "via": via, "args": [2, 5, 1] if via == "to_async" else [], "r": r})
    elif fam == "reinvoke":
        out = c41_multi.forced()
    return out


def start_async_raising():
    """start_async(function raising) -> on_error"""
    import reactivex as rx
    out = []

    def boom():
        raise UserError(74)
    rx.start_async(boom).subscribe(*logger(out, [0]))
    return [(a, b) for (_, a, b) in out]


def run(chk):
    warnings.simplefilter("ignore", DeprecationWarning)
    chk.build_and_prove()
    ncase = {"quick": 120, "thorough": 1500}[chk.tier]
    if chk.broken:
        ncase = 1500
    cases, per, nontrivial = [], {}, set()
    hist = {"unsubscribed_first": 0, "future_cancelled": 0, "empty_sequence": 0, "erroring_sequence": 0,
            "blocks": 0, "mapper": 0, "zero_callback_arguments": 0, "asyncio_future": 0,
            "last_element_falsy": 0, "last_element_none": 0, "falsy_exception_object": 0, "forced_cases": 0,
            "run_source_terminates_on_another_thread": 0, "await_source_terminates_from_loop_timer": 0,
            "to_future_without_future_ctor": 0, "run_with_scheduler_argument": 0,
            "to_async_nonzero_arguments": 0, "default_timeout_scheduler": 0}
    for k in NOTES:
        NOTES[k] = 0
    c41_multi.TIMEOUTS[0] = 0
    for fam in FAMILIES + ["to_async_default", "reinvoke"]:
        gen, runner, gal, orc = FAM[fam]
        n = ncase if fam != "run" else max(60, ncase // 3)
        if fam == "to_async_default":
            n = {"quick": 10, "thorough": 60}[chk.tier]
        n_threads = 0
        if fam == "reinvoke":             # the last n_threads cases run on the default TimeoutScheduler threads
            n_threads = {"quick": 10, "thorough": 60}[chk.tier]
            n = 3 * ncase + n_threads
        forced = forced_cases(fam)
        hist["forced_cases"] += len(forced)
        for i in range(len(forced) + n):
            c = forced[i] if i < len(forced) else (
                c41_multi.gen_default(chk.rng) if i >= len(forced) + n - n_threads else gen(chk.rng))
            chk.cov["evaluations"] += 1
            per[fam] = per.get(fam, 0) + 1
            try:
                r = runner(c)
            except Exception as e:        # the bridge call itself (building the future / observable) raised
                v = f"the bridge call raised {type(e).__name__}: {e}"
                chk.violation(f"C41|{fam}|{v[:60]}", {"case": c, "what": v}, size=len(json.dumps(c)))
                continue
            gi, go = gal(c, r) if gal else (json.dumps(c, sort_keys=True), None)
            v = orc(c, r)
            if v and fam == "reinvoke":
                chk.violation(f"C41|reinvoke|{c['kind']}|{v.split(':')[0]}", {"case": c, "observed": r, "what": v},
                              size=len(json.dumps(c)))
            elif v:
                chk.violation(f"C41|{fam}|{v[:60]}", {"case": c, "model_case": gi, "observed": go, "what": v},
                              size=len(json.dumps(c)))
            else:
                nontrivial.add((c.get("via"), gi) if fam == "run" else gi)
            if gal:
                cases.append((gi, go))
            hist["asyncio_future"] += c.get("kind") == "aio"
            if fam == "from_future":
                hist["unsubscribed_first"] += bool(c["acts"] and c["acts"][0][0] == "dispose" and c["init"][0] == "pending")
                hist["future_cancelled"] += r["fin"][0] == "cancelled"
                hist["falsy_exception_object"] += any(a == ["exn", FALSY_ERR] for a in c["acts"])
            if fam in ("run", "to_future"):
                evs = c["events"] if fam == "run" else [a[1] for a in c["acts"] if a[0] == "src"]
                w = expected_outcome(evs)
                hist["empty_sequence"] += bool(evs and evs[0][0] == "C")
                hist["erroring_sequence"] += w[0] == "exn"
                hist["blocks"] += w[0] == "pending"
                hist["last_element_falsy"] += is_falsy_last(evs)
                hist["last_element_none"] += w == ("result", None)
                hist["falsy_exception_object"] += w == ("exn", FALSY_ERR)
                hist["run_source_terminates_on_another_thread"] += c.get("via") == "run_thread"
                hist["await_source_terminates_from_loop_timer"] += c.get("via") == "await_later"
                hist["run_with_scheduler_argument"] += c.get("via") == "run_sched"
                hist["to_future_without_future_ctor"] += c.get("via") == "to_future_default" or c.get("kind") == "default"
            if fam in ("to_async", "to_async_default"):
                hist["to_async_nonzero_arguments"] += bool(c["args"])
                hist["default_timeout_scheduler"] += fam == "to_async_default"
            if fam == "reinvoke":
                c41_multi.stats(c, hist)
            if fam == "from_callback":
                hist["mapper"] += c["mapper"] is not None
                hist["zero_callback_arguments"] += bool((c["sync"] + c["later"]) and not (c["sync"] + c["later"])[0])
    hist.update(NOTES)
    got = start_async_raising()
    chk.cov["evaluations"] += 1
    if got != [("E", 74)]:
        chk.violation("C41|start_async|raising function not delivered as on_error", {"case": {"family": "start_async_raising"},
                                                                                     "what": f"received {got}"}, size=1)
    bad, logs = lib.correspondence("C41", "b", IMPORTS, "bcase * bout", "bridge_model", "bout_eqb", cases)
    chk.cov["traces_validated_against_impl"] += len(cases)
    chk.cov["disagreements_checked"] += len(cases)
    if bad:
        firsts = [cases[i] for i in bad if i >= 0][:3]
        d = {"n": len(bad), "first (case, observed)": firsts, "logs": logs[:1]}
        if firsts:
            d["model_says"] = lib.coq_show("C41", IMPORTS, f"bridge_model ({firsts[0][0]})")
        chk.tie_broken("correspondence: bridge outcome models vs implementation", d)
    chk.cov["distinct_nontrivial"] = len(nontrivial)
    chk.cov["rule"] = ("from_future: spying concurrent.futures / asyncio futures (and start_async), initially pending or "
                       "already done, 0-4 actions among set_result / set_exception / cancel / unsubscribe; to_future: hot "
                       "source with 0-5 elements, completion / error / none, 20% non-conforming tails, 25% with the owner "
                       "cancelling the future at a random position; run(), await and to_future on cold sources with the "
                       "same sequences (no terminal: watchdog); to_async / start: result or exception, proxy or immediate "
                       "scheduler, every order of run / subscribe / unsubscribe; from_callback: no mapper / sum / len / "
                       "raising / raising on empty, 0-2 handler invocations inside the call and 0-2 later, 0-3 arguments; "
                       "element / result payloads drawn from None, 0, '' (25%) and 1..9, None and '' rendered under "
                       "reserved ids; FORCED into every run: last element None / 0 / '' (alone and after a truthy "
                       "element) and the empty sequence through every route of to_future (cf / asyncio / no future_ctor), "
                       "run / await (9 routes) and from_future, a falsy exception object (len()==0) through run() and the "
                       "asyncio routes (not through concurrent.futures futures: CPython's Future drops it itself), "
                       "falsy results of to_async / start; run routes added: run_thread (subscribe returns, a plain thread delivers the "
                       "sequence once the caller is seen inside threading's wait(), at the latest after 0.3 s: run() "
                       "must block and wake up; 30 s watchdog), await_later (sequence delivered by a call_later timer "
                       "of the running loop), run_sched (run(source, scheduler)), to_future_default (ops.to_future() "
                       "without future_ctor outside a running loop; also as hot-source kind 'default'); to_async called "
                       "with 1-3 generated non-zero arguments, the arguments received by the function are compared; "
                       "to_async_default (oracle only): start / to_async on their default TimeoutScheduler, waited for "
                       "on a threading.Event; reinvoke (oracle only, harness/c41_multi.py): ONE converted function "
                       "rx.to_async(func, scheduler) invoked 2-5 times with different arguments (outcome = table on the "
                       "arguments: different results, some calls raise), rx.start(func, scheduler) repeated 2-4 times "
                       "(k-th call of func has the k-th outcome), ONE rx.from_callback factory invoked 2-3 times with "
                       "1-2 subscriptions each (own handler invocations), rx.from_future / rx.start_async(same function) "
                       "for 2-3 futures; 1-3 subscribers per invocation subscribed before / after the scheduled call "
                       "runs, actions of the invocations interleaved at random (70%) or one invocation after the other, "
                       "proxy / immediate / default TimeoutScheduler; each subscriber still subscribed when its "
                       "invocation's call has run must receive exactly that invocation's result + completion or its "
                       "exception, never anything else; the function is called once per invocation that ran with that "
                       "invocation's arguments; non-trivial = distinct model cases (per route for run) on which the "
                       "oracle held")
    chk.cov["input_distribution"] = {"per_family": per, **hist}
    chk.add_samples([{"case": c[0], "observed": c[1]} for c in cases[:: max(1, len(cases) // 6)]][:6])
    return chk.finish(
        trusted_extra=["spying future subclasses, private asyncio loop stepped by the harness, hot/cold sources and "
                       "watchdog of harness/props/C41.py; proxy scheduler of harness/k2m.py for to_async/start; scenario "
                       "generator, runners and oracle of the reinvoke family in harness/c41_multi.py"],
        assumptions=["asyncio done-callbacks run when the harness steps the loop (after every action): the model places "
                     "them at the position of that action",
                     "real threads (run() woken by another thread, start()/to_async on TimeoutScheduler timer threads) "
                     "are exercised under the OS scheduler, not under a controlled interleaving: the outcome is "
                     "checked, the model does not exhibit the thread machinery; input_distribution."
                     "run_blocked_observed counts the runs in which the caller was seen waiting before the source "
                     "thread delivered",
                     "ops.to_future() without future_ctor outside a running loop emits a DeprecationWarning on CPython "
                     "3.12 (bare asyncio.Future() with no current loop; a RuntimeError from 3.14 on): counted in "
                     "input_distribution.to_future_default_deprecation_warnings, outcome checked as for the other "
                     "routes"])


def replay(chk, path):
    warnings.simplefilter("ignore", DeprecationWarning)
    d = json.load(open(path))
    c = d["case"]
    if c["family"] == "start_async_raising":
        got = start_async_raising()
        print(json.dumps({"case": c, "received": got}, indent=1))
        if got != [("E", 74)]:
            print(f"VIOLATION property=C41 replay={path}")
            return 1
        return 0
    gen, runner, gal, orc = FAM[c["family"]]
    try:
        r = runner(c)
    except Exception as e:
        print(json.dumps({"case": c, "oracle": f"the bridge call raised {type(e).__name__}: {e}"}, indent=1))
        print(f"VIOLATION property=C41 replay={path}")
        return 1
    v = orc(c, r)
    gi, go = gal(c, r) if gal else (None, None)
    print(json.dumps({"case": c, "model_case": gi, "observed": go, "oracle": v or "holds"}, indent=1))
    if v:
        print(f"VIOLATION property=C41 replay={path}")
        return 1
    return 0
