"""C25 -- a disposable's action runs at most once.

Theorems (Props/C25.v): all one-thread histories and ALL schedules of any number of
threads for Disposable (action at most once; is_disposed as soon as a dispose()
passed its test-and-set), BooleanDisposable (flag only) and ScheduledDisposable
(wrapped item disposed exactly once iff a queued action ran).
Tie: K1 histories on the real classes vs Core/Disposables.v; K3 controlled
interleavings (harness/k3.py) vs Core/DispConc.v under the same schedules.
Oracle: counts of action invocations / dispose() calls and the reported flag."""
import dispcheck

KINDS = ("disposable", "boolean", "scheduled")


def run(chk):
    return dispcheck.run_check(
        chk, KINDS,
        "Disposable(action), BooleanDisposable, ScheduledDisposable(spy scheduler whose queued actions are run by "
        "worker threads)",
        extra_assumptions=["ScheduledDisposable is driven through a harness scheduler that only records "
                           "schedule(action) and runs queued actions on request; real schedulers are covered by "
                           "their own properties (C28-C34)"])


def replay(chk, path):
    return dispcheck.replay(chk, path)
