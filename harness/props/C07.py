"""C07 -- slicing an observable behaves like slicing a list.

Theorem (Props/C07.v) is about slice_plan REGENERATED from _slice.py; the
list-level semantics of take/skip/take_last/skip_last/filter_indexed used by
run_plan is tied to the implementation by the exhaustive small-scope
correspondence below (real pipeline vs run_plan) and the oracle is Python's own
list slicing."""
import json
import sys

import lib
from lib import gz, gopt, glist

IMPORTS = "Base.Prelude Ops.Slice Gen.SliceGen"
PRELUDE = """
Definition model (c : list Z * (option Z * option Z * option Z)) : option (list Z) * list Z :=
  let '(xs, (s, e, k)) := c in
  (match slice_plan s e k with
   | Some plan => if forallb pop_ok plan then Some (run_plan plan xs) else None
   | None => None end,
   py_slice_idx xs s e k).
Definition out_eqb (a b : option (list Z) * list Z) : bool :=
  option_eqb (list_eqb Z.eqb) (fst a) (fst b) && list_eqb Z.eqb (snd a) (snd b).
"""
BIG = [2**63 - 1, 2**63, -(2**63), 10**20, -10**20]


def run_impl(xs, start, stop, step, err=False, via="getitem"):
    """-> (elements, terminal) or ('raise', exc type name)"""
    import reactivex as rx
    from reactivex import operators as ops
    src = rx.from_iterable(xs)
    if err:
        src = rx.concat(src, rx.throw(RuntimeError("boom")))
    try:
        if via == "getitem":
            o = src[start:stop:step]
        elif via == "index":          # the integer-index form source[i] (stop / step unused)
            o = src[start]
        else:
            o = src.pipe(ops.slice(start, stop, step))
    except Exception as e:
        return ("raise", type(e).__name__)
    out, term = [], []
    o.subscribe(out.append, lambda e: term.append("E"), lambda: term.append("C"))
    return (out, "".join(term))


FALSY = [None, 0, "", False, (), 0.0, None, []]


def same_elems(a, b):
    """element-wise identity of type and value (0 == False == 0.0 in Python)"""
    return len(a) == len(b) and all(type(x) is type(y) and x == y for x, y in zip(a, b))


def index_readings_agree(n, i):
    """list[i] and list[i:i+1] denote the same single element"""
    return -n <= i < n and i != -1


def index_accepted(xs, i):
    n = len(xs)
    if index_readings_agree(n, i):
        return [([xs[i]], "C")]
    if i == -1 and n > 0:
        return [([], "C"), ([xs[-1]], "C")]
    return [([], "C"), ([], "E")]


def index_ok(xs, i, r, err):
    """r = run_impl(..., via='index'); err: the source fails after xs (only judged where the readings agree)"""
    if not err:
        return any(r == a for a in index_accepted(xs, i))
    exp = [xs[i]]
    return r[0] != "raise" and r[1] in ("E", "C") and r[0] == exp[:len(r[0])] and (r[1] == "E" or r[0] == exp)


def cases_for(tier, rng):
    L = 5 if tier == "quick" else 8
    rngv = list(range(-(L + 2), L + 3))
    starts = [None] + rngv
    steps = [None] + list(range(1, L + 2))       # the statement: all steps 1..N+1
    cs = []
    for n in range(L + 1):
        for s in starts:
            for e in starts:
                for k in steps:
                    cs.append((n, s, e, k))
    nbig = 300 if tier == "quick" else 3000
    for _ in range(nbig):
        n = rng.randrange(0, L + 4)
        pick = lambda: rng.choice([None] + BIG + rngv)
        cs.append((n, pick(), pick(), rng.choice(steps + [10**19])))
    # steps the statement excludes: 0 and negative (compared with the model only)
    for n in (0, 3):
        for s in (None, -2, 1):
            for e in (None, -1, 2):
                for k in (0, -1, -3):
                    cs.append((n, s, e, k))
    return cs


def run(chk):
    proved = chk.build_and_prove()
    tier = chk.tier if proved and not chk.broken else "thorough"   # a broken tie/proof: enlarged search
    if tier != chk.tier:
        chk.cov["search"] = "theorem or translator broke: exhaustive scope enlarged to thorough"
    cs = cases_for(tier, chk.rng)
    gal, seen_nontrivial = [], set()
    hist = {"n": {}, "raise": 0, "neg_start_pos_stop": 0, "step>1": 0, "big": 0}
    for (n, s, e, k) in cs:
        xs = list(range(100, 100 + n))
        r1 = run_impl(xs, s, e, k, via="getitem")
        r2 = run_impl(xs, s, e, k, via="pipe")
        chk.cov["evaluations"] += 2
        hist["n"][n] = hist["n"].get(n, 0) + 1
        if s is not None and e is not None and s < 0 <= e:
            hist["neg_start_pos_stop"] += 1
        if k is not None and k > 1:
            hist["step>1"] += 1
        if any(v is not None and abs(v) > 100 for v in (s, e, k)):
            hist["big"] += 1
        sig_in = f"len={n} start={s} stop={e} step={k}"
        if r1 != r2:
            chk.violation(f"getitem-vs-pipe|{sig_in}",
                          {"input": sig_in, "source_getitem": r1, "ops_slice": r2,
                           "expected": "source[a:b:c] and ops.slice(a,b,c) agree"})
        valid = k is None or k >= 1
        if valid:
            exp = xs[s:e:k]
            if r1 != (exp, "C"):
                chk.violation(f"slice|{sig_in}",
                              {"input": {"source": xs, "start": s, "stop": e, "step": k},
                               "implementation": r1, "expected": [exp, "C"],
                               "oracle": "list(source)[start:stop:step] then completion"},
                              size=n * 100 + abs(s or 0) + abs(e or 0) + abs(k or 0))
            if exp and exp != xs:
                seen_nontrivial.add((n, s, e, k))
            if n:
                # the slice never looks at the elements: the same positions of a source of falsy values / None
                # (a sentinel or truthiness test on an element inside one of the composed operators shows here)
                ys = [FALSY[(i + n) % len(FALSY)] for i in range(n)]
                r4 = run_impl(ys, s, e, k, via="pipe" if (n + len(gal)) % 2 else "getitem")
                chk.cov["evaluations"] += 1
                hist["falsy_sources"] = hist.get("falsy_sources", 0) + 1
                if r4[0] == "raise" or not same_elems(r4[0], ys[s:e:k]) or r4[1] != "C":
                    chk.violation(f"slice-falsy-elements|{sig_in}",
                                  {"input": {"falsy_source_len": n, "source": repr(ys), "start": s, "stop": e, "step": k},
                                   "implementation": repr(r4), "expected": repr([ys[s:e:k], "C"]),
                                   "oracle": "list(source)[start:stop:step] then completion, whatever the elements are"},
                                  size=n * 100 + abs(s or 0) + abs(e or 0) + abs(k or 0))
            # errors pass through: a source failing after xs
            if n <= 3:
                r3 = run_impl(xs, s, e, k, err=True)
                chk.cov["evaluations"] += 1
                ok = (r3[0] != "raise" and r3[1] in ("E", "C") and r3[0] == exp[:len(r3[0])]
                      and (r3[1] == "E" or r3[0] == exp))
                if not ok:
                    chk.violation(f"slice-error|{sig_in}",
                                  {"input": {"source": xs + ["<error>"], "start": s, "stop": e, "step": k},
                                   "implementation": r3,
                                   "expected": "a prefix of the list slice followed by the error, or the "
                                               "complete slice followed by completion"},
                                  size=10**6 + n)
        else:
            hist["raise"] += 1
        # model side
        pyspec = xs[s:e:k] if valid else None
        if r1[0] == "raise":
            impl_out = "None"
        else:
            impl_out = f"(Some {glist(r1[0])})"
        if valid:
            spec_out = glist(pyspec)
            gal.append((f"({glist(xs)}, ({gopt(s)}, {gopt(e)}, {gopt(k)}))", f"({impl_out}, {spec_out})"))
        elif k is not None and k < 0:
            # negative step: only the raise/plan part is compared (py_slice_idx is unspecified there)
            gal.append((f"({glist(xs)}, ({gopt(s)}, {gopt(e)}, {gopt(k)}))",
                        f"({impl_out}, py_slice_idx {glist(xs)} {gopt(s)} {gopt(e)} {gopt(k)})"))
    # ---- the integer-index form source[i].  Observable.__getitem__ maps i to slice_(i, i + 1, 1), i.e. the code's
    # reading is list(source)[i:i+1]; the other natural reading is the element list(source)[i].  The statement does
    # not choose, so the oracle demands only what both readings give and accepts either where they differ
    # (i = -1: [] or the last element; i outside the source: nothing, then completion or an error)
    Lq = 5 if tier == "quick" else 8
    idx_cases = [(n, i) for n in range(Lq + 1) for i in range(-(Lq + 2), Lq + 3)]
    idx_cases += [(chk.rng.randrange(0, Lq + 4), chk.rng.choice(BIG)) for _ in range(20 if tier == "quick" else 200)]
    hist["index_form"] = 0
    hist["index_form_both_readings_agree"] = 0
    for (n, i) in idx_cases:
        xs = list(range(100, 100 + n))
        r = run_impl(xs, i, None, None, via="index")
        chk.cov["evaluations"] += 1
        hist["index_form"] += 1
        agree = index_readings_agree(n, i)
        hist["index_form_both_readings_agree"] += agree
        if not index_ok(xs, i, r, False):
            chk.violation(f"index|len={n} i={i}",
                          {"input": {"source": xs, "index": i}, "implementation": r,
                           "accepted": [list(a) for a in index_accepted(xs, i)],
                           "oracle": "source[i] emits the i-th element (list[i] and list[i:i+1] agree) and completes"},
                          size=n * 100 + abs(i))
        if agree:
            seen_nontrivial.add((n, i, "index"))
        if n <= 3 and agree:
            r3 = run_impl(xs, i, None, None, err=True, via="index")
            chk.cov["evaluations"] += 1
            if not index_ok(xs, i, r3, True):
                chk.violation(f"index-error|len={n} i={i}",
                              {"input": {"source": xs + ["<error>"], "index": i}, "implementation": r3,
                               "expected": "a prefix of [list(source)[i]] followed by the error, or that element "
                                           "followed by completion"}, size=10**6 + n)
        if agree or r == (xs[i:i + 1], "C"):
            # model side (the code's own mapping i -> (i, i+1, 1)); where the readings differ the case is compared
            # only as long as the implementation follows the slice reading
            impl_out = "None" if r[0] == "raise" else f"(Some {glist(r[0])})"
            gal.append((f"({glist(xs)}, ({gopt(i)}, {gopt(i + 1)}, {gopt(1)}))",
                        f"({impl_out}, {glist(xs[i:i + 1])})"))
    bad, logs = lib.correspondence("C07", "corr", IMPORTS,
                                   "(list Z * (option Z * option Z * option Z)) * (option (list Z) * list Z)",
                                   "model", "out_eqb", gal, prelude=PRELUDE)
    chk.cov["traces_validated_against_impl"] = len(gal)
    chk.cov["disagreements_checked"] = len(gal)
    if bad:
        firsts = [gal[i] for i in bad if i >= 0][:5]
        detail = {"n_disagreements": len(bad), "first_cases (input, (impl output, python slice))": firsts,
                  "logs": logs[:1]}
        if firsts:
            detail["model_says"] = lib.coq_show("C07", IMPORTS, f"model {firsts[0][0]}", PRELUDE)
        chk.tie_broken("correspondence: run_plan(slice_plan) / py_slice_idx vs implementation / python list slicing",
                       detail)
    chk.cov["distinct_nontrivial"] = len(seen_nontrivial)
    chk.cov["exhaustive"] = True
    chk.cov["rule"] = (f"exhaustive: source lengths 0..{5 if tier == 'quick' else 8}, start/stop in None or "
                       "[-(L+2), L+2], step in None,1..L+1, through both source[a:b:c] and ops.slice; the "
                       "integer-index form source[i] for every i in [-(L+2), L+2] and 64-bit-boundary values "
                       "(the i-th element where list[i] and list[i:i+1] agree, either reading where they differ: "
                       "i = -1 and i outside the source; also with a failing source); plus "
                       "seeded random cases with 64-bit-boundary and 10**20 values and steps 0/-1/-3 (raise "
                       "path).  non-trivial = distinct (len,start,stop,step) whose expected slice is non-empty "
                       "and differs from the whole list")
    chk.cov["input_distribution"] = hist
    chk.add_samples([{"len": n, "start": s, "stop": e, "step": k} for (n, s, e, k) in
                     [cs[i] for i in range(0, len(cs), max(1, len(cs) // 5))]])
    return chk.finish(
        trusted_extra=["translator harness/translate/slice_tr.py (fail-closed ast -> Gallina for slice_)",
                       "list-level semantics of take/skip/take_last/skip_last/filter_indexed/map_indexed/"
                       "filter/map in Ops/Slice.v: modelled, tied by this run's exhaustive small-scope "
                       "correspondence (machine-level models of the same operators: C05)"],
        assumptions=["source shorter than sys.maxsize elements (hypothesis zlen l <= maxsize of the theorem)"])


def replay(chk, path):
    d = json.load(open(path))
    inp = d.get("input")
    if isinstance(inp, dict) and "index" in inp:
        xs = [x for x in inp["source"] if x != "<error>"]
        err = "<error>" in inp["source"]
        i = inp["index"]
        r = run_impl(xs, i, None, None, err=err, via="index")
        print("input", inp, "implementation", r, "accepted", index_accepted(xs, i))
        ok = index_ok(xs, i, r, err)
        if not ok:
            print(f"VIOLATION property=C07 replay={path}")
        return 0 if ok else 1
    if isinstance(inp, dict) and "falsy_source_len" in inp:
        n = inp["falsy_source_len"]
        ys = [FALSY[(i + n) % len(FALSY)] for i in range(n)]
        exp = ys[inp["start"]:inp["stop"]:inp["step"]]
        ok = True
        for via in ("getitem", "pipe"):
            r = run_impl(ys, inp["start"], inp["stop"], inp["step"], via=via)
            print("source", repr(ys), "via", via, "implementation", repr(r), "list slice", repr(exp))
            ok = ok and r[0] != "raise" and same_elems(r[0], exp) and r[1] == "C"
        if not ok:
            print(f"VIOLATION property=C07 replay={path}")
        return 0 if ok else 1
    if isinstance(inp, dict):
        xs = [x for x in inp["source"] if x != "<error>"]
        err = "<error>" in inp["source"]
        r = run_impl(xs, inp["start"], inp["stop"], inp["step"], err=err)
        exp = xs[inp["start"]:inp["stop"]:inp["step"]]
        print("input", inp, "implementation", r, "list slice", exp)
        ok = (r == (exp, "C")) if not err else (r[0] != "raise" and r[1] in ("E", "C") and r[0] == exp[:len(r[0])]
                                                and (r[1] == "E" or r[0] == exp))
        if not ok:
            print(f"VIOLATION property=C07 replay={path}")
        return 0 if ok else 1
    print(json.dumps(d, indent=1))
    return 1
