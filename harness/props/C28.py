"""C28 -- virtual time runs actions in due order on a monotone clock.

Theorems (Props/C28.v) are about Core/VTime.v, for ALL histories.  Tie (K1):
random and exhaustive-small operation histories (schedule absolute / relative /
immediate with nested action trees that schedule, cancel, stop and sleep;
interleaved with advance_to / advance_by / sleep / start / stop / cancel) are run
on the real VirtualTimeScheduler, TestScheduler and HistoricalScheduler (datetime
clock) with logging actions, and Coq evaluates the model on the same history
(vm_compute) and compares every observation: which action ran with which clock
reading, exceptions of top-level calls, the clock after every top-level call.
Oracle: vt.oracle_vt, a direct predicate of the statement on the implementation's
trace (pending-set replay: order, FIFO, clock at run, monotone clock, cancelled
never run, advance/start exactness, sleep)."""
import itertools
import json

import lib
import vt

IMPORTS = "Base.Prelude Core.VTime"
PRELUDE = """
Definition model (c : kind * Z * nat * list tcmd) : list oev :=
  let '(k, c0, fuel, h) := c in observe (run (Cfg k false) fuel (init c0) h).
"""
CASE_TY = "(kind * Z * nat * list tcmd) * list oev"
KNOWN_ADV_NOW = ("advance_to(now)|items due at or before the target are not run when the target equals the clock")
U = vt.US


def alphabet():
    """top-level commands of the exhaustive small scope (labels are filled in later)"""
    L = -7   # placeholder label
    bodies = [[["sched", ["now"], L, []]], [["sched", ["rel", U], L, []]], [["sched", ["abs", U], L, []]],
              [["cancel", 0]], [["cancel", 1]], [["stop"]], [["sleep", U]]]
    whens = [["now"], ["rel", U], ["rel", -U], ["abs", 0], ["abs", U], ["abs", 2 * U]]
    A = [["do", ["sched", w, L, []]] for w in whens]
    A += [["do", ["sched", w, L, b]] for w in (["now"], ["rel", U], ["abs", U]) for b in bodies]
    A += [["do", ["cancel", 0]], ["do", ["cancel", 1]], ["do", ["sleep", U]], ["do", ["stop"]],
          ["start"], ["advto", 0], ["advto", U], ["advto", 2 * U], ["advby", 0], ["advby", U]]
    return A


def relabel(h):
    n = [0]

    def c(x):
        if x[0] == "sched":
            lab = n[0]
            n[0] += 1
            return ["sched", x[1], lab, [c(y) for y in x[3]]]
        return x
    return [["do", c(t[1])] if t[0] == "do" else t for t in h]


def gen_cases(tier, rng):
    """-> list of (world, c0, history, iwp, origin)"""
    A = alphabet()
    out = []
    for world in vt.WORLDS:
        for n in (1, 2):
            for tup in itertools.product(A, repeat=n):
                out.append((world, 0, relabel(list(tup)), False, f"exhaustive{n}"))
    if tier == "thorough":
        for tup in itertools.product(A, repeat=3):
            out.append(("vts", 0, relabel(list(tup)), False, "exhaustive3"))
        n3, nr = 6000, 20000
    else:
        n3, nr = 1200, 1500
    for _ in range(n3):
        world = rng.choice(vt.WORLDS)
        out.append((world, 0, relabel([rng.choice(A) for _ in range(rng.choice([3, 3, 4]))]), False, "sampled3-4"))
    for _ in range(nr):
        world = rng.choice(vt.WORLDS)
        unit = rng.choice([U, 250000, 1000, 1])
        g = vt.Gen(rng, unit=unit, allow=("cancel", "stop", "sleep"), max_depth=rng.choice([1, 2, 3]))
        h = g.history(world, rng.randrange(1, 10))
        out.append((world, rng.choice([0, 0, unit, 3 * unit]), h, rng.random() < 0.5, "random"))
    return out


def features(h):
    f = []
    if vt.has(h, ("cancel",)):
        f.append("cancel")
    if vt.has(h, ("stop",)):
        f.append("stop")
    if vt.has(h, ("sleep",)):
        f.append("sleep")
    if vt.has(h, ("advto", "advby")):
        f.append("advance")
    if any(t[0] == "do" and t[1][0] == "sched" and any(c[0] == "sched" for c in t[1][3]) for t in h):
        f.append("nested")
    return f


def run(chk):
    proved = chk.build_and_prove()
    tier = chk.tier if proved and not chk.broken else "thorough"
    if tier != chk.tier:
        chk.cov["search"] = "theorem or build broke: scope enlarged to thorough"
    cases = gen_cases(tier, chk.rng)
    gal, failures, nontrivial = [], [], set()
    hist = {"world": {}, "origin": {}, "feature": {}, "equal_due_pairs": 0, "ran>=2": 0}
    for (world, c0, h, iwp, origin) in cases:
        obs, trace = vt.run_impl(world, c0, h, iwp=iwp, timeout=10.0)
        chk.cov["evaluations"] += 1
        hist["world"][world] = hist["world"].get(world, 0) + 1
        hist["origin"][origin] = hist["origin"].get(origin, 0) + 1
        for f in features(h):
            hist["feature"][f] = hist["feature"].get(f, 0) + 1
        runs = [e for e in trace if e[0] == "run"]
        dues = [e[3] for e in trace if e[0] == "sched"]
        if len(dues) != len(set(dues)):
            hist["equal_due_pairs"] += 1
        if len(runs) >= 2:
            hist["ran>=2"] += 1
            nontrivial.add(json.dumps([world, c0, h]))
        for sig, detail in vt.oracle_vt(world, trace):
            failures.append((vt.hsize(h) * 100 + len(json.dumps(h)), sig, world, c0, h, iwp, obs, detail))
        gal.append((f"({vt.KIND[world]}, {vt.gz(c0)}, {vt.hsize(h)}%nat, {vt.g_history(h)})", vt.g_obs(obs)))
    # smallest failing input per failure class
    failures.sort(key=lambda f: f[0])
    seen = set()
    for size, sig, world, c0, h, iwp, obs, detail in failures:
        if sig in seen:
            continue
        seen.add(sig)
        signature = KNOWN_ADV_NOW if sig == "advance_to-target-equals-clock" else f"{sig}|{world}"
        chk.violation(signature, {"world": world, "c0": c0, "history": h, "iwp": iwp, "observed": obs,
                                  "what_failed": detail,
                                  "expected": "C28: due order, FIFO among equal due times, clock = max(clock, due) at "
                                              "run, monotone clock, cancelled never run, advance_to/advance_by run "
                                              "exactly the items due at or before the target and leave the clock there"},
                      size=size)
    bad, logs = lib.correspondence("C28", "corr", IMPORTS, CASE_TY, "model", "(list_eqb oev_eqb)", gal,
                                   prelude=PRELUDE)
    chk.cov["traces_validated_against_impl"] = len(gal)
    chk.cov["disagreements_checked"] = len(gal)
    if bad:
        firsts = [i for i in bad if i >= 0][:3]
        detail = {"n_disagreements": len(bad), "logs": logs[:1],
                  "first_cases": [{"world": cases[i][0], "c0": cases[i][1], "history": cases[i][2],
                                   "implementation": cases[i] and gal[i][1]} for i in firsts]}
        if firsts:
            detail["model_says"] = lib.coq_show("C28", IMPORTS, f"model {gal[firsts[0]][0]}", PRELUDE)
        chk.tie_broken("correspondence: Core/VTime.v run vs real scheduler", detail)
    chk.cov["distinct_nontrivial"] = len(nontrivial)
    chk.cov["rule"] = ("exhaustive: all histories of 1..2 top-level calls over a 37-letter alphabet (6 schedule "
                       "variants, 21 with one-command bodies, cancel/sleep/stop/start/advance_to/advance_by) on each of "
                       "VirtualTimeScheduler, TestScheduler, HistoricalScheduler (thorough: also all of length 3 on "
                       "VirtualTimeScheduler); plus seeded samples of length 3..4 over the alphabet and random "
                       "histories (nesting depth <= 3, 1..9 calls, time units 1 s / 0.25 s / 1 ms / 1 us, negative "
                       "delays, int and float arguments).  non-trivial = distinct (world, c0, history) in which at "
                       "least two actions ran")
    chk.cov["input_distribution"] = hist
    chk.add_samples([{"world": c[0], "c0": c[1], "history": c[2]} for c in cases[::max(1, len(cases) // 6)]])
    return chk.finish(
        trusted_extra=["Core/VTime.v is a hand-written model of virtualtimescheduler.py/priorityqueue.py/"
                       "scheduleditem.py (validated by this run's correspondence, not extracted); heapq is "
                       "abstracted as a list sorted by the tuple order",
                       "harness/vt.py: instrumented subclass recording the disposables returned by "
                       "schedule_absolute (observation only)"],
        assumptions=["time values are whole microseconds of moderate size (float<->datetime conversion exact)",
                     "single thread"])


def replay(chk, path):
    d = json.load(open(path))
    if "history" not in d:
        print(json.dumps(d, indent=1))
        return 1
    obs, trace = vt.run_impl(d["world"], d["c0"], d["history"], iwp=d.get("iwp", False))
    bad = vt.oracle_vt(d["world"], trace)
    print("history", json.dumps(d["history"]))
    print("observed", obs)
    for sig, detail in bad:
        print("FAILS", sig, detail)
    return 1 if bad else 0
