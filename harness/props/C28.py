"""C28 -- virtual time runs actions in due order on a monotone clock.

Theorems (Props/C28.v) are about Core/VTime.v, for ALL histories.  Tie (K1):
random and exhaustive-small operation histories (schedule absolute / relative /
immediate with nested action trees that schedule, cancel, stop and sleep;
interleaved with advance_to / advance_by / sleep / start / stop / cancel) are run
on the real VirtualTimeScheduler, TestScheduler and HistoricalScheduler (datetime
clock) with logging actions, and Coq evaluates the model on the same history
(vm_compute) and compares every observation: which action ran with which clock
reading, exceptions of top-level calls, the clock after every top-level call.
Oracle: vt.oracle_vt, a direct predicate of the statement on the implementation's
trace (pending-set replay: order, FIFO, clock at run, monotone clock, cancelled
never run, advance/start exactness, sleep moves the clock and runs nothing, no
action runs outside start()/advance_*() or while another action is running).

Added after the coverage audit: start() / advance_to() / advance_by() issued from
INSIDE an action (the `_is_enabled` guards; only nesting is judged), the
"sleep runs nothing" clause, and raising actions on the plain schedulers (what
happens after an exception left start() is outside the statement: modelled and
compared, not judged by the oracle)."""
import itertools
import json

import lib
import vt

IMPORTS = "Base.Prelude Core.VTime"
PRELUDE = """
Definition model (c : kind * Z * nat * list tcmd) : list oev :=
  let '(k, c0, fuel, h) := c in observe (run (Cfg k false) fuel (init c0) h).
"""
CASE_TY = "(kind * Z * nat * list tcmd) * list oev"
KNOWN_ADV_NOW = ("advance_to(now)|items due at or before the target are not run when the target equals the clock")
U = vt.US


def alphabet():
    """top-level commands of the exhaustive small scope (labels are filled in later)"""
    L = -7   # placeholder label
    bodies = [[["sched", ["now"], L, []]], [["sched", ["rel", U], L, []]], [["sched", ["abs", U], L, []]],
              [["cancel", 0]], [["cancel", 1]], [["stop"]], [["sleep", U]]]
    whens = [["now"], ["rel", U], ["rel", -U], ["abs", 0], ["abs", U], ["abs", 2 * U]]
    A = [["do", ["sched", w, L, []]] for w in whens]
    A += [["do", ["sched", w, L, b]] for w in (["now"], ["rel", U], ["abs", U]) for b in bodies]
    A += [["do", ["cancel", 0]], ["do", ["cancel", 1]], ["do", ["sleep", U]], ["do", ["stop"]],
          ["start"], ["advto", 0], ["advto", U], ["advto", 2 * U], ["advby", 0], ["advby", U]]
    return A


def nested_family():
    """start()/advance_to()/advance_by() issued from inside an action, with another action pending
    that a nested run loop would run: every nested call x position in the body x due time of the
    other action x outer driver"""
    L = -7
    nests = [["nstart"], ["nadvby", 0], ["nadvby", U], ["nadvby", 5 * U], ["nadvby", -U],
             ["nadvto", 0], ["nadvto", U], ["nadvto", 3 * U]]
    out = []
    for w1 in (["now"], ["rel", U], ["abs", U]):
        for nest in nests:
            for body in ([nest], [["sched", ["now"], L, []], nest], [nest, ["sched", ["rel", U], L, []]]):
                for w2 in (["now"], ["abs", U], ["abs", 2 * U]):
                    for drive in (["start"], ["advto", 2 * U], ["advby", U]):
                        out.append([["do", ["sched", w1, L, body]], ["do", ["sched", w2, L, []]], drive,
                                    ["start"]])
    # the same after stop() in the body: the call really re-enters the loop (nothing about it is judged
    # except the clauses that hold of every run: order, clock, cancellation)
    for nest in nests:
        for drive in (["start"], ["advto", 2 * U]):
            out.append([["do", ["sched", ["abs", U], L, [["stop"], nest]]], ["do", ["sched", ["abs", 2 * U], L, []]],
                        ["do", ["sched", ["abs", 4 * U], L, []]], drive, ["start"]])
    return out


def relabel(h):
    n = [0]

    def c(x):
        if x[0] == "sched":
            lab = n[0]
            n[0] += 1
            return ["sched", x[1], lab, [c(y) for y in x[3]]]
        return x
    return [["do", c(t[1])] if t[0] == "do" else t for t in h]


def gen_cases(tier, rng):
    """-> list of (world, c0, history, iwp, origin)"""
    A = alphabet()
    out = []
    for world in vt.WORLDS:
        for n in (1, 2):
            for tup in itertools.product(A, repeat=n):
                out.append((world, 0, relabel(list(tup)), False, f"exhaustive{n}"))
    if tier == "thorough":
        for tup in itertools.product(A, repeat=3):
            out.append(("vts", 0, relabel(list(tup)), False, "exhaustive3"))
        n3, nr, nn = 6000, 20000, 12000
    else:
        n3, nr, nn = 1200, 1500, 900
    NF = nested_family()
    for world in vt.WORLDS:
        for i, h in enumerate(NF):
            if tier == "thorough" or i % 3 == vt.WORLDS.index(world):
                out.append((world, 0, relabel(h), False, "nested-call"))
    for _ in range(n3):
        world = rng.choice(vt.WORLDS)
        out.append((world, 0, relabel([rng.choice(A) for _ in range(rng.choice([3, 3, 4]))]), False, "sampled3-4"))
    for _ in range(nr):
        world = rng.choice(vt.WORLDS)
        unit = rng.choice([U, 250000, 1000, 1])
        g = vt.Gen(rng, unit=unit, allow=("cancel", "stop", "sleep"), max_depth=rng.choice([1, 2, 3]),
                   raise_p=rng.choice([0.0, 0.05, 0.05]))
        h = g.history(world, rng.randrange(1, 10))
        out.append((world, rng.choice([0, 0, unit, 3 * unit]), h, rng.random() < 0.5, "random"))
    for _ in range(nn):
        # random histories whose action bodies also call start()/advance_to()/advance_by()
        world = rng.choice(vt.WORLDS)
        unit = rng.choice([U, 250000, 1000])
        g = vt.Gen(rng, unit=unit, allow=("cancel", "stop", "sleep"), max_depth=rng.choice([1, 2, 3]),
                   raise_p=rng.choice([0.0, 0.0, 0.05]), nest_p=rng.choice([0.15, 0.3]),
                   nest_after_stop=rng.random() < 0.15, nest_advto=rng.random() < 0.4)
        h = g.history(world, rng.randrange(2, 10))
        if rng.random() < 0.7:
            h.append(rng.choice([["start"], ["start"], ["advby", 10 * unit]]))
        out.append((world, rng.choice([0, 0, unit, 3 * unit]), h, rng.random() < 0.5, "random-nested"))
    return out


def features(h):
    f = []
    if vt.has(h, ("cancel",)):
        f.append("cancel")
    if vt.has(h, ("stop",)):
        f.append("stop")
    if vt.has(h, ("sleep",)):
        f.append("sleep")
    if vt.has(h, ("advto", "advby")):
        f.append("advance")
    if vt.has(h, ("raise",)):
        f.append("raise")
    if vt.has(h, vt.NEST):
        f.append("nested-call")
    if any(t[0] == "do" and t[1][0] == "sched" and any(c[0] == "sched" for c in t[1][3]) for t in h):
        f.append("nested")
    return f


def measure(trace, hist):
    """coverage counters of the scenario kinds added after the audit (measured on the trace)"""
    pending, stopped, stuck, exc, top, raised_in_action = {}, False, False, False, None, False
    for ev in trace:
        k = ev[0]
        if k == "top":
            stopped, exc, top, raised_in_action = False, False, ev, False
            if stuck and ev[1] in ("start", "start_test", "advto", "advby"):
                hist["run_loop_calls_while_stuck_after_an_exception"] += 1
        elif k == "sched":
            pending[ev[1]] = ev[3]
        elif k == "cancel":
            pending.pop(ev[1], None)
        elif k == "run":
            pending.pop(ev[1], None)
        elif k == "stop":
            stopped, stuck = True, False
        elif k == "nest":
            key = ev[1] + ("/after-stop" if stopped else "")
            hist["nested_calls_executed"][key] = hist["nested_calls_executed"].get(key, 0) + 1
            if stopped:
                hist["nested_calls_after_stop (really re-enter, not judged)"] += 1
            target = None if ev[1] == "nstart" else ev[2] if ev[1] == "nadvto" else ev[3] + ev[2]
            if not stopped and any(target is None or d <= target for d in pending.values()):
                hist["nested_calls_with_a_due_item_pending"] += 1
        elif k == "sleepb":
            hist["sleep_calls"] += 1
        elif k == "sleep":
            if ev[1] > 0 and any(d <= ev[3] for d in pending.values()):
                hist["sleep_calls_with_a_due_item_pending"] += 1
        elif k == "raise" and ev[2] > 0:
            hist["actions_that_raised"] += 1
            raised_in_action = True
        elif k == "exc":
            exc = True
            hist["top_level_calls_left_by_an_exception"] += 1
        elif k == "ret":
            if exc and raised_in_action and top[1] in ("start", "start_test", "advto", "advby"):
                stuck = True


def run(chk):
    proved = chk.build_and_prove()
    tier = chk.tier if proved and not chk.broken else "thorough"
    if tier != chk.tier:
        chk.cov["search"] = "theorem or build broke: scope enlarged to thorough"
    cases = gen_cases(tier, chk.rng)
    gal, failures, nontrivial = [], [], set()
    hist = {"world": {}, "origin": {}, "feature": {}, "equal_due_pairs": 0, "ran>=2": 0,
            "nested_calls_executed": {}, "nested_calls_with_a_due_item_pending": 0,
            "nested_calls_after_stop (really re-enter, not judged)": 0,
            "oracle_only (nadvto / nested call after stop: no model rendering)": 0,
            "sleep_calls": 0, "sleep_calls_with_a_due_item_pending": 0,
            "actions_that_raised": 0, "top_level_calls_left_by_an_exception": 0,
            "run_loop_calls_while_stuck_after_an_exception": 0}
    gal_cases = []
    for (world, c0, h, iwp, origin) in cases:
        obs, trace = vt.run_impl(world, c0, h, iwp=iwp, timeout=10.0)
        chk.cov["evaluations"] += 1
        hist["world"][world] = hist["world"].get(world, 0) + 1
        hist["origin"][origin] = hist["origin"].get(origin, 0) + 1
        for f in features(h):
            hist["feature"][f] = hist["feature"].get(f, 0) + 1
        runs = [e for e in trace if e[0] == "run"]
        dues = [e[3] for e in trace if e[0] == "sched"]
        if len(dues) != len(set(dues)):
            hist["equal_due_pairs"] += 1
        if len(runs) >= 2:
            hist["ran>=2"] += 1
            nontrivial.add(json.dumps([world, c0, h]))
        measure(trace, hist)
        for sig, detail in vt.oracle_vt(world, trace):
            failures.append((vt.hsize(h) * 100 + len(json.dumps(h)), sig, world, c0, h, iwp, obs, detail))
        if vt.model_ok(h):
            gal.append((f"({vt.KIND[world]}, {vt.gz(c0)}, {vt.hsize(h)}%nat, {vt.g_history(h)})", vt.g_obs(obs)))
            gal_cases.append((world, c0, h))
        else:
            hist["oracle_only (nadvto / nested call after stop: no model rendering)"] += 1
    # smallest failing input per failure class
    failures.sort(key=lambda f: f[0])
    seen = set()
    for size, sig, world, c0, h, iwp, obs, detail in failures:
        if sig in seen:
            continue
        seen.add(sig)
        signature = KNOWN_ADV_NOW if sig == "advance_to-target-equals-clock" else f"{sig}|{world}"
        chk.violation(signature, {"world": world, "c0": c0, "history": h, "iwp": iwp, "observed": obs,
                                  "what_failed": detail,
                                  "expected": "C28: due order, FIFO among equal due times, clock = max(clock, due) at "
                                              "run, monotone clock, cancelled never run, advance_to/advance_by run "
                                              "exactly the items due at or before the target and leave the clock there"},
                      size=size)
    bad, logs = lib.correspondence("C28", "corr", IMPORTS, CASE_TY, "model", "(list_eqb oev_eqb)", gal,
                                   prelude=PRELUDE)
    chk.cov["traces_validated_against_impl"] = len(gal)
    chk.cov["disagreements_checked"] = len(gal)
    if bad:
        firsts = [i for i in bad if i >= 0][:3]
        detail = {"n_disagreements": len(bad), "logs": logs[:1],
                  "first_cases": [{"world": gal_cases[i][0], "c0": gal_cases[i][1], "history": gal_cases[i][2],
                                   "implementation": gal[i][1]} for i in firsts]}
        if firsts:
            detail["model_says"] = lib.coq_show("C28", IMPORTS, f"model {gal[firsts[0]][0]}", PRELUDE)
        chk.tie_broken("correspondence: Core/VTime.v run vs real scheduler", detail)
    chk.cov["distinct_nontrivial"] = len(nontrivial)
    chk.cov["rule"] = ("exhaustive: all histories of 1..2 top-level calls over a 37-letter alphabet (6 schedule "
                       "variants, 21 with one-command bodies, cancel/sleep/stop/start/advance_to/advance_by) on each of "
                       "VirtualTimeScheduler, TestScheduler, HistoricalScheduler (thorough: also all of length 3 on "
                       "VirtualTimeScheduler); plus seeded samples of length 3..4 over the alphabet and random "
                       "histories (nesting depth <= 3, 1..9 calls, time units 1 s / 0.25 s / 1 ms / 1 us, negative "
                       "delays, int and float arguments; raise probability 0 / 0.05 per command).  Added: family "
                       "nested-call = {start(), advance_by(0 / 1 s / 5 s / -1 s), advance_to(0 / 1 s / 3 s)} issued "
                       "from inside an action x 3 positions in its body x 3 schedule variants x 3 due times of a "
                       "second action x {start, advance_to, advance_by} (+ the same after stop() in the body), one "
                       "third per scheduler (thorough: all); random-nested = random histories whose bodies contain "
                       "such calls with probability 0.15 / 0.3 per command.  Oracle additions: an action logged "
                       "while another is open (nested-run; not after a stop()-then-nested-call, which re-enters the "
                       "loop), an action logged inside sleep() or during a top-level schedule/cancel/stop/sleep "
                       "call.  non-trivial = distinct (world, c0, history) in which at least two actions ran")
    chk.cov["input_distribution"] = hist
    chk.add_samples([{"world": c[0], "c0": c[1], "history": c[2]} for c in cases[::max(1, len(cases) // 6)]])
    return chk.finish(
        trusted_extra=["Core/VTime.v is a hand-written model of virtualtimescheduler.py/priorityqueue.py/"
                       "scheduleditem.py (validated by this run's correspondence, not extracted); heapq is "
                       "abstracted as a list sorted by the tuple order",
                       "harness/vt.py: instrumented subclass recording the disposables returned by "
                       "schedule_absolute (observation only)",
                       "harness/vt.py g_history prints start()/advance_by(d >= 0) issued from inside an action as "
                       "nothing and advance_by(d < 0) as the equally raising sleep(d) (basis: Core/VTimeNested.v, "
                       "C28_nested_* theorems); histories with a nested advance_to or a nested call after stop() "
                       "are judged by the oracle only"],
        assumptions=["time values are whole microseconds of moderate size (float<->datetime conversion exact)",
                     "single thread"])


def replay(chk, path):
    d = json.load(open(path))
    if "history" not in d:
        print(json.dumps(d, indent=1))
        return 1
    obs, trace = vt.run_impl(d["world"], d["c0"], d["history"], iwp=d.get("iwp", False))
    bad = vt.oracle_vt(d["world"], trace)
    print("history", json.dumps(d["history"]))
    print("observed", obs)
    known = [b for b in bad if b[0] == "advance_to-target-equals-clock"]
    for sig, detail in bad:
        print("FAILS", sig, detail)
    if bad:
        print(f"VIOLATION property=C28 replay={path}" if len(known) < len(bad) else
              f"KNOWN-FINDING: property=C28 replay={path} [{KNOWN_ADV_NOW}]")
    return 1 if bad else 0
