"""C18 -- windows and buffers partition the source correctly (DESIGN.md section 7/C18).
Machines: Ops/Windows.v on the runner Ops/MultiWin.v (hands observables downstream, ref-counted
release); tie: K2 port-level replay with a window-subscribing logging subscriber (harness/k2w.py);
oracle: harness/win_table.py (expected content of every window/buffer recomputed from the rule)."""
import win_table

NAMES = ["window_with_count", "buffer_with_count", "window_with_time", "buffer_with_time",
         "window_with_time_or_count", "buffer_with_time_or_count", "window", "buffer",
         "window_when", "buffer_when", "window_toggle", "buffer_toggle"]


def run_sync_closing(case):
    """window_when / buffer_when whose closing selector returns, at chosen invocations, an observable that fires
    SYNCHRONOUSLY inside subscribe() (completes at once / emits at once) -- otherwise a hand-held Subject.
    -> list of windows (each a list of elements; the last one may be open), outer terminal"""
    import reactivex as rx
    from reactivex import operators as ops
    from reactivex.subject import Subject
    src = Subject()
    closings = []            # Subjects handed out, in invocation order (None for the synchronous ones)
    calls = [0]

    def closing():
        k = calls[0]
        calls[0] += 1
        kind = case["kinds"][k] if k < len(case["kinds"]) else "hot"
        if kind == "empty":
            closings.append(None)
            return rx.empty()
        if kind == "of":
            closings.append(None)
            return rx.of(0)
        s = Subject()
        closings.append(s)
        return s
    windows, term = [], []
    if case["operator"] == "buffer_when":
        src.pipe(ops.buffer_when(closing)).subscribe(lambda b: windows.append(list(b)), lambda e: term.append("E"),
                                                     lambda: term.append("C"))
    else:
        def on_window(w):
            rec = []
            windows.append(rec)
            w.subscribe(rec.append, lambda e: None, lambda: None)
        src.pipe(ops.window_when(closing)).subscribe(on_window, lambda e: term.append("E"), lambda: term.append("C"))
    for step in case["script"]:
        if step[0] == "N":
            src.on_next(step[1])
        elif step[0] == "close":        # the most recent hot closing observable fires
            live = [s for s in closings if s is not None]
            if live:
                (live[-1].on_next(0) if step[1] == "next" else live[-1].on_completed())
        else:
            src.on_completed()
    return windows, term


def ref_sync_closing(case):
    """reference: one window at a time; it closes when its closing observable fires (synchronously at creation for
    'empty'/'of'); the next window opens at that instant with the next invocation of the selector"""
    kinds = case["kinds"]
    calls = 0
    windows = [[]]

    def open_next():
        nonlocal calls
        while True:
            kind = kinds[calls] if calls < len(kinds) else "hot"
            calls += 1
            if kind == "hot":
                return
            windows.append([])          # fired at once: that window is closed empty and the next one opens
    open_next()
    done = False
    for step in case["script"]:
        if done:
            break
        if step[0] == "N":
            windows[-1].append(step[1])
        elif step[0] == "close":
            windows.append([])
            open_next()
        else:
            done = True
    return windows, (["C"] if done else [])


def sync_closing_scenarios(chk):
    n = 120 if chk.tier == "quick" else 2000
    nontrivial = set()
    for _ in range(n):
        kinds = [chk.rng.choice(["hot", "hot", "hot", "empty", "of"]) for _ in range(chk.rng.choice([2, 4, 6]))]
        script = []
        for _ in range(chk.rng.choice([3, 5, 8])):
            r = chk.rng.random()
            if r < 0.6:
                script.append(["N", chk.rng.choice([0, None, 1, 2, 3, ""])])
            else:
                script.append(["close", chk.rng.choice(["next", "next", "done"])])
        if chk.rng.random() < 0.7:
            script.append(["done"])
        case = {"operator": chk.rng.choice(["window_when", "buffer_when"]), "kinds": kinds, "script": script}
        try:
            got = run_sync_closing(case)
        except RecursionError:
            continue
        chk.cov["evaluations"] += 1
        exp = ref_sync_closing(case)
        gw, ew = list(got[0]), list(exp[0])
        if case["operator"] == "buffer_when" and exp[1] != ["C"]:
            ew = ew[:-1]                 # the open buffer is only emitted at completion
        if (gw, got[1]) != (ew, exp[1]):
            chk.violation(f"C18|sync-closing|{case['operator']}|{kinds}|{script}"[:160],
                          {"sync_closing_case": case, "got (windows, terminal)": [gw, got[1]],
                           "expected": [ew, exp[1]],
                           "what": "closing selector returning an observable that fires inside subscribe(): the "
                                   "window closes at once and the NEXT closing observable must stay subscribed"},
                          size=len(script) + len(kinds))
        elif any(k != "hot" for k in kinds[:3]) and len(ew) >= 3:
            nontrivial.add(repr(case))
    return nontrivial


# ---- synchronous openings / closings / boundaries for toggle and boundary rules (oracle-only) -----------------

def _prefix_then(rx, n0, tail, hot, immediate):
    """an observable that emits n0 items INSIDE subscribe() and then goes on as `tail`: 'hot' (the hand-held
    subject), 'done' (completes at once), 'never'.  immediate: on the ImmediateScheduler -- in the middle of the
    operator's subscribe body; otherwise on the trampoline -- right after that body, before subscribe() returns"""
    from reactivex.scheduler import ImmediateScheduler
    pre = rx.from_iterable(range(n0), scheduler=ImmediateScheduler.singleton()) if immediate else rx.from_iterable(range(n0))
    if tail == "done":
        return pre
    rest = hot if tail == "hot" else rx.never()
    return rx.concat(pre, rest) if n0 else rest


def run_sync_rule(case):
    """window_toggle / buffer_toggle / window(boundaries) / buffer(boundaries) on a hand-held source, with
    openings / boundaries that emit `sync` items inside subscribe() (then: hand-held / completed / silent) and,
    for toggle, closing observables that at seeded invocations fire inside subscribe() (empty / of), never fire,
    or are hand-held.  -> (windows [[items], terminal] or buffers [[items]], outer terminal list)"""
    import reactivex as rx
    from reactivex import operators as ops
    from reactivex.subject import Subject
    src, hot = Subject(), Subject()
    closings = []            # per closing-mapper invocation: Subject or None
    calls = [0]

    def closing(_v):
        k = calls[0]
        calls[0] += 1
        kind = case["kinds"][k] if k < len(case["kinds"]) else "hot"
        if kind == "empty":
            closings.append(None)
            return rx.empty()
        if kind == "of":
            closings.append(None)
            return rx.of(0)
        if kind == "never":
            closings.append(None)
            return rx.never()
        sub = Subject()
        closings.append(sub)
        return sub
    ctl = _prefix_then(rx, case["sync"], case["tail"], hot, case.get("immediate", False))
    name = case["operator"]
    op = {"window_toggle": lambda: ops.window_toggle(ctl, closing), "buffer_toggle": lambda: ops.buffer_toggle(ctl, closing),
          "window": lambda: ops.window(ctl), "buffer": lambda: ops.buffer(ctl)}[name]()
    out, term = [], []
    if name.startswith("buffer"):
        src.pipe(op).subscribe(lambda b: out.append(list(b)), lambda e: term.append("E"), lambda: term.append("C"))
    else:
        def on_window(w):
            rec = [[], None]
            out.append(rec)
            w.subscribe(rec[0].append, lambda e: rec.__setitem__(1, "E"), lambda: rec.__setitem__(1, "C"))
        src.pipe(op).subscribe(on_window, lambda e: term.append("E"), lambda: term.append("C"))
    for step in case["script"]:
        if step[0] == "N":
            src.on_next(step[1])
        elif step[0] == "ctl":              # the hand-held openings / boundaries observable emits
            hot.on_next(0)
        elif step[0] == "ctldone":
            hot.on_completed()
        elif step[0] == "close":            # the closing observable of the j-th opening fires (if hand-held)
            if step[1] < len(closings) and closings[step[1]] is not None:
                (closings[step[1]].on_next(0) if step[2] == "next" else closings[step[1]].on_completed())
        elif step[0] == "done":
            src.on_completed()
        else:
            src.on_error(RuntimeError("boom"))
    return out, term


def ref_sync_rule(case):
    """reference written from the rule.  toggle: every opening (inside subscribe or later) opens a window; it
    closes when ITS closing observable fires (at once for empty / of); an element goes to every window open when it
    arrives; the source's terminal ends every open window with its kind.  boundaries: one window at a time, a
    boundary closes it and opens the next.  -> windows [[items], terminal], `cut` = number of windows that were
    complete when the control observable (boundaries) terminated, or None"""
    toggle = "toggle" in case["operator"]
    wins, open_, order = [], [], []        # order: windows in the order in which they ended (buffers)
    calls = 0
    ctl_live = case["tail"] == "hot"          # the hand-held control observable can still emit
    ctl_done = case["tail"] == "done"         # the control observable has completed
    cut = None

    def end(g, kind):
        wins[g][1] = kind
        open_.remove(g)
        order.append(g)

    def opening():
        nonlocal calls
        g = len(wins)
        wins.append([[], None])
        open_.append(g)
        if toggle:
            kind = case["kinds"][calls] if calls < len(case["kinds"]) else "hot"
            calls += 1
            if kind in ("empty", "of"):
                end(g, "C")

    def boundary():
        end(open_[0], "C")
        opening()
    if not toggle:
        opening()
    for _ in range(case["sync"]):
        opening() if toggle else boundary()
    if case["tail"] == "done" and not toggle:
        cut = len(order)
    finished = False
    for step in case["script"]:
        if finished or cut is not None:
            break
        if step[0] == "N":
            for g in open_:
                wins[g][0].append(step[1])
        elif step[0] == "ctl":
            if ctl_live:
                opening() if toggle else boundary()
        elif step[0] == "ctldone":
            if ctl_live:
                ctl_live = False
                ctl_done = True
                if not toggle:
                    cut = len(order)
        elif step[0] == "close":
            g = step[1]
            kinds = case["kinds"]
            if toggle and g < len(wins) and g in open_ and (kinds[g] if g < len(kinds) else "hot") == "hot":
                end(g, "C")
        else:
            # is the error bound to show on the result?  windows: while the openings are live (toggle: the outer
            # sequence follows the openings); buffers: also through a window that was still open
            err_due = step[0] == "err" and (not toggle or not ctl_done or
                                            (case["operator"].startswith("buffer") and bool(open_)))
            for g in list(open_):
                end(g, "C" if step[0] == "done" else "E")
            finished = "err" if err_due else ("err-unseen" if step[0] == "err" else "done")
    return wins, order, cut, finished


def check_sync_rule(case):
    """-> (ok, got, expected).  Judged: which windows exist, what each contains, how it ended; buffers = the
    contents of the ended windows in the order in which they ended.  NOT judged (the statement is silent): when the
    OUTER sequence of a toggle completes, and anything after the boundaries observable itself terminated (`cut`:
    only what was complete by then, plus the contents of the window open at that moment)."""
    try:
        out, term = run_sync_rule(case)
    except RecursionError:
        return True, "recursion", None
    wins, order, cut, finished = ref_sync_rule(case)
    buf = case["operator"].startswith("buffer")
    if buf:
        exp = [wins[g][0] for g in order if wins[g][1] == "C"]
        if cut is not None:
            exp_cut = [wins[g][0] for g in order[:cut]]
            ok = out[:len(exp_cut)] == exp_cut and len(out) <= len(exp_cut) + 1
            return ok, [out, term], [exp_cut, "(+ at most one more buffer)"]
        ok = out == exp and (("E" in term) == (finished == "err"))
        return ok, [out, term], [exp, "E" if finished == "err" else "no error"]
    if cut is not None:
        n_closed = cut
        ok = (len(out) == len(wins) and all(out[g] == wins[g] for g in order[:n_closed])
              and all(out[g][0] == wins[g][0] for g in range(len(wins))))
        return ok, [out, term], [wins, f"(terminals judged for the first {n_closed} ended windows only)"]
    ok = out == wins and (("E" in term) == (finished == "err"))
    return ok, [out, term], [wins, "E" if finished == "err" else "no error"]


def gen_sync_rule(rng):
    name = rng.choice(["window_toggle", "buffer_toggle", "window", "buffer"])
    toggle = "toggle" in name
    sync = rng.choice([0, 1, 1, 2, 3])
    tail = rng.choice(["hot", "hot", "hot", "done", "never"])
    kinds = [rng.choice(["hot", "hot", "hot", "empty", "of", "never"]) for _ in range(6)] if toggle else []
    script = []
    for _ in range(rng.choice([3, 5, 8])):
        r = rng.random()
        if r < 0.55:
            script.append(["N", rng.choice([0, None, 1, 2, 3, ""])])
        elif r < 0.75:
            script.append(["ctl"])
        elif toggle:
            script.append(["close", rng.randrange(4), rng.choice(["next", "next", "done"])])
        else:
            script.append(["ctl"])
    r = rng.random()
    if r < 0.1:
        script.append(["ctldone"])
        script.append(["N", 7])
    if r < 0.6:
        script.append(["done"])
    elif r < 0.75:
        script.append(["err"])
    return {"operator": name, "sync": sync, "tail": tail, "kinds": kinds, "script": script,
            "immediate": rng.random() < 0.6}


def sync_rule_scenarios(chk):
    n = 240 if chk.tier == "quick" else 4000
    nontrivial = set()
    per = {}
    for _ in range(n):
        case = gen_sync_rule(chk.rng)
        ok, got, exp = check_sync_rule(case)
        chk.cov["evaluations"] += 1
        if not ok:
            chk.violation(f"C18|sync-rule|{case['operator']}|sync={case['sync']}|{case['tail']}|{case['kinds'][:3]}|{case['script']}"[:170],
                          {"sync_rule_case": case, "got (windows [[items], terminal] / buffers, outer terminal)": repr(got),
                           "expected": repr(exp),
                           "what": "openings / boundaries emitting inside subscribe() and closing observables firing "
                                   "inside subscribe(): every element belongs to exactly the windows open when it "
                                   "arrives; a window closes when its own rule says so"},
                          size=len(case["script"]) + case["sync"])
        elif case["sync"] or any(k in ("empty", "of") for k in case["kinds"][:2]):
            nontrivial.add(repr(case))
            per[case["operator"]] = per.get(case["operator"], 0) + 1
    chk.cov["sync_rule_scenarios"] = per
    return nontrivial


# ---- feedback: a window subscriber (or the outer on_next) pushes a new element into the source (oracle-only) ----

def run_feedback(case):
    """the subscriber of a window, on receiving a chosen element ('win', x), or the outer subscriber, on being
    handed the g-th window ('hand', g), calls source.on_next(y) RE-ENTRANTLY.  Logged in real order:
    ('call', x, windows open at that moment as the subscriber sees them: handed, no terminal yet), ('hand', g),
    ('win', g, x), ('term', g)."""
    import datetime
    from reactivex import operators as ops
    from reactivex.subject import Subject
    from reactivex.scheduler import HistoricalScheduler
    src, ctl = Subject(), Subject()
    closings = []
    sched = HistoricalScheduler()
    name = case["operator"]

    def closing(*_a):
        sub = Subject()
        closings.append(sub)
        return sub
    op = {"window_with_count": lambda: ops.window_with_count(case["count"], case["skip"]),
          "window": lambda: ops.window(ctl),
          "window_when": lambda: ops.window_when(closing),
          "window_toggle": lambda: ops.window_toggle(ctl, closing),
          "window_with_time": lambda: ops.window_with_time(case["span"] / 1000, case["shift"] / 1000, sched),
          "window_with_time_or_count": lambda: ops.window_with_time_or_count(case["span"] / 1000, case["count"], sched),
          }[name]()
    log = []
    open_ = set()
    nwin = [0]
    feed_at = {(f[0], f[1]): f[2] for f in case["feeds"]}     # (where, trigger) -> value fed (once)

    def push(x):
        log.append(("call", x, sorted(open_)))
        src.on_next(x)

    def on_window(w):
        g = nwin[0]
        nwin[0] += 1
        open_.add(g)
        log.append(("hand", g))

        def on_next(x):
            log.append(("win", g, x))
            y = feed_at.pop(("win", x), None)
            if y is not None:
                push(y)

        def end():
            open_.discard(g)
            log.append(("term", g))
        w.subscribe(on_next, lambda e: end(), end)
        y = feed_at.pop(("hand", g), None)
        if y is not None:
            push(y)
    src.pipe(op).subscribe(on_window, lambda e: None, lambda: None)
    for step in case["script"]:
        if step[0] == "N":
            push(step[1])
        elif step[0] == "ctl":
            ctl.on_next(0)
        elif step[0] == "close":
            if closings:
                closings[min(step[1], len(closings) - 1)].on_next(0)
        elif step[0] == "tick":
            sched.advance_by(datetime.timedelta(milliseconds=step[1]))
        else:
            src.on_completed()
    return log


def judge_feedback(log):
    """the only demand (re-entrant delivery is not specified any further): every element -- fed ones included --
    is delivered to exactly the windows that were open when source.on_next was called with it, once each"""
    calls = {e[1]: e[2] for e in log if e[0] == "call"}
    got = {}
    for e in log:
        if e[0] == "win":
            got.setdefault(e[2], []).append(e[1])
    return [[x, o, sorted(got.get(x, []))] for x, o in calls.items() if sorted(got.get(x, [])) != o]


def gen_feedback(rng):
    name = rng.choice(["window_with_count", "window_with_count", "window", "window_when", "window_toggle",
                       "window_with_time", "window_with_time_or_count"])
    case = {"operator": name, "count": rng.choice([1, 2, 3, 4]), "skip": rng.choice([1, 2, 3, 4]),
            "span": rng.choice([10, 20, 30]), "shift": rng.choice([10, 20, 30])}
    script, v = [], 0
    for _ in range(rng.choice([4, 6, 9])):
        r = rng.random()
        if r < 0.6:
            script.append(["N", v])
            v += 1
        elif name in ("window", "window_toggle") and r < 0.8:
            script.append(["ctl"])
        elif name in ("window_when", "window_toggle"):
            script.append(["close", rng.randrange(3)])
        elif name.startswith("window_with_time"):
            script.append(["tick", rng.choice([5, 10, 10, 20])])
        else:
            script.append(["N", v])
            v += 1
    if rng.random() < 0.5:
        script.append(["done"])
    feeds = []
    for j in range(rng.choice([1, 1, 2])):
        where = rng.choice(["win", "win", "hand"])
        trig = rng.randrange(max(v, 1)) if where == "win" else rng.randrange(1, 4)
        feeds.append([where, trig, 100 + j])
    case["script"], case["feeds"] = script, feeds
    return case


def feedback_unspecified(case):
    """window_with_count with OVERLAPPING windows fed from inside a window's on_next: the nested call pops the
    oldest window and appends a new one to the very list the interrupted call is iterating
    (_windowwithcount.py `for item in q`), so the interrupted element skips a window that was open and reaches one
    that was not.  No reading of the count rule under re-entrancy is stated (serialising the nested call would
    equally leave the 'open at its call' reading unsatisfied): counted, not judged."""
    return (case["operator"] == "window_with_count" and case["skip"] < case["count"]
            and any(f[0] == "win" for f in case["feeds"]))


def feedback_scenarios(chk):
    n = 300 if chk.tier == "quick" else 6000
    nontrivial = set()
    per, deviating = {}, 0
    for _ in range(n):
        case = gen_feedback(chk.rng)
        try:
            log = run_feedback(case)
            bad = judge_feedback(log)
            exc = None
        except Exception as e:
            log, bad, exc = [], [], repr(e)
        chk.cov["evaluations"] += 1
        fed = sum(1 for e in log if e[0] == "call" and e[1] >= 100)
        if feedback_unspecified(case):
            deviating += bool(bad or exc)
            per["window_with_count overlapping, fed from a window (not judged)"] = \
                per.get("window_with_count overlapping, fed from a window (not judged)", 0) + 1
            continue
        if bad or exc:
            chk.violation(f"C18|feedback|{case['operator']}|{case['count']},{case['skip']}|{case['script']}|{case['feeds']}"[:170],
                          {"feedback_case": case, "log (in real order)": repr(log), "exception": exc,
                           "elements not delivered to exactly the windows open at their call "
                           "[element, open at the call, delivered to]": bad,
                           "what": "a window subscriber / the outer subscriber pushes a new element into the source "
                                   "re-entrantly: every element must reach exactly the windows open when "
                                   "source.on_next was called with it"},
                          size=len(case["script"]) + len(case["feeds"]))
        elif fed:
            nontrivial.add(repr(case))
            per[case["operator"]] = per.get(case["operator"], 0) + 1
    chk.cov["feedback_scenarios"] = per
    chk.cov["feedback_window_with_count_overlapping_deviations_not_judged"] = deviating
    return nontrivial


# ---- coverage only (not judged): see the comments -------------------------------------------------------------

def run_toggle_subscribe_scheduler(case):
    """window_toggle / buffer_toggle subscribed WITH a scheduler argument (a virtual-time one that is never
    advanced).  -> per window (in opening order): [elements it received, number of elements that had arrived
    before it was opened]"""
    from reactivex import operators as ops
    import reactivex as rx
    from reactivex.subject import Subject
    from reactivex.scheduler import HistoricalScheduler
    src, opn = Subject(), Subject()
    wins, sent = [], []
    closers = []

    def closing(_v):
        c = Subject()
        closers.append(c)
        return c
    if case["operator"] == "buffer_toggle":
        # buffers: close every window at the end and read the buffers (emitted in closing = opening order)
        bufs = []
        marks = []
        src.pipe(ops.buffer_toggle(opn, closing)).subscribe(bufs.append, lambda e: None, lambda: None,
                                                           scheduler=HistoricalScheduler())
        for step in case["script"]:
            if step[0] == "N":
                sent.append(step[1])
                src.on_next(step[1])
            else:
                marks.append(len(sent))
                opn.on_next(0)
        for c in closers:
            c.on_next(0)
        return [[list(b), k] for b, k in zip(bufs, marks)]

    def on_window(w):
        rec = [[], len(sent)]
        wins.append(rec)
        w.subscribe(rec[0].append, lambda e: None, lambda: None)
    src.pipe(ops.window_toggle(opn, closing)).subscribe(on_window, lambda e: None, lambda: None,
                                                        scheduler=HistoricalScheduler())
    for step in case["script"]:
        if step[0] == "N":
            sent.append(step[1])
            src.on_next(step[1])
        else:
            opn.on_next(0)
    return wins


def check_toggle_subscribe_scheduler(case):
    """every window holds exactly the elements that arrived after it was opened (none closes here)"""
    sent = [st[1] for st in case["script"] if st[0] == "N"]
    got = run_toggle_subscribe_scheduler(case)
    return all(rec == sent[k:] for rec, k in got), got


def toggle_subscribe_scheduler_scenarios(chk):
    """group_join kept every source element in right_map until its duration completed ON THE SCHEDULER PASSED TO
    subscribe(); a window opened meanwhile was handed elements that had arrived before it was open (fixed in /repo
    34c478c: the per-element duration now completes inside subscribe whatever the scheduler)."""
    n = 40 if chk.tier == "quick" else 400
    nontrivial = set()
    for _ in range(n):
        script, v = [], 0
        for _j in range(chk.rng.choice([3, 5, 7])):
            if chk.rng.random() < 0.6:
                script.append(["N", v])
                v += 1
            else:
                script.append(["open"])
        case = {"operator": chk.rng.choice(["window_toggle", "window_toggle", "buffer_toggle"]), "script": script}
        ok, got = check_toggle_subscribe_scheduler(case)
        chk.cov["evaluations"] += 1
        if not ok:
            chk.violation(f"C18|toggle-subscribe-scheduler|{case['operator']}|element delivered to a window opened after it arrived",
                          {"toggle_scheduler_case": case, "got [elements, arrived before the window opened]": repr(got),
                           "what": "window_toggle / buffer_toggle subscribed with scheduler=HistoricalScheduler() (never "
                                   "advanced): a window must hold exactly the elements that arrive while it is open"},
                          size=len(script))
        elif any(k and rec for rec, k in got):
            nontrivial.add(repr(case))
    chk.cov["toggle_with_subscribe_scheduler_cases"] = n
    return nontrivial


def boundary_parameter_coverage(chk):
    """COVERAGE ONLY.  parameters outside the statement's range (count/skip 1..N, positive timeshift): recorded, NOT judged.
    count <= 0 / skip <= 0: ArgumentOutOfRangeException when the operator is applied; buffer_with_time(timeshift=0)
    falls back to timeshift = timespan (`if not timeshift`); window_with_time(timeshift=0) is NOT run: it opens
    windows for ever at one instant (a virtual-time scheduler never returns from advance)."""
    import datetime
    from reactivex import operators as ops
    from reactivex.subject import Subject
    from reactivex.scheduler import HistoricalScheduler
    out = {}
    for name in ("window_with_count", "buffer_with_count"):
        for (c, k) in ((0, None), (-1, None), (2, 0), (2, -1), (0, 0)):
            try:
                Subject().pipe(getattr(ops, name)(c, k) if k is not None else getattr(ops, name)(c)).subscribe()
                out[f"{name}({c},{k})"] = "accepted"
            except Exception as e:
                out[f"{name}({c},{k})"] = type(e).__name__
            chk.cov["evaluations"] += 1
    sched, src, got = HistoricalScheduler(), Subject(), []
    src.pipe(ops.buffer_with_time(0.02, 0, sched)).subscribe(got.append)
    for (dt, x) in ((0, 1), (10, 2), (15, 3), (20, 4)):
        sched.advance_by(datetime.timedelta(milliseconds=dt))
        src.on_next(x)
    src.on_completed()
    out["buffer_with_time(0.02, timeshift=0): 1@0 2@10 3@25 4@45"] = repr(got)
    chk.cov["evaluations"] += 1
    chk.cov["boundary_parameters_not_judged"] = out


def run(chk):
    chk.build_and_prove()
    win_table.run_ops(chk, "C18", NAMES, ncase=(60 if chk.tier == "quick" else 600))
    chk.cov["rule"] = ("per operator: seeded parameters (count/skip 1-5 incl. skip>count and skip<count; timespan/"
                       "timeshift overlapping and gapped; boundary/opening/closing timelines; 12% raising closing "
                       "mappers) x seeded timelines on a small instant grid (coincidences with timer edges and "
                       "between sources common; falsy elements; 12% non-conforming tails; 20% outer dispose) x "
                       "seeded window-subscription policies (immediately / after a delay / never / dispose after n "
                       "elements / dispose after d ms); non-trivial = distinct (policy, machine, delivered input "
                       "sequence) with >= 2 window or buffer notifications and the oracle satisfied; in 35% of the "
                       "cases the measured subscription is the SECOND one of the same observable object (an abandoned "
                       "warm-up subscription with its own traffic first)")
    nt = sync_closing_scenarios(chk)
    chk.cov["distinct_nontrivial"] = chk.cov.get("distinct_nontrivial", 0) + len(nt)
    chk.cov["sync_closing_scenarios_nontrivial"] = len(nt)
    chk.cov["rule"] += ("; oracle-only: window_when / buffer_when whose closing selector returns, at seeded "
                        "invocations, an observable firing synchronously inside subscribe() (empty / of) mixed with "
                        "hand-held ones, against a reference written from the rule")
    nt = sync_rule_scenarios(chk)
    chk.cov["distinct_nontrivial"] += len(nt)
    chk.cov["sync_rule_scenarios_nontrivial"] = len(nt)
    chk.cov["rule"] += ("; oracle-only: window_toggle / buffer_toggle / window(boundaries) / buffer(boundaries) whose "
                        "openings / boundaries emit 0-3 items inside subscribe() (then hand-held / completed / silent) "
                        "and whose closing observables fire inside subscribe() (empty / of), never, or by hand")
    nt = feedback_scenarios(chk)
    chk.cov["distinct_nontrivial"] += len(nt)
    chk.cov["feedback_scenarios_nontrivial"] = len(nt)
    chk.cov["rule"] += ("; oracle-only: a window subscriber (on a chosen element) or the outer subscriber (on a chosen "
                        "hand) pushes a new element into the source re-entrantly, for the six window operators (timed "
                        "ones on a HistoricalScheduler): every element must reach exactly the windows open at its call; "
                        "window_with_count with overlapping windows fed from a window is counted, not judged")
    nt = toggle_subscribe_scheduler_scenarios(chk)
    chk.cov["distinct_nontrivial"] += len(nt)
    chk.cov["rule"] += ("; oracle-only: window_toggle / buffer_toggle subscribed with a scheduler argument that is "
                        "never advanced (no element may reach a window opened after it arrived)")
    boundary_parameter_coverage(chk)
    chk.cov["operators_modelled"] = NAMES
    return chk.finish(trusted_extra=[
        "window-aware K2 driver harness/k2w.py (hot sources, proxy scheduler, boundary log, window subscription "
        "policies turned into boundary inputs ISubWin/IUnsubWin; canonical per-instant ordering of "
        "subscribe/unsubscribe/timer events; warm-up = an earlier abandoned subscription whose traffic is not logged)",
        "runner assumption (Ops/MultiWin.v): the disposable under the operator's RefCountDisposable holds every "
        "subscription and timer it opened -- checked here by comparing unsubscribe/cancel instants"],
        assumptions=[
        "re-entrant feedback into window_with_count with overlapping windows from inside a window's on_next is "
        "counted, not judged (no reading of the count rule under re-entrancy is stated)",
        "parameters outside the stated range (count/skip <= 0, timeshift = 0) are recorded, not judged",
        "sync-rule family: the completion instant of a toggle's OUTER sequence and everything after the boundaries "
        "observable itself terminated are not judged"])


def replay(chk, path):
    import json
    d = json.load(open(path))
    if "feedback_case" in d:
        try:
            log = run_feedback(d["feedback_case"])
            bad = judge_feedback(log)
        except Exception as e:
            log, bad = [], [repr(e)]
        print(json.dumps({"case": d["feedback_case"], "log": repr(log), "bad": bad}, default=str))
        if bad:
            print(f"VIOLATION property=C18 replay={path}")
            return 1
        return 0
    if "toggle_scheduler_case" in d:
        ok, got = check_toggle_subscribe_scheduler(d["toggle_scheduler_case"])
        print(json.dumps({"case": d["toggle_scheduler_case"], "got": repr(got)}, default=str))
        if not ok:
            print(f"VIOLATION property=C18 replay={path}")
            return 1
        return 0
    if "sync_rule_case" in d:
        ok, got, exp = check_sync_rule(d["sync_rule_case"])
        print(json.dumps({"case": d["sync_rule_case"], "got": repr(got), "expected": repr(exp)}, default=str))
        if not ok:
            print(f"VIOLATION property=C18 replay={path}")
            return 1
        return 0
    if "sync_closing_case" in d:
        case = d["sync_closing_case"]
        got, exp = run_sync_closing(case), ref_sync_closing(case)
        gw, ew = list(got[0]), list(exp[0])
        if case["operator"] == "buffer_when" and exp[1] != ["C"]:
            ew = ew[:-1]
        print(json.dumps({"case": case, "got": [gw, got[1]], "expected": [ew, exp[1]]}, default=str))
        if (gw, got[1]) != (ew, exp[1]):
            print(f"VIOLATION property=C18 replay={path}")
            return 1
        return 0
    v, text = win_table.replay_case(path)
    print(text)
    print(f"[{chk.pid}] replay: {'STILL VIOLATED' if v else 'no longer violated on the current tree'}")
    if v:
        print(f"VIOLATION property={chk.pid} replay={path}")
    return 1 if v else 0
