"""C18 -- windows and buffers partition the source correctly (DESIGN.md section 7/C18).
Machines: Ops/Windows.v on the runner Ops/MultiWin.v (hands observables downstream, ref-counted
release); tie: K2 port-level replay with a window-subscribing logging subscriber (harness/k2w.py);
oracle: harness/win_table.py (expected content of every window/buffer recomputed from the rule)."""
import win_table

NAMES = ["window_with_count", "buffer_with_count", "window_with_time", "buffer_with_time",
         "window_with_time_or_count", "buffer_with_time_or_count", "window", "buffer",
         "window_when", "buffer_when", "window_toggle", "buffer_toggle"]


def run_sync_closing(case):
    """window_when / buffer_when whose closing selector returns, at chosen invocations, an observable that fires
    SYNCHRONOUSLY inside subscribe() (completes at once / emits at once) -- otherwise a hand-held Subject.
    -> list of windows (each a list of elements; the last one may be open), outer terminal"""
    import reactivex as rx
    from reactivex import operators as ops
    from reactivex.subject import Subject
    src = Subject()
    closings = []            # Subjects handed out, in invocation order (None for the synchronous ones)
    calls = [0]

    def closing():
        k = calls[0]
        calls[0] += 1
        kind = case["kinds"][k] if k < len(case["kinds"]) else "hot"
        if kind == "empty":
            closings.append(None)
            return rx.empty()
        if kind == "of":
            closings.append(None)
            return rx.of(0)
        s = Subject()
        closings.append(s)
        return s
    windows, term = [], []
    if case["operator"] == "buffer_when":
        src.pipe(ops.buffer_when(closing)).subscribe(lambda b: windows.append(list(b)), lambda e: term.append("E"),
                                                     lambda: term.append("C"))
    else:
        def on_window(w):
            rec = []
            windows.append(rec)
            w.subscribe(rec.append, lambda e: None, lambda: None)
        src.pipe(ops.window_when(closing)).subscribe(on_window, lambda e: term.append("E"), lambda: term.append("C"))
    for step in case["script"]:
        if step[0] == "N":
            src.on_next(step[1])
        elif step[0] == "close":        # the most recent hot closing observable fires
            live = [s for s in closings if s is not None]
            if live:
                (live[-1].on_next(0) if step[1] == "next" else live[-1].on_completed())
        else:
            src.on_completed()
    return windows, term


def ref_sync_closing(case):
    """reference: one window at a time; it closes when its closing observable fires (synchronously at creation for
    'empty'/'of'); the next window opens at that instant with the next invocation of the selector"""
    kinds = case["kinds"]
    calls = 0
    windows = [[]]

    def open_next():
        nonlocal calls
        while True:
            kind = kinds[calls] if calls < len(kinds) else "hot"
            calls += 1
            if kind == "hot":
                return
            windows.append([])          # fired at once: that window is closed empty and the next one opens
    open_next()
    done = False
    for step in case["script"]:
        if done:
            break
        if step[0] == "N":
            windows[-1].append(step[1])
        elif step[0] == "close":
            windows.append([])
            open_next()
        else:
            done = True
    return windows, (["C"] if done else [])


def sync_closing_scenarios(chk):
    n = 120 if chk.tier == "quick" else 2000
    nontrivial = set()
    for _ in range(n):
        kinds = [chk.rng.choice(["hot", "hot", "hot", "empty", "of"]) for _ in range(chk.rng.choice([2, 4, 6]))]
        script = []
        for _ in range(chk.rng.choice([3, 5, 8])):
            r = chk.rng.random()
            if r < 0.6:
                script.append(["N", chk.rng.choice([0, None, 1, 2, 3, ""])])
            else:
                script.append(["close", chk.rng.choice(["next", "next", "done"])])
        if chk.rng.random() < 0.7:
            script.append(["done"])
        case = {"operator": chk.rng.choice(["window_when", "buffer_when"]), "kinds": kinds, "script": script}
        try:
            got = run_sync_closing(case)
        except RecursionError:
            continue
        chk.cov["evaluations"] += 1
        exp = ref_sync_closing(case)
        gw, ew = list(got[0]), list(exp[0])
        if case["operator"] == "buffer_when" and exp[1] != ["C"]:
            ew = ew[:-1]                 # the open buffer is only emitted at completion
        if (gw, got[1]) != (ew, exp[1]):
            chk.violation(f"C18|sync-closing|{case['operator']}|{kinds}|{script}"[:160],
                          {"sync_closing_case": case, "got (windows, terminal)": [gw, got[1]],
                           "expected": [ew, exp[1]],
                           "what": "closing selector returning an observable that fires inside subscribe(): the "
                                   "window closes at once and the NEXT closing observable must stay subscribed"},
                          size=len(script) + len(kinds))
        elif any(k != "hot" for k in kinds[:3]) and len(ew) >= 3:
            nontrivial.add(repr(case))
    return nontrivial


def run(chk):
    chk.build_and_prove()
    win_table.run_ops(chk, "C18", NAMES, ncase=(60 if chk.tier == "quick" else 600))
    chk.cov["rule"] = ("per operator: seeded parameters (count/skip 1-5 incl. skip>count and skip<count; timespan/"
                       "timeshift overlapping and gapped; boundary/opening/closing timelines; 12% raising closing "
                       "mappers) x seeded timelines on a small instant grid (coincidences with timer edges and "
                       "between sources common; falsy elements; 12% non-conforming tails; 20% outer dispose) x "
                       "seeded window-subscription policies (immediately / after a delay / never / dispose after n "
                       "elements / dispose after d ms); non-trivial = distinct (policy, machine, delivered input "
                       "sequence) with >= 2 window or buffer notifications and the oracle satisfied")
    nt = sync_closing_scenarios(chk)
    chk.cov["distinct_nontrivial"] = chk.cov.get("distinct_nontrivial", 0) + len(nt)
    chk.cov["sync_closing_scenarios_nontrivial"] = len(nt)
    chk.cov["rule"] += ("; oracle-only: window_when / buffer_when whose closing selector returns, at seeded "
                        "invocations, an observable firing synchronously inside subscribe() (empty / of) mixed with "
                        "hand-held ones, against a reference written from the rule")
    chk.cov["operators_modelled"] = NAMES
    return chk.finish(trusted_extra=[
        "window-aware K2 driver harness/k2w.py (hot sources, proxy scheduler, boundary log, window subscription "
        "policies turned into boundary inputs ISubWin/IUnsubWin; canonical per-instant ordering of "
        "subscribe/unsubscribe/timer events)",
        "runner assumption (Ops/MultiWin.v): the disposable under the operator's RefCountDisposable holds every "
        "subscription and timer it opened -- checked here by comparing unsubscribe/cancel instants"])


def replay(chk, path):
    import json
    d = json.load(open(path))
    if "sync_closing_case" in d:
        case = d["sync_closing_case"]
        got, exp = run_sync_closing(case), ref_sync_closing(case)
        gw, ew = list(got[0]), list(exp[0])
        if case["operator"] == "buffer_when" and exp[1] != ["C"]:
            ew = ew[:-1]
        print(json.dumps({"case": case, "got": [gw, got[1]], "expected": [ew, exp[1]]}, default=str))
        if (gw, got[1]) != (ew, exp[1]):
            print(f"VIOLATION property=C18 replay={path}")
            return 1
        return 0
    v, text = win_table.replay_case(path)
    print(text)
    print(f"[{chk.pid}] replay: {'STILL VIOLATED' if v else 'no longer violated on the current tree'}")
    return 1 if v else 0
