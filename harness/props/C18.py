"""C18 -- windows and buffers partition the source correctly (DESIGN.md section 7/C18).
Machines: Ops/Windows.v on the runner Ops/MultiWin.v (hands observables downstream, ref-counted
release); tie: K2 port-level replay with a window-subscribing logging subscriber (harness/k2w.py);
oracle: harness/win_table.py (expected content of every window/buffer recomputed from the rule)."""
import win_table

NAMES = ["window_with_count", "buffer_with_count", "window_with_time", "buffer_with_time",
         "window_with_time_or_count", "buffer_with_time_or_count", "window", "buffer",
         "window_when", "buffer_when", "window_toggle", "buffer_toggle"]


def run(chk):
    chk.build_and_prove()
    win_table.run_ops(chk, "C18", NAMES, ncase=(60 if chk.tier == "quick" else 600))
    chk.cov["rule"] = ("per operator: seeded parameters (count/skip 1-5 incl. skip>count and skip<count; timespan/"
                       "timeshift overlapping and gapped; boundary/opening/closing timelines; 12% raising closing "
                       "mappers) x seeded timelines on a small instant grid (coincidences with timer edges and "
                       "between sources common; falsy elements; 12% non-conforming tails; 20% outer dispose) x "
                       "seeded window-subscription policies (immediately / after a delay / never / dispose after n "
                       "elements / dispose after d ms); non-trivial = distinct (policy, machine, delivered input "
                       "sequence) with >= 2 window or buffer notifications and the oracle satisfied")
    chk.cov["operators_modelled"] = NAMES
    return chk.finish(trusted_extra=[
        "window-aware K2 driver harness/k2w.py (hot sources, proxy scheduler, boundary log, window subscription "
        "policies turned into boundary inputs ISubWin/IUnsubWin; canonical per-instant ordering of "
        "subscribe/unsubscribe/timer events)",
        "runner assumption (Ops/MultiWin.v): the disposable under the operator's RefCountDisposable holds every "
        "subscription and timer it opened -- checked here by comparing unsubscribe/cancel instants"])


def replay(chk, path):
    v, text = win_table.replay_case(path)
    print(text)
    print(f"[{chk.pid}] replay: {'STILL VIOLATED' if v else 'no longer violated on the current tree'}")
    return 1 if v else 0
