"""C03 -- unsubscribing silences the subscriber and frees its sources (same machinery as C02, with a dispose at a random instant of EVERY case).
Further dispose points (oracle-only unless said otherwise): harness/relcases.py (dispose before the same-instant
events / before the first event -- also against the machines --, dispose from inside the k-th on_next, sources
emitting inside subscribe(), compositions) and harness/c03_producers.py (the library's producers on virtual time).

Theorems: Props/C02.v (runner, every machine, every input sequence).  Tie: the
unsubscribe INSTANTS of the implementation equal the runner's, operator by
operator: multi-source combinators (C10-C13 tables, harness/k2m.py) and every
single-source operator of the C05/C06 tables run through `lift`.  Oracle: on the
implementation's own boundary log, once the subscriber saw a terminal, every
source that was subscribed has been unsubscribed (at that instant) and nothing
is subscribed afterwards."""
import random

import comb_oracle
import comb_table
import k2
import k2m
import lib
import c03_probes
import c03_producers
import c03_teardown
import relcases
from props import C05, C06

IMPORTS = ("Base.Prelude Base.CaseLib Ops.Machine Ops.Elementwise Ops.Aggregates Ops.Multi Ops.MultiCase "
           "Ops.Combinators Ops.Lift")
MULTI = ["concat", "catch", "catch_handler", "on_error_resume_next", "repeat", "retry", "while_do", "do_while",
         "merge", "flat_map", "merge_all", "concat_map", "merge_mc", "switch_map", "switch_latest",
         "zip", "combine_latest", "with_latest_from", "fork_join", "amb", "take_until", "skip_until"]


def oracle(name, inst, res):
    return comb_oracle.common(res, comb_oracle.timeline(res))


def single_source(chk, dispose=False):
    """C05/C06 operators through lift: render run_hot results as runner traces"""
    ncase = 12 if chk.tier == "quick" else 150
    gal = {}
    nontrivial = set()
    per_op = {}
    for mod in (C05, C06):
        pool, T = mod.ops_table()
        for name in T:
            for ci in range(ncase):
                inst = T[name](chk.rng)
                if inst.get("find_enc"):
                    continue
                ipool = inst.get("pool", pool)
                ins = (C06.num_inputs(chk.rng, ipool) if inst.get("pool") is not None
                       else k2.gen_inputs(chk.rng, ipool, maxlen=5))
                dis = chk.rng.randrange(len(ins) + 1) if (dispose and ins) else None
                if dis is not None and dis >= len(ins):
                    dis = None
                res = k2.run_hot(lambda s: s.pipe(inst["py"]), ins, dispose_at=dis)
                chk.cov["evaluations"] += 1
                per_op[name] = per_op.get(name, 0) + 1
                # boundary log in runner vocabulary
                log = [(t, "emit", k, p) for (t, k, p) in res["out"]]
                for (what, idx, t) in res["sublog"]:
                    log.append((t, what, 0, None))
                em = [(t, k) for (t, k, p) in res["out"]]
                term_tag = next((t for t, k in em if k in "EC"), None)
                subs = [t for (w, i, t) in res["sublog"] if w == "sub"]
                unsubs = [t for (w, i, t) in res["sublog"] if w == "unsub"]
                sig = f"{name}|{k2.g_inputs(ins, ipool)}|{inst['coq'][:50]}"
                bad = None
                if term_tag is not None and subs and (not unsubs or unsubs[0] != term_tag):
                    bad = f"terminal at input {term_tag} but source unsubscribed at {unsubs}"
                if dis is not None:
                    dtag = dis + 1
                    if subs and term_tag is None and (not unsubs or unsubs[0] != dtag):
                        bad = f"dispose at input {dtag} but source unsubscribed at {unsubs}"
                    late = [t for (t, k, p) in res["out"] if t >= dtag and (term_tag is None or term_tag >= dtag)]
                    if late:
                        bad = f"notifications after dispose() returned: tags {late} (dispose before input {dtag})"
                    latecalls = [t for t in res["calls"] if t >= dtag]
                    if latecalls:
                        bad = f"user callback invoked after dispose() returned: {latecalls}"
                if res["escapes"]:
                    bad = f"exception escaped: {[repr(e) for _, e in res['escapes']]}"
                if bad:
                    chk.violation(f"release|{name}|{bad[:40]}", {"operator": name, "instance": inst["coq"],
                                  "inputs": k2.g_inputs(ins, ipool), "dispose_before_input": dis,
                                  "emissions": em, "sublog": res["sublog"], "what": bad}, size=len(ins))
                elif subs and unsubs:
                    nontrivial.add(sig)
                # model inputs: the hot source's events, with the dispose spliced in
                inputs = []
                for j, e in enumerate(ins):
                    if dis is not None and j == dis:
                        inputs.append((0, ("dispose",)))
                    inputs.append((0, ("src", 0, e)))
                # tags in run_hot: dispose shares the tag of the input it precedes -> retag to runner positions
                def retag(t):
                    if dis is None or t == 0:
                        return t
                    return t if t <= dis else t + 1
                log2 = []
                for (t, kind, a, b) in log:
                    if dis is not None and t == dis + 1 and kind == "unsub":
                        log2.append((dis + 1, kind, a, b))       # happened inside dispose()
                    elif dis is not None and t == dis + 1:
                        log2.append((dis + 2, kind, a, b))
                    else:
                        log2.append((retag(t), kind, a, b))
                r2 = {"log": log2, "escapes": []}
                gi = k2m.g_inputs(inputs, enc_in=lambda v: lib.gz(ipool.id(v)))
                key = (inst["ty"], inst["eqb"])
                gal.setdefault(key, []).append((f"(lift ({inst['coq']}), {gi})", k2m.g_trace(r2, inst["enc"])))
    for (ty, eqb), cases in gal.items():
        prelude = f"Definition model (c : machine Z {ty} * list (Z * inp Z)) := run_canon (fst c) (snd c).\n"
        bad, logs = lib.correspondence(chk.pid, "l_" + str(abs(hash((ty, eqb))) % 10**6), IMPORTS,
                                       f"(machine Z {ty} * list (Z * inp Z)) * list (nat * obs {ty})",
                                       "model", f"(trace_eqb {eqb})", cases, prelude=prelude)
        chk.cov["traces_validated_against_impl"] += len(cases)
        chk.cov["disagreements_checked"] += len(cases)
        if bad:
            firsts = [cases[i] for i in bad if i >= 0][:3]
            d = {"n": len(bad), "first (machine+inputs, implementation trace)": firsts, "logs": logs[:1]}
            if firsts:
                d["model_says"] = lib.coq_show(chk.pid, IMPORTS, f"model {firsts[0][0]}", prelude)
            chk.tie_broken(f"correspondence K2 (lifted single-source operators, {ty})", d)
    return nontrivial, per_op


def run(chk):
    chk.build_and_prove()
    comb_table.run_ops(chk, "C03", MULTI, oracle, ncase=(15 if chk.tier == "quick" else 200), p_dispose=1.0)
    nt_multi = chk.cov["distinct_nontrivial"]
    dist = chk.cov.get("input_distribution", {})
    nt, per_op = single_source(chk, dispose=True)
    # further dispose points (harness/relcases.py; own random stream, the cases above are unchanged by them)
    rx = random.Random(f"C03-relcases-{chk.seed}")
    q = chk.tier == "quick"
    extra, nt_extra = {}, 0
    for fam, n, opts, corr in [
            # dispose ordered BEFORE the events of its instant / before the first event: also against the machines
            ("prio", 20 if q else 300, dict(dispose="prio"), True),
            # dispose() called by the subscriber from INSIDE its k-th on_next (oracle only)
            ("inner", 60 if q else 800, dict(dispose="inner"), False),
            ("inner_sync", 60 if q else 800, dict(dispose="inner", p_sync=1.0, sync_from=1, p_tail=0.15), False),
            # sources emitting inside subscribe() / a composition with take(n)/first(), disposed between inputs
            ("sync_dispose", 30 if q else 400, dict(p_sync=1.0, dispose="prio"), False),
            ("tail_dispose", 30 if q else 400, dict(p_tail=1.0, p_sync=0.3, dispose="prio"), False)]:
        extra[fam], s = relcases.multi_family(chk, "C03", fam, MULTI, n, opts, rx, correspond=corr)
        nt_extra += len(s)
    for fam, n, opts in [("single_inner", 12 if q else 150, dict(inner=True)),
                         ("single_inner_sync", 8 if q else 100, dict(inner=True, sync=True))]:
        extra[fam], s = relcases.single_family(chk, "C03", fam, n, opts, rx)
        nt_extra += len(s)
    # the library's own producers on a virtual-time scheduler (from_iterable's disposed flag, cancellation of
    # scheduled work), disposed right after subscribe / at and between clock values / by a scheduled action ordered
    # before or after the producer's work of that instant / inside the k-th on_next
    extra["producers"], s = c03_producers.family(chk, "C03", 400 if q else 6000, rx)
    nt_extra += len(s)
    # operators that subscribe to user-made observables per element / per subscription: probes that emit inside
    # subscribe() and stay open, mixed with late and synchronously completing ones (harness/c03_probes.py)
    extra["probes"], s = c03_probes.family(chk, "C03", 3000 if q else 40000, rx)
    nt_extra += len(s)
    # the subscription given up RE-ENTRANTLY from a teardown callback (finally_action / do_finally / using's resource /
    # do_on_dispose / the probe's own dispose function / the dispose function of a timer) which the library invokes
    # while it replaces a live subscription or timer by the next one (harness/c03_teardown.py)
    extra["teardown"], s = c03_teardown.family(chk, "C03", 2500 if q else 40000, rx)
    nt_extra += len(s)
    chk.cov["distinct_nontrivial"] = nt_multi + len(nt) + nt_extra
    chk.cov["input_distribution"] = {"multi_source": dist, "single_source_per_operator": per_op,
                                     "further_dispose_points": extra}
    chk.cov["rule"] = ("multi-source: as C10-C13 (seeded interleavings of hot sources incl. non-conforming tails and "
                       "dispose instants); single-source: every operator of the C05/C06 tables on seeded hot inputs, "
                       "run through `lift`; non-trivial = distinct cases in which a source was subscribed and "
                       "released and the oracle held.  Further dispose points (harness/relcases.py, one seed per case): "
                       "`prio` = the multi-source operators with the dispose at a random event instant ordered BEFORE "
                       "(2/3) or after the events of that instant, or before the first event (also compared with the "
                       "machines: the delivered input sequence has IDispose at that position); `inner` / `inner_sync` = "
                       "dispose() called by the subscriber from INSIDE its k-th on_next, k drawn from the elements an "
                       "undisturbed run delivers after subscribe() returned (half of the time one that arrives in a step "
                       "in which a source was subscribed first), in `inner_sync` every source but the first delivers a "
                       "prefix of its sequence (half: all of it, terminal included) inside subscribe() and 15% have a "
                       "take(n)/first() stage appended; `sync_dispose` / `tail_dispose` = such sources / such a composition "
                       "disposed between inputs; `single_inner(_sync)` = the same for every C05/C06 operator.  Judged "
                       "(oracle only, by LOG POSITION): nothing is delivered, no callback spy fires (Table callbacks, "
                       "mapper-made sources, effects of factories / lazy iterables) behind the position at which dispose() "
                       "returned, no source is subscribed in a later step, and every source is closed when the step ends.  "
                       "`producers` (harness/c03_producers.py) = from_iterable(spy iterator) / range / generate / "
                       "generate_with_relative_time / timer / periodic timer / interval, optionally followed by map / filter "
                       "/ take / scan with spy callbacks, subscribed with a TestScheduler and disposed right after "
                       "subscribe(), at or between the clock values of an undisturbed run, by a scheduled action ordered "
                       "before or after the producer's work of an instant, or inside the k-th on_next; judged: behind the "
                       "log position at which dispose() returned no notification, no spy callback, no pull from the iterator.  "
                       "`probes` (harness/c03_probes.py) = the operators that subscribe to USER-MADE observables -- per "
                       "element (delay_with_mapper [+ subscription delay], throttle_with_mapper, timeout_with_mapper, flat_map "
                       "[_indexed, _latest], switch_map [_indexed], concat_map, map+merge_all / switch_latest / "
                       "merge(max_concurrent), expand, buffer_when / window_when, buffer_toggle / window_toggle, "
                       "group_by_until, join, group_join) or per subscription (buffer / window boundaries, sample, take_until, "
                       "skip_until, with_latest_from, combine_latest, zip, amb, merge, concat, catch, on_error_resume_next, "
                       "sequence_equal) -- fed with hand-made probes that keep their own observer list: `gate` / `gate2` "
                       "(one / two elements INSIDE subscribe(), then open), `late`, `done` / `val_done` (complete inside "
                       "subscribe()), `err`, the library's BehaviorSubject / ReplaySubject, optionally followed by map / "
                       "do_action / filter spies, fresh per mapper call or shared; a script of source elements / terminals and "
                       "pushes into the probes; the subscriber lets go (outer subscription and every window / group "
                       "subscription) between two steps, inside its k-th on_next, or at the end -- or receives a terminal "
                       "first; afterwards two elements and a terminal are pushed into every probe.  Judged: when that step "
                       "ends no probe and not the source has an observer left; behind the position at which dispose() "
                       "returned no notification and no user callback (spies of a probe subscribed in that very step "
                       "excepted: what a probe emits during the operator's subscribe() call is the probe's doing); in later "
                       "steps no notification, no callback, no probe subscribed; at the end still no observer anywhere.  "
                       "`teardown` (harness/c03_teardown.py) = the operators that REPLACE a live subscription or timer by the "
                       "next one -- the inner of map+switch_latest / switch_map[_indexed] / flat_map_latest, the duration of "
                       "throttle_with_mapper, the timeout (and the source, replaced by the fallback) of timeout_with_mapper, the "
                       "subscription delay and the delays of delay_with_mapper, the previous source of concat / catch / "
                       "on_error_resume_next (operator, function, handler / factory, lazy iterable), repeat, retry, concat_map, "
                       "merge(max_concurrent=1), the closing observable of window_when / buffer_when, the loser of amb, the gate "
                       "of skip_until / take_until, sample's sampler, expand's inners, and the TIMERS of debounce, timeout [+ "
                       "fallback], sample, delay, window_/buffer_with_time[_or_count], throttle_with_mapper / switch_map over "
                       "reactivex.timer (a TestScheduler handed to the operator whose schedule_* disposables are the harness's) "
                       "-- every probe (source included) carrying a teardown callback as finally_action / do_finally / "
                       "reactivex.using resource / do_on_dispose / the probe's own dispose function (before or after it drops its "
                       "observer) / the timer's dispose function; the k-th teardown callback that the library invokes during the "
                       "script of an undisturbed run (k uniform) gives the subscription up RE-ENTRANTLY: subscription.dispose() "
                       "(2/3) or an element pushed into the `other` of an appended take_until (1/3).  Judged as in `probes`, plus: "
                       "no timer armed by the pipeline is still armed when that step ends, none is armed or runs in a later "
                       "step; teardown callbacks themselves are never counted as user callbacks; non-trivial = the subscription "
                       "was given up inside a teardown callback and the oracle held")
    return chk.finish(trusted_extra=["runner assumption: an operator's disposable holds every subscription/timer it "
                                     "opened (Ops/Multi.v) -- this run compares unsubscribe instants operator by "
                                     "operator", "harness/k2m.py, harness/k2.py drivers",
                                     "harness/c03_probes.py (oracle-only family; hand-made probe observables, their "
                                     "observer lists are the harness's own bookkeeping)",
                                     "harness/c03_teardown.py (oracle-only family; probes as in c03_probes.py, timers "
                                     "observed through a TestScheduler subclass that wraps the disposables of schedule_absolute)",
                                     "harness/relcases.py (oracle-only families; the in-callback dispose is NOT compared "
                                     "with the machines: the runner has no input for a dispose in the middle of a step)"],
                      assumptions=["group/window observables handed to the subscriber (ref-counted release) are "
                                   "covered in C18/C19, time-based operators in C15-C17"])


def replay(chk, path):
    import json
    d = json.load(open(path))
    if c03_producers.is_replay(d):
        return c03_producers.replay_main("C03", path)
    if c03_teardown.is_replay(d):
        return c03_teardown.replay_main("C03", path)
    if c03_probes.is_replay(d):
        return c03_probes.replay_main("C03", path)
    if relcases.is_replay(d):
        return relcases.replay_main("C03", path)
    print(open(path).read())
    return 1
